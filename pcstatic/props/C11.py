"""C11 — trace summaries pick the true maximum and count topologies exactly (structural premises).

Decided here: the arg-max scan of the MAP command (all chains, all entries, direction of the comparison,
co-update of the pointer, the restored tree is the one the pointer names); the topology dictionary
(every entry of every chain counted once under its restored tree, score / pointer co-updated under the
same comparison); the ranking (sorted by score, descending, index reset before ids are derived; the
frequency mode reads row 0 of the count-sorted frame); the archive filter (skip iff rank >= top_trees,
rank parsed with the id's prefix length, row matched on a key of the ranking frame, the widening to
"all" only for the CLI's default sentinel); trace / result keys read by the summaries are written by
the run.  NOT decided: pandas sort semantics, ties (`>` and `>=` are both accepted).
"""
import ast

from ..astutil import call_name, calls, kwarg, u
from ..formula import atoms_of, contains_key, extract, spec
from ..model import AnalysisError
from ..termflow import ADict, Poly, Unsupported, Valuation, _close_vals, equivalent, key_atom, poly_from_key, show, show_key, vkey

PT = "process_trace.process_trace."
# helpers that are analysed on their own (or trusted): keep them as uninterpreted calls in callers
NI = [
    "get_clone_table", "create_topology_dict_from_trace", "create_topology_dataframe", "count_topology",
    "from_dict", "to_newick_string", "create_topologies_archive", "get_consensus_tree",
    "get_tree_from_consensus_graph", "exp_normalize", "print_string_to_file",
]


# ----------------------------------------------------------------------------- term helpers
def _eq(a, b):
    try:
        return equivalent(a, b)[0]
    except Unsupported as e:
        raise AnalysisError("terms cannot be compared: %s" % e)


class _OrderedValuation(Valuation):
    """Random interpretation in which `<` / `<=` are the real order on the (random) values of their
    operands instead of independent coin flips.  Two spellings of one scan (`if a <= best: continue` /
    `if best < a: update`, or a different nesting of the running maximum) then evaluate alike, while
    `<` for `>` still differs.  Random reals never tie, so `>` and `>=` coincide: ties are outside C11."""

    def rand(self, key):
        # scores are log-probabilities: draw values of both signs so that a scan started at 0 differs from one started at -inf
        return -1.0 + 2.0 * self._h(("val", key))

    def truth(self, g):
        if isinstance(g, tuple) and g and g[0] == "cmp" and g[1] in ("<", "<="):
            a, b = self.value_of_key(g[2]), self.value_of_key(g[3])
            if isinstance(a, (int, float)) and isinstance(b, (int, float)):
                return a < b or (g[1] == "<=" and a == b)
        return super().truth(g)


def _eq_ordered(a, b, trials=64):
    """Equality under the ordered interpretation (a fallback after `equivalent`): every trial must agree."""
    done = 0
    for t in range(trials):
        val = _OrderedValuation(t, salt="ordered")
        try:
            va, vb = val.value(a), val.value(b)
        except (ValueError, OverflowError, ZeroDivisionError):
            continue
        done += 1
        if not _close_vals(va, vb):
            return False
    if done < trials // 2:
        raise AnalysisError("terms could not be evaluated under the ordered interpretation")
    return True


def _same(a, b):
    return _eq(a, b) or _eq_ordered(a, b)


def _scan_functions(prog, f):
    """f and the same-module helpers it calls (transitively), except those analysed on their own."""
    out, todo = [], [f]
    while todo:
        g = todo.pop()
        if g in out:
            continue
        out.append(g)
        for c in calls(g.node):
            if isinstance(c.func, ast.Name) and c.func.id not in NI:
                h = prog.resolve_function(c.func.id, g.module)
                if h is not None and h.module is f.module and h not in out:
                    todo.append(h)
    return out


def _loops_and_exits(prog, f):
    loops, early = [], []
    for g in _scan_functions(prog, f):
        for l in ast.walk(g.node):
            if isinstance(l, (ast.For, ast.While)):
                loops.append(l)
                early += [(g, n) for n in ast.walk(l) if isinstance(n, (ast.Break, ast.Return))]
    return loops, early


def _is_polykey(k):
    return isinstance(k, tuple) and len(k) >= 1 and k[0] == "poly"


def _atom(k):
    """The single atom a key denotes, looking through `val` wrappers; None otherwise."""
    a = key_atom(k) if isinstance(k, tuple) and k else None
    while a is not None and a[0] == "val":
        a = key_atom(a[1])
    return a


def _base_key(k):
    """Key of the object itself, looking through `upd` wrappers (the engine rebinds a local to
    `upd(method, object, args)` after an effect-only call such as df.insert(...) or df.to_csv(...))."""
    a = _atom(k)
    while a is not None and a[0] == "upd":
        k = a[2]
        a = _atom(k)
    return k


def _str_of_key(k):
    a = _atom(k)
    if a is not None and a[0] == "const" and isinstance(a[1], str) and a[1][:1] in ("'", '"'):
        try:
            return ast.literal_eval(a[1])
        except (ValueError, SyntaxError):
            return None
    return None


def _str_of(v):
    if isinstance(v, str):
        return v
    if v is None or isinstance(v, bool):
        return None
    return _str_of_key(vkey(v))


def _const_of_key(k):
    """Python constant (bool / None / number) a key denotes, else the marker `_NOCONST`."""
    a = _atom(k)
    if a is not None and a[0] == "const":
        return {"True": True, "False": False, "None": None}.get(a[1], _NOCONST)
    if _is_polykey(k):
        p = poly_from_key(k)
        if p.is_const():
            c = p.const_value()
            return int(c) if c.denominator == 1 else float(c)
    return _NOCONST


_NOCONST = object()


def _sub_parts(k):
    a = _atom(k)
    if a is not None and a[0] == "sub":
        return a[1], a[2]
    return None


def _param_key(fi, name):
    if name not in fi.params:
        raise AnalysisError("%s has no parameter %r" % (fi.qualname, name))
    return Poly.atom(("v", "P%d" % fi.params.index(name))).key()


def _bind(prog, ev, callee):
    """parameter name -> argument term of an uninterpreted call event, by the callee's signature."""
    params = callee.params
    out = {}
    for i, a in enumerate(ev.args):
        if i >= len(params):
            raise AnalysisError("call of %s passes more positional arguments than it has parameters" % callee.qualname)
        out[params[i]] = a
    for k, v in ev.kwargs.items():
        if k not in params:
            raise AnalysisError("call of %s passes unknown keyword %s" % (callee.qualname, k))
        out[k] = v
    return out


def _events(ex, suffix):
    return [e for e in ex.events if e.name == suffix or e.name.endswith("." + suffix)]


def _lower_min(ctx, rule):
    """A violation has been recorded and the remaining instances of the rule cannot be evaluated: the
    confirmed minimum only protects against vacuous passes, so it must not turn the report into an
    ANALYSIS-ERROR."""
    ctx.rule_min[rule] = min(ctx.rule_min.get(rule, 0), ctx.instance_counts().get(rule, 0))


def _mode_of_guards(ev, pkey):
    """{(string, polarity)} for guards `param == 'string'` / its negation on the event's path."""
    out = set()
    for g in ev.guards:
        pol = True
        if g[0] == "not":
            g, pol = g[1], False
        if g[0] == "cmp" and g[1] == "==":
            sides = [g[2], g[3]]
            if pkey in sides:
                other = sides[1] if sides[0] == pkey else sides[0]
                s = _str_of_key(other)
                if s is not None:
                    out.add((s, pol))
    return out


def _cli_option(prog, fn_suffix, flag):
    fi = prog.fn(fn_suffix)
    for d in fi.node.decorator_list:
        if isinstance(d, ast.Call) and call_name(d).split(".")[-1] == "option":
            if any(isinstance(a, ast.Constant) and a.value == flag for a in d.args):
                return fi, d
    raise AnalysisError("%s has no click option %s" % (fi.qualname, flag))


def _restored_pointer(T, what):
    """T must denote R[c]['trace'][i]['tree']; returns (R key, c key, i key)."""
    p1 = _sub_parts(vkey(T))
    p2 = _sub_parts(p1[0]) if p1 else None
    p3 = _sub_parts(p2[0]) if p2 else None
    p4 = _sub_parts(p3[0]) if p3 else None
    if not p4 or _str_of_key(p1[1]) != "tree" or _str_of_key(p3[1]) != "trace":
        raise AnalysisError("%s: the restored tree is %s, not <results>[chain]['trace'][entry]['tree'] (unrecognised shape)" % (what, show(T)[:200]))
    return p4[0], p4[1], p2[1]


def _value_of_key(k):
    if _is_polykey(k):
        return poly_from_key(k)
    return Poly.atom(("val", k))


# ----------------------------------------------------------------------------- A1
A1_SPEC = """
def s(results):
    best = float("-inf")
    best_chain = 0
    best_entry = 0
    for chain, chain_result in results.items():
        for i, entry in enumerate(chain_result["trace"]):
            if entry["log_p_one"] %s best:
                best = entry["log_p_one"]
                best_chain = chain
                best_entry = i
    return (best_chain, best_entry)
"""


def _map_arms(ctx, f, ex):
    """from_dict events of write_map_results split into the scan arm and the frequency arm."""
    prog = ctx.prog
    _, opt = _cli_option(prog, "cli.map", "--map-type")
    typ = kwarg(opt, "type")
    choices = None
    if isinstance(typ, ast.Call) and call_name(typ).split(".")[-1] == "Choice" and typ.args and isinstance(typ.args[0], (ast.List, ast.Tuple)):
        choices = [e.value for e in typ.args[0].elts if isinstance(e, ast.Constant)]
    if not choices or "frequency" not in choices or len(choices) != 2:
        raise AnalysisError("cli.map --map-type is not a two-way click.Choice including 'frequency': %s" % (u(typ),))
    other = [c for c in choices if c != "frequency"][0]
    # the choice made on the command line is the one write_map_results branches on
    from ..astutil import cli_forwards

    clif = prog.fn("cli.map")
    okf, whyf = cli_forwards(clif.node, "--map-type", f.name, f.params, "map_type")
    ctx.check(okf, "A1", "cli.map hands --map-type to write_map_results(map_type=…)", clif.where(), "the command-line choice does not reach write_map_results (%s): the default mode is used whatever the user asked for" % whyf, construct=clif.qualname, stmt="--map-type forwarded")
    pkey = _param_key(f, "map_type")
    scan, freq = [], []
    for e in _events(ex, "from_dict"):
        modes = _mode_of_guards(e, pkey)
        is_freq = ("frequency", True) in modes or (other, False) in modes
        is_scan = ("frequency", False) in modes or (other, True) in modes
        if is_freq == is_scan:
            raise AnalysisError("write_map_results: a Tree.from_dict call is not selected by map_type (guards %s)" % [show_key(g) for g in e.guards])
        (freq if is_freq else scan).append(e)
    if len(scan) != 1 or len(freq) != 1:
        raise AnalysisError("write_map_results: expected one restored tree per map_type arm, found %d / %d" % (len(scan), len(freq)))
    return scan[0], freq[0]


def rule_A1(ctx):
    prog = ctx.prog
    ctx.rule("A1", "MAP (joint-likelihood): the scan ranges over all chains and all entries, keeps (score, entry, chain) together under `>`/`>=` from -inf, and restores exactly the entry the pointer names", 4)
    f = prog.fn(PT + "write_map_results")
    loops, early = _loops_and_exits(prog, f)
    if not loops:
        # not a scan.  One thing can still be decided on any rewrite: every entry of every chain must be a candidate, and
        # `zip(*per-chain sequences)` stops at the shortest chain (chains differ in length whenever --max-time strikes)
        for fn_ in [f] + [g for g in prog.functions.values() if prog.is_new_function(g) and g.module is f.module]:
            for c in calls(fn_.node):
                if isinstance(c.func, ast.Name) and c.func.id == "zip" and any(isinstance(a, ast.Starred) for a in c.args):
                    ctx.fail("A1", "write_map_results: every entry of every chain is a candidate for the maximum", fn_.where(c),
                             "`%s` lines the chains' entries up position by position: zip stops at the shortest chain, so the tail of a longer chain (a chain stopped by --max-time is shorter than the others) is never compared — the maximum can be missed" % u(c)[:90],
                             construct=f.qualname, stmt="zip over per-chain traces")
                    return
        raise AnalysisError("write_map_results contains no loop: the arg-max is not a scan (e.g. a max()-based rewrite) and is not recognised")
    if early:
        g, n = early[0]
        ctx.fail("A1", "write_map_results: the scan has no early exit", g.where(n), "a `%s` inside the scan loop stops the arg-max before every entry of every chain has been compared" % u(n), construct=g.qualname, stmt="early exit in scan")
        _lower_min(ctx, "A1")
        ctx.analysed(f)
        return
    ctx.ok("A1", "write_map_results: the scan has no early exit", f.where(), "no break/return inside a loop")
    ex = extract(prog, f, no_inline=NI)
    scan, _ = _map_arms(ctx, f, ex)
    T = scan.args[0] if scan.args else None
    if T is None:
        raise AnalysisError("write_map_results: Tree.from_dict called without a positional argument")
    Rk, Ck, Ik = _restored_pointer(T, "write_map_results (joint-likelihood)")
    R, C, I = _value_of_key(Rk), _value_of_key(Ck), _value_of_key(Ik)
    ctx.ok("A1", "write_map_results: restores <results>[chain]['trace'][entry]['tree']", f.where(scan.node), "results = %s" % show(R)[:120])
    verdicts = {}
    for op in (">", ">="):
        sp = spec(prog, A1_SPEC % op, f, args=[R], no_inline=NI)
        want_c, want_i = sp.result.items
        verdicts[op] = (_same(C, want_c), _same(I, want_i), want_c, want_i)
    op = ">" if all(verdicts[">"][:2]) or not all(verdicts[">="][:2]) else ">="
    okc, oki, want_c, want_i = verdicts[op]
    why = "the %s handed to Tree.from_dict is not the arg-max of log_p_one over every entry of every chain (scan from -inf, `>` or `>=`, score/entry/chain updated together): code %s ; specification %s"
    ctx.check(okc, "A1", "write_map_results: chain pointer is the arg-max chain", f.where(scan.node), why % ("chain index", show(C)[:500], show(want_c)[:500]), construct=f.qualname, stmt="chain of the MAP entry", detail="agrees with the `%s` scan" % op)
    ctx.check(oki, "A1", "write_map_results: entry pointer is the arg-max entry", f.where(scan.node), why % ("entry index", show(I)[:500], show(want_i)[:500]), construct=f.qualname, stmt="index of the MAP entry", detail="agrees with the `%s` scan" % op)
    ctx.sample({"rule": "A1", "chain": show(C)[:300], "entry": show(I)[:300]})
    ctx.analysed(f)


# ----------------------------------------------------------------------------- A2
A2_DICT_SPEC = """
def s(trace):
    topologies = dict()
    for chain_num, chain_result in trace.items():
        for i, x in enumerate(chain_result["trace"]):
            count_topology(topologies, x, i, Tree.from_dict(x["tree"]), chain_num)
    return topologies
"""

A2_COUNT_SPEC = """
def s(topologies, x, i, x_top, chain_num=0):
    if x_top in topologies:
        t = topologies[x_top]
        t["count"] = t["count"] + 1
        if x["log_p_one"] %s t["log_p_joint_max"]:
            t["log_p_joint_max"] = x["log_p_one"]
            t["iter"] = i
            t["chain_num"] = chain_num
    else:
        topologies[x_top] = {"topology": x_top, "count": 1, "log_p_joint_max": x["log_p_one"], "iter": i, "chain_num": chain_num}
"""

FIELDS = ("count", "log_p_joint_max", "iter", "chain_num")


def _stores_by_field(ex, basekey):
    out = {}
    for (b, idx), v in ex.sub_stores().items():
        if b == basekey:
            s = _str_of_key(idx)
            if s is not None:
                out[s] = v
    return out


def _miss_store(ex, dkey, kkey, fi):
    evs = [e for e in ex.calls("store_sub") if vkey(e.args[0]) == dkey and vkey(e.args[1]) == kkey]
    if len(evs) != 1:
        raise AnalysisError("%s: expected exactly one `topologies[tree] = {...}` store, found %d" % (fi.qualname, len(evs)))
    if not isinstance(evs[0].args[2], ADict):
        raise AnalysisError("%s: the record of a new topology is not a dict display (%s)" % (fi.qualname, show(evs[0].args[2])[:120]))
    return evs[0]


def rule_A2(ctx):
    prog = ctx.prog
    ctx.rule("A2", "every entry of every chain is counted once under its restored tree; hit: count+1 and (score, entry, chain) co-updated under `>`/`>=`; miss: count 1 and the entry's own triple", 12)
    # ---- the driver loop
    f = prog.fn(PT + "create_topology_dict_from_trace")
    ct = prog.fn(PT + "count_topology")
    if any(isinstance(n, (ast.Break, ast.Continue)) for n in ast.walk(f.node)):
        n = [n for n in ast.walk(f.node) if isinstance(n, (ast.Break, ast.Continue))][0]
        ctx.fail("A2", "create_topology_dict_from_trace counts every entry of every chain", f.where(n), "`%s` in the counting loop skips entries" % u(n), construct=f.qualname, stmt="early exit in counting loop")
        _lower_min(ctx, "A2")
    else:
        ex = extract(prog, f, no_inline=NI)
        sp = spec(prog, A2_DICT_SPEC, f, no_inline=NI)
        got, want = _events(ex, "count_topology"), _events(sp, "count_topology")
        ok = len(got) == len(want)
        why = "%d count_topology call(s) per unrolled trace, the specification has %d" % (len(got), len(want))
        if ok:
            for i, (g, w) in enumerate(zip(got, want)):
                bg, bw = _bind(prog, g, ct), _bind(prog, w, ct)
                for p in ("topologies", "x", "i", "x_top", "chain_num"):
                    if p not in bg:
                        ok, why = False, "call %d does not pass %s" % (i, p)
                    elif not _eq(bg[p], bw[p]):
                        ok, why = False, "call %d passes %s = %s, the specification %s (entry, its index, the tree restored from that entry, the chain key)" % (i, p, show(bg[p])[:200], show(bw[p])[:200])
                    if not ok:
                        break
                if not ok:
                    break
        ctx.check(ok, "A2", "create_topology_dict_from_trace: count_topology(topologies, entry, index, Tree.from_dict(entry['tree']), chain) for every entry of every chain", f.where(), why, construct=f.qualname, stmt="count_topology(...) per entry")
        ret_ok = bool(got) and ex.result is not None and all(vkey(_bind(prog, g, ct).get("topologies")) == vkey(ex.result) for g in got)
        # object identity is not a term property: the returned name must be the (once-bound) name counted into
        names_ok = True
        rets = [n for n in ast.walk(f.node) if isinstance(n, ast.Return)]
        cts = calls(f.node, name="count_topology")
        if len(rets) == 1 and cts:
            rv = rets[0].value
            firsts = [c.args[0] if c.args else kwarg(c, ct.params[0]) for c in cts]
            if isinstance(rv, ast.Name) and all(isinstance(a, ast.Name) for a in firsts):
                nstores = sum(1 for n in ast.walk(f.node) if isinstance(n, ast.Name) and n.id == rv.id and isinstance(n.ctx, ast.Store))
                names_ok = all(a.id == rv.id for a in firsts) and nstores == 1
            elif isinstance(rv, ast.Dict) or (isinstance(rv, ast.Call) and call_name(rv) in ("dict", "defaultdict") and not rv.args):
                names_ok = False
        ctx.check(ret_ok and names_ok, "A2", "create_topology_dict_from_trace returns the dictionary it counted into", f.where(), "the returned dictionary is not the one handed to count_topology", construct=f.qualname, stmt="return topologies")
        # one dictionary accumulates over all chains: counts and maxima of a topology seen in several chains add up /
        # compete only if every entry is counted into the same mapping.  Merging per-chain dictionaries with
        # dict.update / | / {**a, **b} overwrites instead (the last chain's record wins).
        merges = []
        if len(rets) == 1 and isinstance(rets[0].value, ast.Name):
            rn = rets[0].value.id
            for n in ast.walk(f.node):
                if isinstance(n, ast.Call) and isinstance(n.func, ast.Attribute) and n.func.attr == "update" and isinstance(n.func.value, ast.Name) and n.func.value.id == rn and n.args:
                    merges.append(n)
                if isinstance(n, ast.AugAssign) and isinstance(n.op, ast.BitOr) and isinstance(n.target, ast.Name) and n.target.id == rn:
                    merges.append(n)
                if isinstance(n, ast.Assign) and any(isinstance(t, ast.Name) and t.id == rn for t in n.targets) and (isinstance(n.value, ast.BinOp) and isinstance(n.value.op, ast.BitOr) or (isinstance(n.value, ast.Dict) and any(k is None for k in n.value.keys))):
                    merges.append(n)
        # the same, through helpers newer than the rules: entries counted into a dictionary that is not the returned
        # object (one per chain) have to be merged; a merge that lets `record.update(other_record)` / `d.update(other)`
        # stand (no count restored afterwards) overwrites the accumulated count
        from ..astutil import new_helper_scope

        scope = new_helper_scope(prog, f)
        same_object = bool(got) and all(_bind(prog, g, ct).get("topologies") is ex.result for g in got)
        if not same_object and len(scope) > 1:
            for h in scope[1:]:
                hp = set(h.params)
                for n in ast.walk(h.node):
                    if isinstance(n, ast.Call) and isinstance(n.func, ast.Attribute) and n.func.attr == "update" and n.args and not n.keywords:
                        later_count = False
                        for st_ in ast.walk(h.node):
                            if isinstance(st_, (ast.Assign, ast.AugAssign)) and getattr(st_, "lineno", 0) > n.lineno:
                                for t in (st_.targets if isinstance(st_, ast.Assign) else [st_.target]):
                                    if isinstance(t, ast.Subscript) and isinstance(t.slice, ast.Constant) and t.slice.value == "count":
                                        later_count = True
                        roots = {x.id for x in ast.walk(n.args[0]) if isinstance(x, ast.Name)}
                        if not later_count and (roots & hp or any(isinstance(a, ast.Name) for a in [n.args[0]])):
                            merges.append(n)
                    if isinstance(n, ast.AugAssign) and isinstance(n.op, ast.BitOr):
                        merges.append(n)
            if not merges:
                raise AnalysisError("A2: the entries are counted into per-chain dictionaries that %s merges into the result; what the merge does to the counts and maxima of a topology seen in several chains is not modelled" % ", ".join(h.name for h in scope[1:]))
        ctx.check(not merges, "A2", "create_topology_dict_from_trace: one dictionary accumulates over all chains (no overwrite-merge of per-chain dictionaries)", f.where(merges[0]) if merges else f.where(), "`%s` merges a separately counted dictionary into the result by overwriting: a topology sampled in several chains keeps only the last chain's count and maximum" % (u(merges[0])[:80] if merges else ""), construct=f.qualname, stmt="overwrite-merge of topology dictionaries")
    ctx.analysed(f)
    # ---- one entry
    ex = extract(prog, ct)
    kd, kt = _param_key(ct, "topologies"), _param_key(ct, "x_top")
    hit_base = Poly.atom(("sub", kd, kt)).key()
    got = _stores_by_field(ex, hit_base)
    specs = {op: spec(prog, A2_COUNT_SPEC % op, ct) for op in (">", ">=")}
    wants = {op: _stores_by_field(sp, hit_base) for op, sp in specs.items()}

    def agree(op):
        return all(fld in got and _same(got[fld], wants[op][fld]) for fld in FIELDS)

    op = ">" if agree(">") or not agree(">=") else ">="
    descr = {
        "count": "known topology: count incremented by exactly one, on every hit",
        "log_p_joint_max": "known topology: score replaced by the entry's log_p_one iff it is larger",
        "iter": "known topology: entry pointer updated together with the score",
        "chain_num": "known topology: chain pointer updated together with the score",
    }
    for fld in FIELDS:
        if fld not in got:
            ctx.fail("A2", "count_topology: " + descr[fld], ct.where(), "topologies[tree][%r] is never updated for a topology that is already present" % fld, construct=ct.qualname, stmt="hit: " + fld)
            continue
        ctx.check(_same(got[fld], wants[op][fld]), "A2", "count_topology: " + descr[fld], ct.where(), "update of %r on a hit differs from the specification: code %s ; specification %s" % (fld, show(got[fld])[:400], show(wants[op][fld])[:400]), construct=ct.qualname, stmt="hit: " + fld, detail="agrees with the `%s` update" % op)
    # ---- a new topology
    ev = _miss_store(ex, kd, kt, ct)
    sev = _miss_store(specs[op], kd, kt, ct)
    gset, wset = set(ev.guards), set(sev.guards)
    ctx.check(gset == wset, "A2", "count_topology: a record is created iff the tree is not yet a key", ct.where(ev.node), "the new record is stored under %s, the specification under %s" % ([show_key(g) for g in ev.guards], [show_key(g) for g in sev.guards]), construct=ct.qualname, stmt="miss: guard")
    rec, wrec = ev.args[2], sev.args[2]
    names = {
        "count": "count starts at 1",
        "log_p_joint_max": "score is the entry's log_p_one",
        "iter": "entry pointer is the entry's index",
        "chain_num": "chain pointer is the entry's chain",
        "topology": "the stored tree is the key",
    }
    for fld, txt in names.items():
        k = ("const", repr(fld))
        if k not in rec.items:
            ctx.fail("A2", "count_topology: new topology: " + txt, ct.where(ev.node), "the record of a new topology has no %r field" % fld, construct=ct.qualname, stmt="miss: " + fld)
            continue
        ctx.check(_eq(rec.items[k][1], wrec.items[k][1]), "A2", "count_topology: new topology: " + txt, ct.where(ev.node), "field %r of a new record is %s, the specification %s" % (fld, show(rec.items[k][1])[:200], show(wrec.items[k][1])[:200]), construct=ct.qualname, stmt="miss: " + fld)
    ctx.analysed(ct)


# ----------------------------------------------------------------------------- A3
def _sort_info(Fk):
    """Outermost sort of a data-frame term: dict(by, ascending, reset, recv) or None."""
    a = _atom(_base_key(Fk))
    reset = False
    while a is not None and a[0] == "mcall" and a[1] == "reset_index":
        kw = dict(a[4])
        if "drop" in kw and _const_of_key(kw["drop"]) is True:
            reset = True
        a = _atom(_base_key(a[2]))
    if a is None or a[0] != "mcall" or a[1] != "sort_values":
        return None
    kw = dict(a[4])
    byk = kw.get("by", a[3][0] if a[3] else None)
    by = None
    if byk is not None:
        s = _str_of_key(byk)
        if s is not None:
            by = [s]
        elif isinstance(byk, tuple) and byk and byk[0] == "list":
            by = [_str_of_key(x) for x in byk[1]]
    asc = True
    if "ascending" in kw:
        asc = _const_of_key(kw["ascending"])
    elif len(a[3]) >= 3:
        asc = _const_of_key(a[3][2])
    if "ignore_index" in kw and _const_of_key(kw["ignore_index"]) is True:
        reset = True
    if "inplace" in kw:
        raise AnalysisError("sort_values(inplace=...) is not recognised")
    return {"by": by, "ascending": asc, "reset": reset, "recv": a[2]}


def _row_read(k):
    """(frame key, column, row) if key k reads column `column` of a constant row of a frame, else None."""
    p = _sub_parts(k)
    if not p:
        return None
    base, idx = p
    col = _str_of_key(idx)
    row = _const_of_key(idx)
    if col is None and isinstance(row, int) and not isinstance(row, bool):
        b = _atom(base)
        if b is not None and b[0] == "attr" and b[2] in ("iloc", "iat", "values", "array"):
            inner = _sub_parts(b[1])
        elif b is not None and b[0] == "mcall" and b[1] in ("to_numpy", "tolist", "to_list") and not b[3]:
            inner = _sub_parts(b[2])
        else:
            return None
        if inner and _str_of_key(inner[1]) is not None:
            return _base_key(inner[0]), _str_of_key(inner[1]), row
        return None
    if col is not None:
        q = _sub_parts(base)
        row = _const_of_key(q[1]) if q else None
        if q and isinstance(row, int) and not isinstance(row, bool):
            b = _atom(q[0])
            if b is not None and b[0] == "attr" and b[2] == "iloc":
                return _base_key(b[1]), col, row
            if b is not None and b[0] == "attr" and b[2] in ("loc", "at"):
                return _base_key(b[1]), col, ("label", row)  # read by index *label*, not by position
    return None


def _id_assignment(ex, fi):
    """(frame value, id value, node) of the statement that creates the topology_id column."""
    hits = []
    for e in ex.events:
        if e.name == ".insert" and len(e.args) >= 3 and _str_of(e.args[1]) == "topology_id":
            hits.append((e.recv, e.args[2], e.node))
        elif e.name == "store_sub" and _str_of(e.args[1]) == "topology_id":
            hits.append((e.args[0], e.args[2], e.node))
        elif e.name == ".assign" and "topology_id" in e.kwargs:
            hits.append((e.recv, e.kwargs["topology_id"], e.node))
    if len(hits) != 1:
        raise AnalysisError("%s: expected exactly one statement creating the 'topology_id' column, found %d" % (fi.qualname, len(hits)))
    return hits[0]


def _id_prefix(prog):
    """String literal that prefixes the rank in a topology id (AST of create_topology_dataframe)."""
    f = prog.fn(PT + "create_topology_dataframe")
    exprs = []
    for c in calls(f.node):
        if call_name(c).split(".")[-1] == "insert" and len(c.args) >= 3 and isinstance(c.args[1], ast.Constant) and c.args[1].value == "topology_id":
            exprs.append(c.args[2])
        if call_name(c).split(".")[-1] == "assign" and kwarg(c, "topology_id") is not None:
            exprs.append(kwarg(c, "topology_id"))
    for n in ast.walk(f.node):
        if isinstance(n, ast.Assign):
            for t in n.targets:
                if isinstance(t, ast.Subscript) and isinstance(t.slice, ast.Constant) and t.slice.value == "topology_id":
                    exprs.append(n.value)
    if len(exprs) != 1:
        raise AnalysisError("create_topology_dataframe: cannot locate the expression of the 'topology_id' column")
    e = exprs[0]
    if isinstance(e, ast.Name):
        defs = [s.value for s in ast.walk(f.node) if isinstance(s, ast.Assign) and any(isinstance(t, ast.Name) and t.id == e.id for t in s.targets)]
        if len(defs) == 1:
            e = defs[0]
    if isinstance(e, ast.BinOp) and isinstance(e.op, ast.Add) and isinstance(e.left, ast.Constant) and isinstance(e.left.value, str):
        strs = [n for n in ast.walk(e) if isinstance(n, ast.Constant) and isinstance(n.value, str)]
        if len(strs) == 1:
            return e.left.value
    if isinstance(e, ast.ListComp) and len(e.generators) == 1 and not e.generators[0].ifs and isinstance(e.generators[0].target, ast.Name):
        # [TEMPLATE.format(rank) for rank in <index>]: the prefix is what the template puts before its only field
        c = e.elt
        if isinstance(c, ast.Call) and isinstance(c.func, ast.Attribute) and c.func.attr == "format" and len(c.args) == 1 and not c.keywords and isinstance(c.args[0], ast.Name) and c.args[0].id == e.generators[0].target.id:
            t = c.func.value
            if isinstance(t, ast.Name):
                t = f.module.constants.get(t.id) if hasattr(f.module, "constants") else None
                if t is None:
                    t = _module_literal(f.module, c.func.value.id)
            if isinstance(t, ast.Constant) and isinstance(t.value, str) and t.value.endswith("{}") and t.value.count("{") == 1:
                return t.value[:-2]
    raise AnalysisError("create_topology_dataframe: the topology id is not `<string literal> + <rank>` (%s)" % u(e)[:120])


def _regex_rank(pattern):
    """(literal prefix, None | most digits group 1 can hold) of a pattern `<literal>(<digits>)[$]`, by its regex AST."""
    import re._parser as rp
    from re._constants import LITERAL, SUBPATTERN, MAX_REPEAT, MAXREPEAT, IN, CATEGORY, CATEGORY_DIGIT, RANGE, AT

    try:
        items = list(rp.parse(pattern))
    except Exception as ex:
        raise AnalysisError("the topology id pattern %r does not parse: %s" % (pattern, ex))
    prefix = ""
    while items and items[0][0] is LITERAL:
        prefix += chr(items.pop(0)[1])
    while items and items[-1][0] is AT:
        items.pop()
    if len(items) != 1 or items[0][0] is not SUBPATTERN or items[0][1][0] != 1 or len(items[0][1][3]) != 1:
        raise AnalysisError("the topology id pattern %r is not `<literal>(<digits>)`" % pattern)
    body = items[0][1][3][0]

    def digit(t):
        return t[0] is IN and len(t[1]) == 1 and (t[1][0] == (CATEGORY, CATEGORY_DIGIT) or t[1][0] == (RANGE, (48, 57)))

    if digit(body):
        return prefix, 1
    if body[0] is MAX_REPEAT and len(body[1][2]) == 1 and digit(body[1][2][0]) and body[1][0] <= 1:
        return prefix, (None if body[1][1] is MAXREPEAT else body[1][1])
    raise AnalysisError("the topology id pattern %r: group 1 is not a run of digits" % pattern)


def _module_literal(module, name):
    """The literal a module-level name is bound to by its only assignment (None otherwise)."""
    defs = [s.value for s in module.tree.body if isinstance(s, ast.Assign) and any(isinstance(t, ast.Name) and t.id == name for t in s.targets)]
    stores = [n for n in ast.walk(module.tree) if isinstance(n, ast.Name) and n.id == name and isinstance(n.ctx, ast.Store)]
    return defs[0] if len(defs) == 1 and len(stores) == 1 else None


def rule_A3(ctx):
    prog = ctx.prog
    ctx.rule("A3", "ranking: frame sorted by log_p_joint_max descending with the index reset before ids t_<rank> are derived from it; frequency mode reads (iter, chain_num) of row 0 of the frame sorted by count descending", 5)
    f = prog.fn(PT + "create_topology_dataframe")
    ex = extract(prog, f, no_inline=NI)
    F, V, node = _id_assignment(ex, f)
    info = _sort_info(vkey(F))
    where = f.where(node)
    if info is None:
        ctx.fail("A3", "create_topology_dataframe: ids are assigned to the frame sorted by score", where, "the frame that receives the 'topology_id' column (%s) is not the result of sort_values: ids are not ranks" % show(F)[:200], construct=f.qualname, stmt="ids on sorted frame")
        ctx.fail("A3", "create_topology_dataframe: index reset before ids are derived", where, "no sorted frame to derive ranks from", construct=f.qualname, stmt="index reset")
    else:
        ok = info["by"] == ["log_p_joint_max"] and info["ascending"] is False
        ctx.check(ok, "A3", "create_topology_dataframe: ids are assigned to the frame sorted by score", where, "the frame that receives the ids is sorted by %s ascending=%s; rank 0 must be the largest log_p_joint_max" % (info["by"], info["ascending"]), construct=f.qualname, stmt="ids on sorted frame", detail="sort_values(by='log_p_joint_max', ascending=False)")
        idx_atoms = [a for a in atoms_of(V, tag="attr") if a[2] == "index"]
        if idx_atoms:
            same_frame = all(_base_key(a[1]) == _base_key(vkey(F)) for a in idx_atoms)
            why = "ids are derived from the index of %s, not of the sorted frame they are attached to" % ", ".join(show_key(a[1])[:120] for a in idx_atoms) if not same_frame else "the sorted frame keeps its pre-sort index (neither ignore_index=True nor reset_index(drop=True)): `.index` is not the rank"
            ctx.check(same_frame and info["reset"], "A3", "create_topology_dataframe: index reset before ids are derived", where, why, construct=f.qualname, stmt="index reset")
        elif atoms_of(V, tag="call", name="range") or atoms_of(V, tag="call", name="len"):
            ctx.ok("A3", "create_topology_dataframe: index reset before ids are derived", where, "ids enumerate the rows positionally")
        else:
            raise AnalysisError("create_topology_dataframe: cannot tell how the rank in the id is derived (%s)" % show(V)[:160])
    ctx.check(ex.result is not None and _base_key(vkey(ex.result)) == _base_key(vkey(F)), "A3", "create_topology_dataframe returns the ranked frame", f.where(), "the returned frame (%s) is not the one that was sorted and given ids" % show(ex.result)[:160], construct=f.qualname, stmt="return ranked frame")
    ctx.analysed(f)
    # ---- frequency arm of the MAP command
    m = prog.fn(PT + "write_map_results")
    if _loops_and_exits(prog, m)[1]:
        # A1 has reported the early exit as a violation; the interpreter cannot unroll such a loop
        ctx.note("write_map_results has an early exit inside a loop (violation reported by A1); its frequency arm is not analysed")
        _lower_min(ctx, "A3")
        return
    exm = extract(prog, m, no_inline=NI)
    _, freq = _map_arms(ctx, m, exm)
    Rk, Ck, Ik = _restored_pointer(freq.args[0], "write_map_results (frequency)")
    rc, ri = _row_read(Ck), _row_read(Ik)
    for nm, k, r in (("chain", Ck, rc), ("entry", Ik, ri)):
        if r is None and not [a for a in atoms_of(k, tag="call") if a[1].split(".")[-1] == "create_topology_dataframe"]:
            ctx.fail("A3", "write_map_results (frequency): chain and entry are columns chain_num / iter of row 0 of one frame", m.where(freq.node), "the %s index of the restored entry is %s, which is not read from the topology table" % (nm, show_key(k)[:160]), construct=m.qualname, stmt="frequency pointer")
            _lower_min(ctx, "A3")
            ctx.analysed(m)
            return
    if rc is None or ri is None:
        raise AnalysisError("write_map_results (frequency): chain / entry pointers are not reads of one row of a frame (%s ; %s)" % (show_key(Ck)[:120], show_key(Ik)[:120]))
    for nm, r in (("chain", rc), ("entry", ri)):
        if isinstance(r[2], tuple):
            inf = _sort_info(r[0])
            if inf is not None and not inf["reset"]:
                ctx.fail("A3", "write_map_results (frequency): chain and entry are columns chain_num / iter of row 0 of one frame", m.where(freq.node), "the %s index is read with .loc[%s] from a frame that was sorted without resetting its index: label %s names the row that was first *before* the sort (the best-scoring topology), not the most frequent one" % (nm, r[2][1], r[2][1]), construct=m.qualname, stmt="frequency pointer")
                _lower_min(ctx, "A3")
                ctx.analysed(m)
                return
    rc = (rc[0], rc[1], rc[2][1] if isinstance(rc[2], tuple) else rc[2])
    ri = (ri[0], ri[1], ri[2][1] if isinstance(ri[2], tuple) else ri[2])
    ok = rc[1] == "chain_num" and ri[1] == "iter" and rc[0] == ri[0] and rc[2] == 0 and ri[2] == 0
    ctx.check(ok, "A3", "write_map_results (frequency): chain and entry are columns chain_num / iter of row 0 of one frame", m.where(freq.node), "chain is read from column %r (row %s) and entry from column %r (row %s) of %s" % (rc[1], rc[2], ri[1], ri[2], "the same frame" if rc[0] == ri[0] else "different frames"), construct=m.qualname, stmt="frequency pointer")
    info = _sort_info(ri[0])
    ok = info is not None and info["by"] == ["count"] and info["ascending"] is False
    src_ok = False
    if info is not None:
        made = [a for a in atoms_of(info["recv"], tag="call") if a[1].split(".")[-1] == "create_topology_dataframe"]
        cnt = [a for a in atoms_of(info["recv"], tag="call") if a[1].split(".")[-1] == "create_topology_dict_from_trace"]
        src_ok = len(made) >= 1 and len(cnt) >= 1 and all(a[2] and a[2][0] == Rk for a in cnt)
    why = "row 0 is not the most frequent topology of this trace: the frame is %s" % ("not sorted" if info is None else "sorted by %s ascending=%s%s" % (info["by"], info["ascending"], "" if src_ok else " and is not built from the topology counts of the same trace"))
    ctx.check(ok and src_ok, "A3", "write_map_results (frequency): that frame is the topology table of the same trace sorted by count, descending", m.where(freq.node), why, construct=m.qualname, stmt="frequency sort")
    ctx.analysed(m)


# ----------------------------------------------------------------------------- A4
def rule_A4(ctx):
    prog = ctx.prog
    ctx.rule("A4", "archive: a topology is skipped iff rank >= top_trees; rank parsed with the id's prefix length; row matched on a key (iter, chain_num) with equal columns on both sides; table / tree / values belong to one dictionary item; only the CLI default sentinel widens top_trees to infinity", 7)
    f = prog.fn(PT + "create_topologies_archive")
    loops = [n for n in ast.walk(f.node) if isinstance(n, (ast.For, ast.While))]
    early = [n for l in loops for n in ast.walk(l) if isinstance(n, (ast.Break, ast.Return))]
    if early:
        ctx.fail("A4", "create_topologies_archive visits every topology", f.where(early[0]), "`%s` leaves the loop over the (unordered) topology dictionary: topologies ranked above top_trees that come later are never archived" % u(early[0]), construct=f.qualname, stmt="early exit in archive loop")
        _lower_min(ctx, "A4")
    else:
        ctx.ok("A4", "create_topologies_archive visits every topology", f.where(), "no break/return inside the archive loop")
        _archive_body(ctx, f)
    _archive_plumbing(ctx)


def _archive_body(ctx, f):
    prog = ctx.prog
    ex = extract(prog, f, no_inline=NI)
    gct = prog.fn(PT + "get_clone_table")
    ptop = _param_key(f, "top_trees")
    pdf = _param_key(f, "topology_df")
    pdict = _param_key(f, "topologies_dict")
    work = [e for e in ex.events if e.name.split(".")[-1] in ("get_clone_table", "print_string_to_file") or e.name in (".add", ".to_csv")]
    tables = _events(ex, "get_clone_table")
    if not tables or not [e for e in work if e.name == ".add"]:
        raise AnalysisError("create_topologies_archive: no get_clone_table / archive.add call found")
    # (a) the skip guard
    bad, ranks = None, []
    for e in work:
        gs = [g for g in e.guards]
        if len(gs) != 1 or gs[0][0] != "cmp":
            bad = (e, "is guarded by %s" % ([show_key(g) for g in gs] or "nothing"))
            break
        g = gs[0]
        if not (g[1] == "<" and g[3] == ptop):
            bad = (e, "runs iff %s" % show_key(g))
            break
        ranks.append(g[2])
    why = "archive work `%s` %s; a topology must be archived iff its rank < top_trees (skipped iff rank >= top_trees)" % (bad[0].name, bad[1]) if bad else ""
    ctx.check(bad is None, "A4", "create_topologies_archive: a topology is written iff rank < top_trees", f.where(bad[0].node) if bad else f.where(), why, construct=f.qualname, stmt="skip guard")
    if bad is not None:
        _lower_min(ctx, "A4")
        ctx.analysed(f)
        return
    # (b) rank = int(id[len(prefix):]) with id = row['topology_id'] of row 0
    prefix = _id_prefix(prog)
    rk = _atom(ranks[0])
    idk = start = None
    if rk is not None and rk[0] == "call" and rk[1] == "int" and len(rk[2]) == 1:
        p = _sub_parts(rk[2][0])
        sl = _atom(p[1]) if p else None
        if sl is not None and sl[0] == "slice" and _const_of_key(sl[2]) is None and _const_of_key(sl[3]) is None:
            idk, start = p[0], _const_of_key(sl[1])
    if idk is None and rk is not None and rk[0] == "call" and rk[1] == "int" and len(rk[2]) == 1:
        # rank = int(PATTERN.match(id).group(1)) with PATTERN a module-level re.compile(<literal>)
        gm = _atom(rk[2][0])
        mm = _atom(gm[2]) if gm is not None and gm[0] == "mcall" and gm[1] == "group" and len(gm[3]) == 1 and _const_of_key(gm[3][0]) == 1 else None
        pat = _atom(mm[2]) if mm is not None and mm[0] == "mcall" and mm[1] in ("match", "fullmatch") and len(mm[3]) == 1 else None
        if pat is not None and pat[0] == "g":
            lit = _module_literal(f.module, pat[1].split(".")[-1])
            if isinstance(lit, ast.Call) and (f.module.imports.get(call_name(lit).split(".")[0], "") + "." + call_name(lit).split(".", 1)[-1]) in ("re.compile", "re.compile.compile") and len(lit.args) == 1 and isinstance(lit.args[0], ast.Constant) and isinstance(lit.args[0].value, str):
                got_prefix, digits = _regex_rank(lit.args[0].value)
                idk = mm[3][0]
                r0 = _row_read(idk)
                ok = got_prefix == prefix and digits is None and r0 is not None and r0[1] == "topology_id" and r0[2] == 0
                why = "rank = %s with pattern %r: ids are %r + rank; %s" % (show_key(ranks[0])[:160], lit.args[0].value, prefix, "the pattern expects the prefix %r" % got_prefix if got_prefix != prefix else "the group holds at most %s digit(s) of the rank" % digits if digits is not None else "the id is not read from column 'topology_id' of the matched row")
                ctx.check(ok, "A4", "create_topologies_archive: rank is parsed from the matched row's topology_id by dropping the id prefix", f.where(), why, construct=f.qualname, stmt="rank parse")
                start = "regex"
    if idk is None:
        raise AnalysisError("create_topologies_archive: the rank compared with top_trees is %s, not int(<id>[k:]) (unrecognised shape)" % show_key(ranks[0])[:160])
    r0 = _row_read(idk)
    if start != "regex":
        ok = start == len(prefix) and r0 is not None and r0[1] == "topology_id" and r0[2] == 0
        ctx.check(ok, "A4", "create_topologies_archive: rank is parsed from the matched row's topology_id by dropping the id prefix", f.where(), "rank = %s: ids are %r + rank (prefix length %d) read from column 'topology_id'" % (show_key(ranks[0])[:200], prefix, len(prefix)), construct=f.qualname, stmt="rank parse")
    # (c) the matched row
    rowk = r0[0] if r0 else None
    loc = _sub_parts(rowk) if rowk else None
    la = _atom(loc[0]) if loc else None
    if not loc or not ((la is not None and la[0] == "attr" and la[2] == "loc" and _base_key(la[1]) == pdf) or _base_key(loc[0]) == pdf):
        raise AnalysisError("create_topologies_archive: the row is not selected as topology_df.loc[<mask>] / topology_df[<mask>] (%s)" % (show_key(rowk)[:160] if rowk else "?"))
    cmps = [a for a in atoms_of(loc[1], tag="cmp") if a[1] == "=="]
    if not cmps:
        raise AnalysisError("create_topologies_archive: the row mask contains no equality tests")
    cols, vals, mism = set(), set(), []
    for a in cmps:
        sides = [_sub_parts(a[2]), _sub_parts(a[3])]
        if not all(sides):
            raise AnalysisError("create_topologies_archive: row mask compares %s (unrecognised shape)" % show_key(a)[:160])
        dfside = [s for s in sides if _base_key(s[0]) == pdf]
        other = [s for s in sides if _base_key(s[0]) != pdf]
        if len(dfside) != 1 or len(other) != 1:
            raise AnalysisError("create_topologies_archive: row mask does not compare a topology_df column with a record field (%s)" % show_key(a)[:160])
        c1, c2 = _str_of_key(dfside[0][1]), _str_of_key(other[0][1])
        if c1 != c2:
            mism.append((c1, c2))
        cols.add(c1)
        vals.add(other[0][0])
    ok = not mism and {"iter", "chain_num"} <= cols and len(vals) == 1
    why = "the row of a topology is selected by %s%s: (iter, chain_num) is the only key of the ranking frame (Newick strings and counts repeat), and each column must be compared with the same field of the record" % (sorted(c for c in cols if c), "; mismatched " + str(mism) if mism else "")
    ctx.check(ok, "A4", "create_topologies_archive: row matched on (iter, chain_num) with equal column / field names", f.where(), why, construct=f.qualname, stmt="row match")
    # (d) table, tree and record come from one dictionary item
    ok, why = True, ""
    for e in tables:
        t = _atom(vkey(_bind(prog, e, gct).get("tree")))
        if t is None or t[0] != "elemk" or t[1] != pdict:
            ok, why = False, "the tree handed to get_clone_table is %s, not a key of topologies_dict" % show(_bind(prog, e, gct).get("tree"))[:160]
            break
        want = ("elemv", t[1], t[2])
        recs = set(atoms_of(e.guards[0], tag="elemv"))
        if recs != {want}:
            ok, why = False, "the rank that admits tree %s is computed from the record of another item (%s)" % (show_key(vkey(_bind(prog, e, gct).get("tree"))), ", ".join(show_key(x) for x in recs))
            break
    ctx.check(ok, "A4", "create_topologies_archive: the rank that admits a tree is computed from that tree's own record", f.where(), why, construct=f.qualname, stmt="tree / record pairing")
    ctx.analysed(f)


def _archive_plumbing(ctx):
    prog = ctx.prog
    w = prog.fn(PT + "write_topology_report")
    arch = prog.fn(PT + "create_topologies_archive")
    ex = extract(prog, w, no_inline=NI)
    evs = _events(ex, "create_topologies_archive")
    if not evs:
        raise AnalysisError("write_topology_report never calls create_topologies_archive")
    ptop = _param_key(w, "top_trees")
    clif, opt = _cli_option(prog, "cli.topology_report", "--top-trees")
    from ..astutil import cli_forwards

    okf, whyf = cli_forwards(clif.node, "--top-trees", w.name, w.params, "top_trees")
    ctx.check(okf, "A4", "cli.topology_report hands --top-trees to write_topology_report(top_trees=…)", clif.where(), "the command-line bound does not reach write_topology_report (%s)" % whyf, construct=clif.qualname, stmt="--top-trees forwarded")
    dflt = kwarg(opt, "default")
    if dflt is None:
        raise AnalysisError("cli.topology_report --top-trees has no default")
    if isinstance(dflt, ast.Name):
        sentinel = Poly.atom(("g", clif.module.imports.get(dflt.id, dflt.id))).key()
    elif isinstance(dflt, ast.Attribute):
        root = u(dflt).split(".")[0]
        sentinel = Poly.atom(("g", clif.module.imports.get(root, root) + u(dflt)[len(root):])).key()
    elif isinstance(dflt, ast.Constant) and isinstance(dflt.value, (int, float)) and not isinstance(dflt.value, bool):
        sentinel = Poly.const(dflt.value).key()
    else:
        raise AnalysisError("cli.topology_report --top-trees default %s is not a symbol or a number" % u(dflt))
    ok1, why1, ok2, why2 = True, "", True, ""
    report_frames = {_base_key(vkey(e.recv)) for e in ex.calls(".to_csv")}
    for e in evs:
        b = _bind(prog, e, arch)
        for p in ("topology_df", "results", "top_trees", "topologies_dict"):
            if p not in b:
                raise AnalysisError("write_topology_report: create_topologies_archive called without %s" % p)
        # frames: ranking built from the same counts of the same trace
        dk, rk = vkey(b["topologies_dict"]), vkey(b["results"])
        da = _atom(dk)
        made = [a for a in atoms_of(b["topology_df"], tag="call") if a[1].split(".")[-1] == "create_topology_dataframe"]
        if not (da is not None and da[0] == "call" and da[1].split(".")[-1] == "create_topology_dict_from_trace" and da[2] and da[2][0] == rk):
            ok1, why1 = False, "topologies_dict (%s) is not create_topology_dict_from_trace(<the results handed over>)" % show(b["topologies_dict"])[:160]
        elif not made or not all(contains_key(a, dk) for a in made):
            ok1, why1 = False, "topology_df (%s) is not the ranking of the dictionary that is archived" % show(b["topology_df"])[:160]
        elif report_frames and _base_key(vkey(b["topology_df"])) not in report_frames:
            ok1, why1 = False, "the ranking used for the archive is not the frame written as the report"
        # top_trees: the parameter, or infinity under `top_trees == <CLI default>`
        t = b["top_trees"]
        if vkey(t) == ptop:
            continue
        a = _atom(vkey(t))
        if a is not None and a[0] == "const" and a[1] == "inf":
            sent = [g for g in e.guards if g[0] == "cmp" and g[1] == "==" and ptop in (g[2], g[3])]
            others = [(g[3] if g[2] == ptop else g[2]) for g in sent]
            if not others:
                ok2, why2 = False, "top_trees is replaced by infinity without a test on the requested value"
            elif not any(o == sentinel for o in others):
                ok2, why2 = False, "top_trees is widened to infinity when it equals %s, but the CLI's `not given` default is %s: an explicit request would archive every topology" % (", ".join(show_key(o) for o in others), u(dflt))
        else:
            ok2, why2 = False, "create_topologies_archive receives top_trees = %s, neither the requested value nor infinity for the default sentinel" % show(t)[:160]
    ctx.check(ok1, "A4", "write_topology_report: the archive is built from the ranking and the counts of the same trace as the report", w.where(evs[0].node), why1, construct=w.qualname, stmt="archive inputs")
    ctx.check(ok2, "A4", "write_topology_report: top_trees reaches the archive unchanged, or as infinity only for the CLI default sentinel", w.where(evs[0].node), why2, construct=w.qualname, stmt="top_trees plumbing", detail="CLI default %s" % u(dflt))
    # the default of the library entry point itself archives everything
    ctx.analysed(w, clif)


# ----------------------------------------------------------------------------- A5
RESULTS, RESULT, TRACE, ENTRY = "results", "result", "trace", "entry"


class _Kinds:
    """Flow-insensitive kind inference for the objects of a trace file inside one module:
    results (chain -> result) / result / trace (list) / entry.  Records every constant key read or
    written on a result or an entry; a computed key is an ANALYSIS-ERROR."""

    def __init__(self, prog, module, seeds):
        self.prog = prog
        self.module = module
        self.fns = [fi for fi in prog.functions.values() if fi.module is module and fi.parent is None and fi.cls is None]
        self.env = {fi.qualname: dict(seeds.get(fi.name, {})) for fi in self.fns}
        self.reads = {}   # (kind, key) -> [(fi, node, required)]
        self.writes = {}  # (kind, key) -> [(fi, node, conditional)]
        changed = True
        rounds = 0
        while changed:
            rounds += 1
            if rounds > 20:
                raise AnalysisError("kind inference does not converge in %s" % module.name)
            changed = False
            for fi in self.fns:
                if self._pass(fi):
                    changed = True
        for fi in self.fns:
            self._collect(fi)

    def _set(self, fi, name, kind):
        if kind is None:
            return False
        env = self.env[fi.qualname]
        if name in env:
            if env[name] != kind:
                raise AnalysisError("%s: name %s holds both a %s and a %s of the trace file" % (fi.qualname, name, env[name], kind))
            return False
        env[name] = kind
        return True

    def kind(self, fi, e):
        env = self.env[fi.qualname]
        if isinstance(e, ast.Name):
            return env.get(e.id)
        if isinstance(e, ast.Call):
            nm = call_name(e)
            if nm.split(".")[-1] == "load" and nm.split(".")[0] in ("pickle", "load"):
                return RESULTS
            try:
                from . import C20 as _io20

                if _io20.loader_helper(self.prog, e, fi.module) is not None:
                    return RESULTS  # a helper that only unpickles the trace and returns it
            except AnalysisError:
                pass
            if isinstance(e.func, ast.Attribute):
                rk = self.kind(fi, e.func.value)
                if rk == RESULTS and e.func.attr in ("items", "values") and not e.args:
                    return ("iter-" + e.func.attr, RESULT)
                if rk == RESULTS and e.func.attr == "get" and e.args:
                    return RESULT
                if rk == RESULT and e.func.attr == "get" and e.args and isinstance(e.args[0], ast.Constant) and e.args[0].value == "trace":
                    return TRACE
                if rk in (RESULT, ENTRY, RESULTS, TRACE) and e.func.attr == "copy":
                    return rk
            if nm == "enumerate" and e.args and self.kind(fi, e.args[0]) == TRACE:
                return ("iter-enumerate", ENTRY)
            if nm in ("reversed", "list", "sorted", "tuple", "iter") and e.args and self.kind(fi, e.args[0]) == TRACE:
                return TRACE
            return None
        if isinstance(e, ast.Subscript):
            bk = self.kind(fi, e.value)
            if bk == RESULTS:
                return RESULT
            if bk == RESULT:
                if isinstance(e.slice, ast.Constant) and e.slice.value == "trace":
                    return TRACE
                return None
            if bk == TRACE:
                return TRACE if isinstance(e.slice, ast.Slice) else ENTRY
            return None
        return None

    def _bind_target(self, fi, target, itk):
        """Bind a loop / comprehension target to the element kind of an iterable kind."""
        ch = False
        if itk == TRACE:
            if isinstance(target, ast.Name):
                ch |= self._set(fi, target.id, ENTRY)
        elif itk == RESULTS:
            pass  # iterating the dictionary yields chain keys
        elif isinstance(itk, tuple):
            how, ek = itk
            if how == "iter-values":
                if isinstance(target, ast.Name):
                    ch |= self._set(fi, target.id, ek)
            elif isinstance(target, (ast.Tuple, ast.List)) and len(target.elts) == 2 and isinstance(target.elts[1], ast.Name):
                ch |= self._set(fi, target.elts[1].id, ek)
            elif isinstance(target, ast.Name):
                raise AnalysisError("%s: %s is bound to a whole (key, value) pair of the trace file (unrecognised shape)" % (fi.qualname, target.id))
        return ch

    def _pass(self, fi):
        ch = False
        for n in ast.walk(fi.node):
            if isinstance(n, ast.Assign) and len(n.targets) == 1 and isinstance(n.targets[0], ast.Name):
                k = self.kind(fi, n.value)
                if isinstance(k, str):
                    ch |= self._set(fi, n.targets[0].id, k)
            elif isinstance(n, ast.For):
                ch |= self._bind_target(fi, n.target, self.kind(fi, n.iter))
            elif isinstance(n, ast.comprehension):
                ch |= self._bind_target(fi, n.target, self.kind(fi, n.iter))
            elif isinstance(n, ast.Call) and isinstance(n.func, ast.Name):
                callee = self.prog.resolve_function(n.func.id, self.module)
                if callee is not None and callee.module is self.module and callee.qualname in self.env:
                    params = callee.params
                    for i, a in enumerate(n.args):
                        k = self.kind(fi, a)
                        if isinstance(k, str) and i < len(params):
                            ch |= self._set(callee, params[i], k)
                    for kw in n.keywords:
                        k = self.kind(fi, kw.value) if kw.arg else None
                        if isinstance(k, str) and kw.arg in params:
                            ch |= self._set(callee, kw.arg, k)
        return ch

    def _collect(self, fi):
        from ..astutil import parents

        pmap = parents(fi.node)
        for n in ast.walk(fi.node):
            if isinstance(n, ast.Subscript):
                bk = self.kind(fi, n.value)
                if bk in (RESULT, ENTRY):
                    if not (isinstance(n.slice, ast.Constant) and isinstance(n.slice.value, str)):
                        raise AnalysisError("%s: a %s of the trace file is subscripted with the computed key %s" % (fi.qualname, bk, u(n.slice)))
                    if isinstance(n.ctx, ast.Store):
                        cond = False
                        cur = pmap.get(id(n))
                        while cur is not None and cur is not fi.node:
                            if isinstance(cur, (ast.If, ast.IfExp, ast.Try, ast.While)):
                                cond = True
                            cur = pmap.get(id(cur))
                        self.writes.setdefault((bk, n.slice.value), []).append((fi, n, cond))
                    elif isinstance(n.ctx, ast.Load):
                        self.reads.setdefault((bk, n.slice.value), []).append((fi, n, True))
            elif isinstance(n, ast.Call) and isinstance(n.func, ast.Attribute) and n.func.attr in ("get", "pop", "setdefault"):
                bk = self.kind(fi, n.func.value)
                if bk in (RESULT, ENTRY):
                    if not (n.args and isinstance(n.args[0], ast.Constant) and isinstance(n.args[0].value, str)):
                        raise AnalysisError("%s: %s.%s with a computed key" % (fi.qualname, bk, n.func.attr))
                    required = n.func.attr == "pop" and len(n.args) < 2
                    self.reads.setdefault((bk, n.args[0].value), []).append((fi, n, required))


_PROG = None  # set by _written_keys: lets a record be built by a helper function


def _dict_display_keys(fi, e):
    """Constant keys of a dict display / dict(k=v) call, resolving one local name."""
    if isinstance(e, ast.Name):
        defs = [s for s in ast.walk(fi.node) if isinstance(s, ast.Assign) and any(isinstance(t, ast.Name) and t.id == e.id for t in s.targets)]
        if len(defs) != 1:
            raise AnalysisError("%s: %s is not bound exactly once to a dict display" % (fi.qualname, e.id))
        keys = _dict_display_keys(fi, defs[0].value)
        for s in ast.walk(fi.node):
            if isinstance(s, ast.Assign):
                for t in s.targets:
                    if isinstance(t, ast.Subscript) and isinstance(t.value, ast.Name) and t.value.id == e.id:
                        if not (isinstance(t.slice, ast.Constant) and isinstance(t.slice.value, str)):
                            raise AnalysisError("%s: %s[...] stored with a computed key" % (fi.qualname, e.id))
                        keys.add(t.slice.value)
        return keys
    if isinstance(e, ast.Dict):
        if not all(isinstance(k, ast.Constant) and isinstance(k.value, str) for k in e.keys):
            raise AnalysisError("%s: dict display with a computed or unpacked key" % fi.qualname)
        return {k.value for k in e.keys}
    if isinstance(e, ast.Call) and isinstance(e.func, ast.Name) and e.func.id == "dict" and not e.args and all(k.arg for k in e.keywords):
        return {k.arg for k in e.keywords}
    if isinstance(e, ast.Call) and isinstance(e.func, ast.Name) and _PROG is not None:
        # a helper of the same module whose every return is a dict display (or a name bound to one)
        g = _PROG.resolve_function(e.func.id, fi.module)
        if g is not None and g is not fi:
            rets = [r for r in ast.walk(g.node) if isinstance(r, ast.Return) and r.value is not None]
            if rets:
                keys = None
                for r in rets:
                    ks = _dict_display_keys(g, r.value)
                    keys = ks if keys is None else (keys & ks)
                return keys
    raise AnalysisError("%s: %s is not a dict display" % (fi.qualname, u(e)[:80]))


def _written_keys(ctx):
    """(entry keys, result keys, conditional result keys, notes) from run.py and create_main_run_output."""
    global _PROG
    prog = ctx.prog
    _PROG = prog
    app = prog.fn("run.append_to_trace")
    aps = [c for c in calls(app.node) if isinstance(c.func, ast.Attribute) and c.func.attr == "append" and len(c.args) == 1]
    if len(aps) != 1 or not isinstance(aps[0].func.value, ast.Name) or aps[0].func.value.id not in app.params:
        raise AnalysisError("run.append_to_trace: expected exactly one <trace parameter>.append(<entry>)")
    tparam = aps[0].func.value.id
    entry_keys = _dict_display_keys(app, aps[0].args[0])
    main = prog.fn("run._run_main_sampler")
    rets = [n for n in ast.walk(main.node) if isinstance(n, ast.Return) and n.value is not None]
    if len(rets) != 1:
        raise AnalysisError("run._run_main_sampler: expected exactly one return of the chain result")
    result_keys = _dict_display_keys(main, rets[0].value)
    # the list append_to_trace appends to is the one stored under 'trace'
    rv = rets[0].value
    if isinstance(rv, ast.Name):
        rv = [s.value for s in ast.walk(main.node) if isinstance(s, ast.Assign) and any(isinstance(t, ast.Name) and t.id == rets[0].value.id for t in s.targets)][0]
    trace_expr = None
    if isinstance(rv, ast.Dict):
        for k, v in zip(rv.keys, rv.values):
            if k.value == "trace":
                trace_expr = v
    elif isinstance(rv, ast.Call):
        trace_expr = kwarg(rv, "trace")
    plumbing = False
    if isinstance(trace_expr, ast.Name):
        pos = app.params.index(tparam)
        for c in calls(main.node, name="append_to_trace"):
            a = c.args[pos] if pos < len(c.args) else kwarg(c, tparam)
            if isinstance(a, ast.Name) and a.id == trace_expr.id:
                plumbing = True
    ctx.analysed(app, main)
    return entry_keys, result_keys, plumbing, (app, main, rets[0])


def rule_A5(ctx):
    prog = ctx.prog
    ctx.rule("A5", "every key a summary reads on a trace entry or a chain result is written by the run (entries: run.append_to_trace; results: run._run_main_sampler, create_main_run_output)", 7)
    entry_keys, result_keys, plumbing, (app, main, ret) = _written_keys(ctx)
    ctx.check(plumbing, "A5", "_run_main_sampler stores under 'trace' the list that append_to_trace appends to", main.where(ret), "the list stored under 'trace' is not the one handed to append_to_trace", construct=main.qualname, stmt="trace plumbing")
    mod = prog.module("process_trace.process_trace")
    out = prog.fn(PT + "create_main_run_output")
    dumps = [c for c in calls(out.node) if call_name(c).split(".")[-1] == "dump" and c.args and isinstance(c.args[0], ast.Name) and c.args[0].id in out.params]
    if len(dumps) != 1:
        raise AnalysisError("create_main_run_output: expected one pickle.dump(<results parameter>, fh)")
    kinds = _Kinds(prog, mod, {out.name: {dumps[0].args[0].id: RESULTS}})
    cond_result = set()
    for (k, key), ws in kinds.writes.items():
        if k == RESULT:
            if all(c for _, _, c in ws):
                cond_result.add(key)
            else:
                result_keys = result_keys | {key}
        else:
            entry_keys = entry_keys | {key} if not all(c for _, _, c in ws) else entry_keys
    ctx.note("entry keys written: %s; result keys written: %s; conditionally: %s" % (sorted(entry_keys), sorted(result_keys), sorted(cond_result)))
    if not kinds.reads:
        raise AnalysisError("no read of a trace entry / chain result found in process_trace.py")
    for (k, key) in sorted(kinds.reads):
        sites = kinds.reads[(k, key)]
        fi, node, _ = sites[0]
        required = any(r for _, _, r in sites)
        written = entry_keys if k == ENTRY else result_keys
        maybe = set() if k == ENTRY else cond_result
        who = "run.append_to_trace" if k == ENTRY else "run._run_main_sampler / create_main_run_output"
        label = "%s key %r read by %s" % (k, key, ", ".join(sorted({s[0].name for s in sites})))
        if key in written:
            ctx.ok("A5", label, fi.where(node), "written by " + who)
        elif key in maybe and not required:
            ctx.ok("A5", label, fi.where(node), "written conditionally, read with a default")
        elif key in maybe:
            rf, rn, _ = [s for s in sites if s[2]][0]
            ctx.fail("A5", label, rf.where(rn), "%s subscripts %s[%r], which %s writes only conditionally: KeyError on a run without it" % (rf.name, k, key, who), construct=rf.qualname, stmt="%s[%r]" % (k, key))
        else:
            ctx.fail("A5", label, fi.where(node), "%s reads %s key %r, but %s writes only %s%s" % (fi.name, k, key, who, sorted(written), (" (+ optionally %s)" % sorted(maybe)) if maybe else ""), construct=fi.qualname, stmt="%s[%r]" % (k, key))
        ctx.analysed(*[s[0] for s in sites])
    ctx.analysed(out)


_A6_SPEC = """
def write_topology_report(in_file, out_file, topologies_archive=None, top_trees=float("inf")):
    if top_trees == maxsize:
        top_trees = float("inf")
    with gzip.GzipFile(in_file, "rb") as fh:
        results = pickle.load(fh)
    topologies_dict = create_topology_dict_from_trace(results)
    topology_df = create_topology_dataframe(topologies_dict.values())
    topology_df.to_csv(out_file, index=False, sep="\\t")
    if topologies_archive is not None:
        create_topologies_archive(topology_df, results, top_trees, topologies_dict, topologies_archive)
"""


def rule_A6(ctx):
    """The report a user reads is the ranked frame itself: written to out_file, built from the unique-topology
    dictionary of the loaded trace; the archive (when asked for) is cut from the same frame and dictionary."""
    from ..formula import same_effects, spec

    prog = ctx.prog
    ctx.rule("A6", "write_topology_report writes the ranked frame (create_topology_dataframe over the unique topologies of the loaded trace) to out_file on every path, and hands the same frame, trace and dictionary to the archive writer when an archive is requested", 1)
    f = prog.fn(PT + "write_topology_report")
    NI6 = ["create_topology_dict_from_trace", "create_topology_dataframe", "create_topologies_archive"]
    ex = extract(prog, f, no_inline=NI6)
    sp = spec(prog, _A6_SPEC, f, no_inline=NI6)
    keep = {".to_csv", "create_topologies_archive"}

    def effects(evs):
        out = []
        for e in evs:
            if e.name in keep:
                if e.name == ".to_csv":
                    e.kwargs = {}  # separator / index column: the file's dialect is not part of the statement
                out.append(e)
        return out

    same_effects(ctx, "A6", "write_topology_report: report and archive effects", f, effects(ex.events), effects(sp.events), "file effects")
    ctx.analysed(f)


def run(ctx):
    ctx.assume("pandas sort_values / reset_index / iloc behave as documented; ties between equal scores are outside the property")
    ctx.assume("Tree equality and hashing identify a topology (clades and outliers): decided by C03.I1, used here as the dictionary key")
    ctx.assume("loops are compared on two pseudo-elements per iteration domain (TermFlow unrolling); domains are compared symbolically")
    ctx.soft(rule_A1)
    ctx.soft(rule_A2)
    ctx.soft(rule_A3)
    ctx.soft(rule_A4)
    ctx.soft(rule_A5)
    ctx.soft(rule_A6)
    # "one row per distinct tree (same clades and outliers)": the dictionary is keyed by Tree.__eq__ / __hash__
    # (same rule objects as C03.I1 / I2), whose clade sets come from tree.utils (TS)
    from ..formula import imported
    from . import C03
    from ._treespec import rule_TS

    ctx._own_rules = set(ctx.rule_min)
    imported(ctx, C03.rule_I1)
    imported(ctx, C03.rule_I2)
    imported(ctx, rule_TS, ["tree.utils"])


# ----------------------------------------------------------------------------- self-test catalogue
_P = "phyclone/process_trace/process_trace.py"
_R = "phyclone/run.py"
SELFTEST = [
    {"name": "A1-cli-map-explicit-drops-map-type", "kind": "break", "rule": "A1", "file": "phyclone/cli.py", "old": "def map(**kwargs):\n    \"\"\"Build MAP results.\"\"\"\n    write_map_results(**kwargs)\n", "new": "def map(in_file, out_table_file, out_tree_file, map_type):\n    \"\"\"Build MAP results.\"\"\"\n    write_map_results(in_file, out_table_file, out_tree_file)\n"},
    {"name": "benign-cli-map-explicit-parameters", "kind": "benign", "file": "phyclone/cli.py", "old": "def map(**kwargs):\n    \"\"\"Build MAP results.\"\"\"\n    write_map_results(**kwargs)\n", "new": "def map(in_file, out_table_file, out_tree_file, map_type):\n    \"\"\"Build MAP results.\"\"\"\n    write_map_results(in_file, out_table_file, out_tree_file, map_type=map_type)\n"},
    {"name": "A4-cli-topology-report-drops-top-trees", "kind": "break", "rule": "A4", "file": "phyclone/cli.py", "old": "def topology_report(**kwargs):\n    \"\"\"Build topology report.\"\"\"\n    write_topology_report(**kwargs)\n", "new": "def topology_report(in_file, out_file, topologies_archive, top_trees):\n    \"\"\"Build topology report.\"\"\"\n    write_topology_report(in_file, out_file, topologies_archive=topologies_archive)\n"},
    {"name": "I1-eq-ignores-outliers", "kind": "break", "rule": "I1", "file": "phyclone/tree/tree.py", "old": "        self_key = (self.get_clades(), frozenset(self.outliers))\n\n        other_key = (other.get_clades(), frozenset(other.outliers))\n\n        return self_key == other_key", "new": "        return self.get_clades() == other.get_clades()"},
    # ---- A6
    {"name": "A6-report-not-written", "kind": "break", "rule": "A6", "file": _P, "old": '    topology_df.to_csv(out_file, index=False, sep="\\t")\n\n    print("Topology report created', "new": '    print("Topology report created'},
    {"name": "A6-report-written-to-archive-path", "kind": "break", "rule": "A6", "file": _P, "old": 'topology_df.to_csv(out_file, index=False, sep="\\t")', "new": 'topology_df.to_csv(topologies_archive, index=False, sep="\\t")'},
    {"name": "A6-report-only-with-archive", "kind": "break", "rule": "A6", "file": _P, "old": '    topology_df.to_csv(out_file, index=False, sep="\\t")\n\n    print("Topology report created, saved as: {}".format(out_file))\n\n    if topologies_archive is not None:\n', "new": '    if topologies_archive is not None:\n        topology_df.to_csv(out_file, index=False, sep="\\t")\n'},
    {"name": "A6-archive-when-not-requested", "kind": "break", "rule": "A6", "file": _P, "old": "    if topologies_archive is not None:\n        print()\n        print(\"#\" * 50)\n        if top_trees", "new": "    if topologies_archive is None:\n        print()\n        print(\"#\" * 50)\n        if top_trees"},
    {"name": "benign-A6-comma-separated", "kind": "benign", "file": _P, "old": 'topology_df.to_csv(out_file, index=False, sep="\\t")', "new": 'topology_df.to_csv(out_file, index=False, sep=",")'},
    {"name": "benign-A6-split-frame", "kind": "benign", "file": _P, "old": "    topology_df = create_topology_dataframe(topologies_dict.values())\n", "new": "    unique = topologies_dict.values()\n    topology_df = create_topology_dataframe(unique)\n    print(len(topologies_dict))\n"},
    # ---- A1
    {"name": "A1-skip-first-entry", "kind": "break", "rule": "A1", "file": _P, "old": 'for i, x in enumerate(chain_results["trace"]):', "new": 'for i, x in enumerate(chain_results["trace"][1:]):'},
    {"name": "A1-chain-outside-guard", "kind": "break", "rule": "A1", "file": _P, "old": '                    map_val = x["log_p_one"]\n                    chain_num = curr_chain_num', "new": '                    map_val = x["log_p_one"]\n                chain_num = curr_chain_num'},
    {"name": "A1-less-than", "kind": "break", "rule": "A1", "file": _P, "old": 'if x["log_p_one"] > map_val:', "new": 'if x["log_p_one"] < map_val:'},
    {"name": "A1-break-after-first-hit", "kind": "break", "rule": "A1", "file": _P, "old": "                    chain_num = curr_chain_num\n", "new": "                    chain_num = curr_chain_num\n                    break\n"},
    {"name": "A1-start-at-zero", "kind": "break", "rule": "A1", "file": _P, "old": 'map_val = float("-inf")', "new": "map_val = 0.0"},
    {"name": "A1-restore-from-chain-0", "kind": "break", "rule": "A1", "file": _P, "old": 'results[chain_num]["trace"][map_iter]["tree"]', "new": 'results[0]["trace"][map_iter]["tree"]'},
    {"name": "A1-score-not-refreshed", "kind": "break", "rule": "A1", "file": _P, "old": '                    map_val = x["log_p_one"]\n', "new": ""},
    {"name": "A1-enumerate-from-one", "kind": "break", "rule": "A1", "file": _P, "old": 'for i, x in enumerate(chain_results["trace"]):', "new": 'for i, x in enumerate(chain_results["trace"], 1):'},
    {"name": "benign-A1-tuple-assign", "kind": "benign", "file": _P, "old": '                    map_iter = i\n\n                    map_val = x["log_p_one"]\n                    chain_num = curr_chain_num', "new": '                    map_val, map_iter, chain_num = x["log_p_one"], i, curr_chain_num'},
    {"name": "benign-A1-swap-operands", "kind": "benign", "file": _P, "old": 'if x["log_p_one"] > map_val:', "new": 'if map_val < x["log_p_one"]:'},
    {"name": "benign-A1-greater-equal", "kind": "benign", "file": _P, "old": 'if x["log_p_one"] > map_val:', "new": 'if x["log_p_one"] >= map_val:'},
    {"name": "benign-A1-split-restore", "kind": "benign", "file": _P, "old": '    tree = Tree.from_dict(results[chain_num]["trace"][map_iter]["tree"])', "new": '    best_chain = results[chain_num]\n    best_entry = best_chain["trace"][map_iter]\n    print("MAP entry", map_iter)\n    tree = Tree.from_dict(best_entry["tree"])'},
    {"name": "benign-A1-continue-style", "kind": "benign", "file": _P, "old": '                if x["log_p_one"] > map_val:\n                    map_iter = i\n\n                    map_val = x["log_p_one"]\n                    chain_num = curr_chain_num\n', "new": '                if x["log_p_one"] <= map_val:\n                    continue\n                map_iter = i\n                map_val = x["log_p_one"]\n                chain_num = curr_chain_num\n'},
    {"name": "A1-continue-style-inverted", "kind": "break", "rule": "A1", "file": _P, "old": '                if x["log_p_one"] > map_val:\n                    map_iter = i\n\n                    map_val = x["log_p_one"]\n                    chain_num = curr_chain_num\n', "new": '                if x["log_p_one"] >= map_val:\n                    continue\n                map_iter = i\n                map_val = x["log_p_one"]\n                chain_num = curr_chain_num\n'},
    {"name": "benign-A1-extract-helper", "kind": "benign", "edits": [
        {"file": _P, "old": "def create_topology_dict_from_trace(trace):\n", "new": 'def _scan(results):\n    best = (float("-inf"), 0, 0)\n    for c, r in results.items():\n        for i, x in enumerate(r["trace"]):\n            if x["log_p_one"] > best[0]:\n                best = (x["log_p_one"], i, c)\n    return best[1], best[2]\n\n\ndef create_topology_dict_from_trace(trace):\n'},
        {"file": _P, "old": '        for curr_chain_num, chain_results in results.items():\n            for i, x in enumerate(chain_results["trace"]):\n                if x["log_p_one"] > map_val:\n                    map_iter = i\n\n                    map_val = x["log_p_one"]\n                    chain_num = curr_chain_num\n', "new": "        map_iter, chain_num = _scan(results)\n"},
    ]},
    # a max()-based rewrite is a different algorithm shape: reported as ANALYSIS-ERROR by design, never as a violation
    {"name": "limit-A1-max-rewrite", "kind": "benign", "documented_limit": True, "file": _P, "old": '        for curr_chain_num, chain_results in results.items():\n            for i, x in enumerate(chain_results["trace"]):\n                if x["log_p_one"] > map_val:\n                    map_iter = i\n\n                    map_val = x["log_p_one"]\n                    chain_num = curr_chain_num\n', "new": '        map_val, chain_num, map_iter = max((x["log_p_one"], c, i) for c, r in results.items() for i, x in enumerate(r["trace"]))\n'},
    # ---- A2
    {"name": "A2-count-not-incremented", "kind": "break", "rule": "A2", "file": _P, "old": '        topology["count"] += 1\n', "new": "        pass\n"},
    {"name": "A2-less-than", "kind": "break", "rule": "A2", "file": _P, "old": 'if curr_log_p_one > topology["log_p_joint_max"]:', "new": 'if curr_log_p_one < topology["log_p_joint_max"]:'},
    {"name": "A2-iter-updated-on-every-hit", "kind": "break", "rule": "A2", "file": _P, "old": '        curr_log_p_one = x["log_p_one"]\n', "new": '        curr_log_p_one = x["log_p_one"]\n        topology["iter"] = i\n'},
    {"name": "A2-chain-not-updated", "kind": "break", "rule": "A2", "file": _P, "old": '            topology["chain_num"] = chain_num\n', "new": ""},
    {"name": "A2-new-count-zero", "kind": "break", "rule": "A2", "file": _P, "old": '"count": 1,', "new": '"count": 0,'},
    {"name": "A2-swapped-index-and-chain", "kind": "break", "rule": "A2", "file": _P, "old": "count_topology(topologies, x, i, curr_tree, chain_num)", "new": "count_topology(topologies, x, chain_num, curr_tree, i)"},
    {"name": "A2-last-entry-skipped", "kind": "break", "rule": "A2", "file": _P, "old": "for i, x in enumerate(chain_trace):", "new": "for i, x in enumerate(chain_trace[:-1]):"},
    {"name": "A2-tree-of-first-entry", "kind": "break", "rule": "A2", "file": _P, "old": 'curr_tree = Tree.from_dict(x["tree"])', "new": 'curr_tree = Tree.from_dict(chain_trace[0]["tree"])'},
    {"name": "A2-fresh-dictionary-returned", "kind": "break", "rule": "A2", "file": _P, "old": "            count_topology(topologies, x, i, curr_tree, chain_num)\n    return topologies", "new": "            count_topology(topologies, x, i, curr_tree, chain_num)\n    return dict()"},
    {"name": "benign-A2-explicit-increment", "kind": "benign", "file": _P, "old": '        topology["count"] += 1\n', "new": '        n_seen = topology["count"]\n        topology["count"] = 1 + n_seen\n'},
    {"name": "benign-A2-greater-equal", "kind": "benign", "file": _P, "old": 'if curr_log_p_one > topology["log_p_joint_max"]:', "new": 'if curr_log_p_one >= topology["log_p_joint_max"]:'},
    {"name": "benign-A2-keyword-argument", "kind": "benign", "file": _P, "old": "count_topology(topologies, x, i, curr_tree, chain_num)", "new": "count_topology(topologies, x, i, x_top=curr_tree, chain_num=chain_num)"},
    # ---- A3
    {"name": "A3-ascending", "kind": "break", "rule": "A3", "file": _P, "old": 'df.sort_values(by="log_p_joint_max", ascending=False, ignore_index=True)', "new": 'df.sort_values(by="log_p_joint_max", ascending=True, ignore_index=True)'},
    {"name": "A3-ids-before-sorting", "kind": "break", "rule": "A3", "file": _P, "old": '    df = df.sort_values(by="log_p_joint_max", ascending=False, ignore_index=True)\n    df.insert(0, "topology_id", "t_" + df.index.astype(str))\n', "new": '    df.insert(0, "topology_id", "t_" + df.index.astype(str))\n    df = df.sort_values(by="log_p_joint_max", ascending=False, ignore_index=True)\n'},
    {"name": "A3-index-not-reset", "kind": "break", "rule": "A3", "file": _P, "old": 'by="log_p_joint_max", ascending=False, ignore_index=True)', "new": 'by="log_p_joint_max", ascending=False)'},
    {"name": "A3-sorted-by-count", "kind": "break", "rule": "A3", "file": _P, "old": 'df.sort_values(by="log_p_joint_max", ascending=False, ignore_index=True)', "new": 'df.sort_values(by="count", ascending=False, ignore_index=True)'},
    {"name": "A3-frequency-ascending", "kind": "break", "rule": "A3", "file": _P, "old": 'df.sort_values(by="count", ascending=False)', "new": 'df.sort_values(by="count", ascending=True)'},
    {"name": "A3-frequency-last-row", "kind": "break", "rule": "A3", "file": _P, "old": 'chain_num = df["chain_num"].iloc[0]', "new": 'chain_num = df["chain_num"].iloc[-1]'},
    {"name": "A3-frequency-unsorted", "kind": "break", "rule": "A3", "file": _P, "old": '        df = df.sort_values(by="count", ascending=False)\n', "new": ""},
    {"name": "A3-frequency-swapped-columns", "kind": "break", "rule": "A3", "file": _P, "old": '        map_iter = df["iter"].iloc[0]\n        chain_num = df["chain_num"].iloc[0]', "new": '        map_iter = df["chain_num"].iloc[0]\n        chain_num = df["iter"].iloc[0]'},
    {"name": "benign-A3-reset-index", "kind": "benign", "file": _P, "old": '    df = df.sort_values(by="log_p_joint_max", ascending=False, ignore_index=True)\n', "new": '    ranked = df.sort_values(by="log_p_joint_max", ascending=False)\n    df = ranked.reset_index(drop=True)\n'},
    {"name": "benign-A3-row-then-column", "kind": "benign", "file": _P, "old": '        map_iter = df["iter"].iloc[0]\n        chain_num = df["chain_num"].iloc[0]', "new": '        top = df.iloc[0]\n        map_iter = top["iter"]\n        chain_num = top["chain_num"]'},
    # ---- A4
    {"name": "A4-id-pattern-reads-one-digit", "kind": "break", "rule": "A4", "edits": [
        {"file": _P, "old": "import gzip\nimport pickle\n", "new": "import gzip\nimport pickle\nimport re\n"},
        {"file": _P, "old": "\n\ndef write_map_results(\n", "new": "\n_TOPOLOGY_ID_TEMPLATE = \"t_{}\"\n_TOPOLOGY_ID_PATTERN = re.compile(r\"t_(\\d)\")\n\n\ndef _topology_rank(topology_id):\n    return int(_TOPOLOGY_ID_PATTERN.match(topology_id).group(1))\n\n\ndef write_map_results(\n"},
        {"file": _P, "old": "topology_rank = int(topology_id[2:])", "new": "topology_rank = _topology_rank(topology_id)"},
        {"file": _P, "old": "\"t_\" + df.index.astype(str)", "new": "[_TOPOLOGY_ID_TEMPLATE.format(rank) for rank in df.index]"}]},
    {"name": "benign-A4-id-template-and-pattern", "kind": "benign", "edits": [
        {"file": _P, "old": "import gzip\nimport pickle\n", "new": "import gzip\nimport pickle\nimport re\n"},
        {"file": _P, "old": "\n\ndef write_map_results(\n", "new": "\n_TOPOLOGY_ID_TEMPLATE = \"t_{}\"\n_TOPOLOGY_ID_PATTERN = re.compile(r\"t_(\\d+)\")\n\n\ndef _topology_rank(topology_id):\n    return int(_TOPOLOGY_ID_PATTERN.match(topology_id).group(1))\n\n\ndef write_map_results(\n"},
        {"file": _P, "old": "topology_rank = int(topology_id[2:])", "new": "topology_rank = _topology_rank(topology_id)"},
        {"file": _P, "old": "\"t_\" + df.index.astype(str)", "new": "[_TOPOLOGY_ID_TEMPLATE.format(rank) for rank in df.index]"}]},
    {"name": "A4-strictly-greater", "kind": "break", "rule": "A4", "file": _P, "old": "if topology_rank >= top_trees:", "new": "if topology_rank > top_trees:"},
    {"name": "A4-break-instead-of-continue", "kind": "break", "rule": "A4", "file": _P, "old": "                if topology_rank >= top_trees:\n                    continue", "new": "                if topology_rank >= top_trees:\n                    break"},
    {"name": "A4-prefix-changed-writer-only", "kind": "break", "rule": "A4", "file": _P, "old": '"t_" + df.index.astype(str)', "new": '"top_" + df.index.astype(str)'},
    {"name": "A4-row-match-without-key", "kind": "break", "rule": "A4", "file": _P, "old": '                    & (topology_df["iter"] == values["iter"])\n                    & (topology_df["chain_num"] == values["chain_num"])\n', "new": ""},
    {"name": "A4-row-match-mixed-columns", "kind": "break", "rule": "A4", "file": _P, "old": '(topology_df["iter"] == values["iter"])', "new": '(topology_df["iter"] == values["chain_num"])'},
    {"name": "A4-sentinel-is-a-valid-request", "kind": "break", "rule": "A4", "file": _P, "old": "    if top_trees == maxsize:\n", "new": "    if top_trees == 1:\n"},
    {"name": "A4-archive-from-recount", "kind": "break", "rule": "A4", "file": _P, "old": "        create_topologies_archive(topology_df, results, top_trees, topologies_dict, topologies_archive)", "new": "        create_topologies_archive(topology_df, results, top_trees, create_topology_dict_from_trace({0: results[0]}), topologies_archive)"},
    {"name": "A4-top-trees-off-by-one", "kind": "break", "rule": "A4", "file": _P, "old": "        create_topologies_archive(topology_df, results, top_trees, topologies_dict, topologies_archive)", "new": "        create_topologies_archive(topology_df, results, top_trees - 1, topologies_dict, topologies_archive)"},
    {"name": "benign-A4-negated-guard", "kind": "benign", "file": _P, "old": "if topology_rank >= top_trees:", "new": "if not topology_rank < top_trees:"},
    {"name": "benign-A4-print", "kind": "benign", "file": _P, "old": "                topology_rank = int(topology_id[2:])\n", "new": "                topology_rank = int(topology_id[2:])\n                print(\"rank\", topology_rank)\n"},
    {"name": "benign-A4-key-only-match", "kind": "benign", "file": _P, "old": '                    (topology_df["topology"] == values["topology"])\n                    & (topology_df["count"] == values["count"])\n                    & (topology_df["log_p_joint_max"] == values["log_p_joint_max"])\n                    & (topology_df["iter"] == values["iter"])', "new": '                    (topology_df["iter"] == values["iter"])'},
    # ---- A5
    {"name": "A5-entry-key-renamed-by-writer", "kind": "break", "rule": "A5", "file": _R, "old": '"log_p_one": tree_dist.log_p_one(tree),', "new": '"log_p": tree_dist.log_p_one(tree),'},
    {"name": "A5-result-key-renamed-by-writer", "kind": "break", "rule": "A5", "file": _R, "old": '"samples": samples,', "new": '"sample_ids": samples,'},
    {"name": "A5-optional-key-subscripted", "kind": "break", "rule": "A5", "file": _P, "old": '    clusters = results[0].get("clusters", None)\n    data = results[0]["data"]', "new": '    clusters = results[0]["clusters"]\n    data = results[0]["data"]'},
    {"name": "A5-reader-renamed-key", "kind": "break", "rule": "A5", "file": _P, "old": '    data = results[0]["data"]\n\n    trees = []', "new": '    data = results[0]["datapoints"]\n\n    trees = []'},
    {"name": "A5-clusters-key-renamed-by-writer", "kind": "break", "rule": "A5", "file": _P, "old": 'chain_result["clusters"] = pd.read_csv', "new": 'chain_result["cluster_df"] = pd.read_csv'},
    {"name": "A5-trace-list-not-stored", "kind": "break", "rule": "A5", "file": _R, "old": '"trace": trace,', "new": '"trace": setup_trace(timer, tree, tree_dist),'},
    {"name": "benign-A5-dict-call", "kind": "benign", "file": _R, "old": 'results = {"data": data, "samples": samples, "trace": trace, "chain_num": chain_num}', "new": "results = dict(data=data, samples=samples, trace=trace, chain_num=chain_num)"},
    {"name": "benign-A5-entry-built-first", "kind": "benign", "file": _R, "old": '    trace.append(\n        {\n            "iter": i,\n            "time": timer.elapsed,\n            "alpha": tree_dist.prior.alpha,\n            "log_p_one": tree_dist.log_p_one(tree),\n            "tree": tree.to_dict(),\n        }\n    )\n', "new": '    entry = {"iter": i, "time": timer.elapsed}\n    entry["alpha"] = tree_dist.prior.alpha\n    entry["log_p_one"] = tree_dist.log_p_one(tree)\n    entry["tree"] = tree.to_dict()\n    trace.append(entry)\n'},
]
