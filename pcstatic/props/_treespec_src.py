"""Frozen reference semantics of the tree editor (generated from the pinned, repaired tree on 2026-10-02 and
reviewed against the statements of C06 / C07 / C02; see DESIGN.md §0).  Interpreted by TermFlow, never executed."""

REFERENCE = {}

REFERENCE['phyclone.tree.tree.Tree.__init__'] = """
def __init__(self, grid_size):
    self.grid_size = grid_size
    self._data = defaultdict(list)
    self._log_prior = -np.log(grid_size[1])
    self._graph = rx.PyDiGraph()
    self._node_indices = dict()
    self._node_indices_rev = dict()
    self._last_node_added_to = None
    self._add_node(self._ROOT_NODE_NAME)
"""

REFERENCE['phyclone.tree.tree.Tree.get_single_node_tree'] = """
def get_single_node_tree(data):
    tree = Tree(data[0].grid_size)
    node = tree.create_root_node([])
    _ = tree._add_list_of_data_points_to_node(data, node)
    tree.update()
    return tree
"""

REFERENCE['phyclone.tree.tree.Tree.graph@getter'] = """
def graph(self):
    result = self._graph.copy()
    root_idx = self._node_indices[self._ROOT_NODE_NAME]
    result.remove_node(root_idx)
    return result
"""

REFERENCE['phyclone.tree.tree.Tree.data@getter'] = """
def data(self):
    result = sorted(chain.from_iterable(self._data.values()), key=lambda x: x.idx)
    return result
"""

REFERENCE['phyclone.tree.tree.Tree.data_log_likelihood@getter'] = """
def data_log_likelihood(self):
    root_idx = self._node_indices[self._ROOT_NODE_NAME]
    return self._graph[root_idx].log_r
"""

REFERENCE['phyclone.tree.tree.Tree.labels@getter'] = """
def labels(self):
    result = {dp.idx: k for k, l in self.node_data.items() for dp in l}
    return result
"""

REFERENCE['phyclone.tree.tree.Tree.nodes@getter'] = """
def nodes(self):
    result = [node.node_id for node in self._graph.nodes() if node.node_id != self._ROOT_NODE_NAME]
    return result
"""

REFERENCE['phyclone.tree.tree.Tree.get_number_of_nodes'] = """
def get_number_of_nodes(self):
    return self._graph.num_nodes() - 1
"""

REFERENCE['phyclone.tree.tree.Tree.node_data@getter'] = """
def node_data(self):
    result = self._data.copy()
    if self._ROOT_NODE_NAME in result:
        del result[self._ROOT_NODE_NAME]
    return result
"""

REFERENCE['phyclone.tree.tree.Tree.outliers@getter'] = """
def outliers(self):
    return list(self._data[self._OUTLIER_NODE_NAME])
"""

REFERENCE['phyclone.tree.tree.Tree.roots@getter'] = """
def roots(self):
    node_idx = self._node_indices[self._ROOT_NODE_NAME]
    return [child.node_id for child in self._graph.successors(node_idx)]
"""

REFERENCE['phyclone.tree.tree.Tree.add_data_point_to_node'] = """
def add_data_point_to_node(self, data_point, node):
    assert self._is_data_point_in_tree(data_point) == False
    self._internal_add_data_point_to_node(False, data_point, node)
"""

REFERENCE['phyclone.tree.tree.Tree._internal_add_data_point_to_node'] = """
def _internal_add_data_point_to_node(self, build_add, data_point, node):
    self._data[node].append(data_point)
    self._last_node_added_to = node
    if node != self._OUTLIER_NODE_NAME:
        node_idx = self._node_indices[node]
        self._graph[node_idx].add_data_point(data_point)
        if not build_add:
            self._update_path_to_root(self.get_parent(node))
"""

REFERENCE['phyclone.tree.tree.Tree.add_data_point_to_outliers'] = """
def add_data_point_to_outliers(self, data_point):
    self.add_data_point_to_node(data_point, self._OUTLIER_NODE_NAME)
"""

REFERENCE['phyclone.tree.tree.Tree.add_subtree'] = """
def add_subtree(self, subtree, parent=None):
    subtree = subtree.copy()
    if parent is None:
        parent = self._ROOT_NODE_NAME
    parent_idx = self._node_indices[parent]
    parent_node = self._graph[parent_idx]
    subtree_dummy_root = subtree._node_indices[subtree._ROOT_NODE_NAME]
    node_map_idx = self._graph.compose(subtree._graph, {parent_idx: (subtree_dummy_root, None)})
    self._graph.remove_node_retain_edges(node_map_idx[subtree_dummy_root])
    self._relabel_grafted_subtree_nodes(node_map_idx, subtree, subtree_dummy_root)
    self._last_node_added_to = subtree._last_node_added_to
    self._update_path_to_root(parent_node.node_id)
"""

REFERENCE['phyclone.tree.tree.Tree._relabel_grafted_subtree_nodes'] = """
def _relabel_grafted_subtree_nodes(self, node_map_idx, subtree, subtree_dummy_root):
    first_label = max(self.nodes + subtree.nodes + [-1])
    for old_idx, new_idx in node_map_idx.items():
        if old_idx == subtree_dummy_root:
            continue
        node_obj = self._graph[new_idx]
        node_name = node_obj.node_id
        old_node_name = node_name
        if node_name in self._data:
            first_label += 1
            node_name = first_label
            node_obj.node_id = node_name
        self._data[node_name] = subtree._data[old_node_name]
        self._add_node_to_indices(node_name, new_idx)
"""

REFERENCE['phyclone.tree.tree.Tree.create_root_node'] = """
def create_root_node(self, children=None, data=None):
    if data is None:
        data = []
    if children is None:
        children = []
    node = self._graph.num_nodes() - 1
    self._add_node(node)
    root_idx = self._node_indices[self._ROOT_NODE_NAME]
    node_idx = self._add_list_of_data_points_to_node(data, node)
    self._graph.add_edge(root_idx, node_idx, None)
    for child in children:
        child_idx = self._node_indices[child]
        self._graph.remove_edge(root_idx, child_idx)
        self._graph.add_edge(node_idx, child_idx, None)
    self._last_node_added_to = node
    self._update_path_to_root(node)
    return node
"""

REFERENCE['phyclone.tree.tree.Tree._add_list_of_data_points_to_node'] = """
def _add_list_of_data_points_to_node(self, data, node):
    node_idx = self._node_indices[node]
    if len(data) > 0:
        self._data[node].extend(data)
        self._graph[node_idx].add_data_point_list(data)
    return node_idx
"""

REFERENCE['phyclone.tree.tree.Tree.copy'] = """
def copy(self):
    cls = self.__class__
    new = cls.__new__(cls)
    new.grid_size = self.grid_size
    new._data = defaultdict(list)
    new._data.update({k: v.copy() for k, v in self._data.items()})
    new._log_prior = self._log_prior
    new._graph = self._graph.copy()
    new._node_indices = self._node_indices.copy()
    new._node_indices_rev = self._node_indices_rev.copy()
    new._last_node_added_to = self._last_node_added_to
    for node_idx in new._graph.node_indices():
        new._graph[node_idx] = new._graph[node_idx].copy()
    return new
"""

REFERENCE['phyclone.tree.tree.Tree.get_children'] = """
def get_children(self, node):
    node_idx = self._node_indices[node]
    return [child.node_id for child in self._graph.successors(node_idx)]
"""

REFERENCE['phyclone.tree.tree.Tree.get_number_of_children'] = """
def get_number_of_children(self, node):
    node_idx = self._node_indices[node]
    return len(self._graph.successors(node_idx))
"""

REFERENCE['phyclone.tree.tree.Tree.get_descendants'] = """
def get_descendants(self, source=None):
    if source is None:
        source = self._ROOT_NODE_NAME
    source_idx = self._node_indices[source]
    descs = rx.descendants(self._graph, source_idx)
    return [self._graph[child].node_id for child in descs]
"""

REFERENCE['phyclone.tree.tree.Tree.get_number_of_descendants'] = """
def get_number_of_descendants(self, source=None):
    if source is None:
        source = self._ROOT_NODE_NAME
    source_idx = self._node_indices[source]
    descs = rx.descendants(self._graph, source_idx)
    return len(descs)
"""

REFERENCE['phyclone.tree.tree.Tree.get_parent'] = """
def get_parent(self, node):
    if node == self._ROOT_NODE_NAME:
        return None
    else:
        node_idx = self._node_indices[node]
        return [pred.node_id for pred in self._graph.predecessors(node_idx)][0]
"""

REFERENCE['phyclone.tree.tree.Tree.get_data'] = """
def get_data(self, node):
    return list(self._data[node])
"""

REFERENCE['phyclone.tree.tree.Tree.get_data_len'] = """
def get_data_len(self, node):
    return len(self._data[node])
"""

REFERENCE['phyclone.tree.tree.Tree.get_subtree_data_len'] = """
def get_subtree_data_len(self, node):
    data_len = self.get_data_len(node)
    for desc in self.get_descendants(node):
        data_len += self.get_data_len(desc)
    return data_len
"""

REFERENCE['phyclone.tree.tree.Tree.relabel_nodes'] = """
def relabel_nodes(self):
    data = defaultdict(list)
    data[self._OUTLIER_NODE_NAME] = list(self._data[self._OUTLIER_NODE_NAME])
    visitor = PreOrderNodeRelabeller(self, data)
    root_idx = self._node_indices[self._ROOT_NODE_NAME]
    rx.dfs_search(self._graph, [root_idx], visitor)
    self._data = data
    self._node_indices = visitor.node_indices
    self._node_indices_rev = visitor.node_indices_rev
"""

REFERENCE['phyclone.tree.tree.Tree.remove_data_point_from_node'] = """
def remove_data_point_from_node(self, data_point, node):
    self._data[node].remove(data_point)
    if node != self._OUTLIER_NODE_NAME:
        node_idx = self._node_indices[node]
        self._graph[node_idx].remove_data_point(data_point)
        self._update_path_to_root(node)
"""

REFERENCE['phyclone.tree.tree.Tree.remove_data_point_from_outliers'] = """
def remove_data_point_from_outliers(self, data_point):
    self._data[self._OUTLIER_NODE_NAME].remove(data_point)
"""

REFERENCE['phyclone.tree.tree.Tree.remove_subtree'] = """
def remove_subtree(self, subtree):
    if subtree == self:
        self.__init__(self.grid_size)
    else:
        assert len(subtree.roots) == 1
        sub_root = subtree.roots[0]
        parent = self.get_parent(sub_root)
        parent_idx = self._node_indices[parent]
        parent_node = self._graph[parent_idx]
        sub_root_idx = self._node_indices[sub_root]
        for node in subtree._graph.nodes():
            node_id = node.node_id
            if node_id != self._ROOT_NODE_NAME:
                del self._data[node_id]
                curr_idx = self._node_indices[node_id]
                del self._node_indices[node_id]
                del self._node_indices_rev[curr_idx]
        indices_to_remove = list(rx.descendants(self._graph, sub_root_idx)) + [sub_root_idx]
        self._graph.remove_nodes_from(indices_to_remove)
        self._update_path_to_root(parent_node.node_id)
"""

REFERENCE['phyclone.tree.tree.Tree.update'] = """
def update(self):
    vis = PostOrderNodeUpdater(self._update_node)
    root_idx = self._node_indices[self._ROOT_NODE_NAME]
    rx.dfs_search(self._graph, [root_idx], vis)
"""

REFERENCE['phyclone.tree.tree.Tree._add_node'] = """
def _add_node(self, node):
    node_obj = TreeNode(self.grid_size, self._log_prior, node)
    node_idx = self._graph.add_node(node_obj)
    self._add_node_to_indices(node, node_idx)
"""

REFERENCE['phyclone.tree.tree.Tree._add_node_to_indices'] = """
def _add_node_to_indices(self, node, node_idx):
    self._node_indices[node] = node_idx
    self._node_indices_rev[node_idx] = node
"""

REFERENCE['phyclone.tree.tree.Tree._update_path_to_root'] = """
def _update_path_to_root(self, source):
    root_idx = self._node_indices[self._ROOT_NODE_NAME]
    source_idx = self._node_indices[source]
    paths = rx.all_simple_paths(self._graph, root_idx, source_idx)
    if len(paths) == 0:
        assert source == self._ROOT_NODE_NAME
        paths = [[root_idx]]
    assert len(paths) == 1
    path = paths[0]
    assert self._node_indices_rev[path[-1]] == source
    assert self._node_indices_rev[path[0]] == self._ROOT_NODE_NAME
    for source in reversed(path):
        self._update_node(source)
"""

REFERENCE['phyclone.tree.tree.Tree._update_node'] = """
def _update_node(self, node_idx):
    child_log_r_values = [child.log_r for child in self._graph.successors(node_idx)]
    self._graph[node_idx].update_node_from_child_r_vals(child_log_r_values)
"""

REFERENCE['phyclone.tree.tree.Tree.to_newick_string'] = """
def to_newick_string(self):
    visitor = GraphToNewickVisitor(self)
    root_idx = self._node_indices[self._ROOT_NODE_NAME]
    rx.dfs_search(self._graph, [root_idx], visitor)
    return visitor.final_string
"""

REFERENCE['phyclone.tree.tree.Tree.get_clades'] = """
def get_clades(self):
    visitor = GraphToCladesVisitor(self)
    root_idx = self._node_indices[self._ROOT_NODE_NAME]
    rx.dfs_search(self._graph, [root_idx], visitor)
    vis_clades = frozenset(visitor.clades)
    return vis_clades
"""

REFERENCE['phyclone.tree.tree.Tree.multiplicity@getter'] = """
def multiplicity(self):
    mult = sum(map(cached_log_factorial, map(self._graph.out_degree, self._graph.node_indices())))
    return mult
"""

REFERENCE['phyclone.tree.tree.Tree.node_last_added_to@getter'] = """
def node_last_added_to(self):
    return self._last_node_added_to
"""

REFERENCE['phyclone.tree.tree.Tree.root_node_name@getter'] = """
def root_node_name(self):
    return self._ROOT_NODE_NAME
"""

REFERENCE['phyclone.tree.tree.Tree.outlier_node_name@getter'] = """
def outlier_node_name(self):
    return self._OUTLIER_NODE_NAME
"""

REFERENCE['phyclone.tree.tree_node.TreeNode.__init__'] = """
def __init__(self, grid_size: tuple[int, int], log_prior: float, node_id: Union[str | int]):
    self.log_p = np.full(grid_size, log_prior, order='C')
    self.log_r = np.zeros(grid_size, order='C')
    self.node_id = node_id
    self.data_points = set()
"""

REFERENCE['phyclone.tree.tree_node.TreeNode.__copy__'] = """
def __copy__(self):
    cls = self.__class__
    new = cls.__new__(cls)
    new.log_p = self.log_p.copy()
    new.log_r = self.log_r.copy()
    if isinstance(self.node_id, str):
        new.node_id = str(self.node_id)
    else:
        new.node_id = int(self.node_id)
    new.data_points = self.data_points.copy()
    return new
"""

REFERENCE['phyclone.tree.tree_node.TreeNode.add_data_point_list'] = """
def add_data_point_list(self, data_point_list):
    dp_idx_set = {dp.idx for dp in data_point_list}
    assert self.data_points.isdisjoint(dp_idx_set)
    self.data_points.update(dp_idx_set)
    log_p = self.log_p
    log_r = self.log_r
    for data_point in data_point_list:
        log_p += data_point.value
        log_r += data_point.value
"""

REFERENCE['phyclone.tree.tree_node.TreeNode.add_data_point'] = """
def add_data_point(self, data_point):
    dp_idx = data_point.idx
    assert dp_idx not in self.data_points
    self.data_points.add(dp_idx)
    self.log_p += data_point.value
    self.log_r += data_point.value
"""

REFERENCE['phyclone.tree.tree_node.TreeNode.remove_data_point'] = """
def remove_data_point(self, data_point):
    dp_idx = data_point.idx
    assert dp_idx in self.data_points
    self.data_points.discard(dp_idx)
    self.log_p -= data_point.value
"""

REFERENCE['phyclone.tree.tree_node.TreeNode.update_node_from_child_r_vals'] = """
def update_node_from_child_r_vals(self, child_log_r_values):
    log_p = self.log_p
    log_r = self.log_r
    if len(child_log_r_values) == 0:
        np.copyto(log_r, log_p)
        return
    else:
        log_s = compute_log_S(child_log_r_values)
    np.add(log_p, log_s, out=log_r, order='C')
"""

REFERENCE['phyclone.tree.tree_node.TreeNode.to_dict'] = """
def to_dict(self):
    return {'log_p': self.log_p, 'log_R': self.log_r, 'node_id': self.node_id}
"""

REFERENCE['phyclone.tree.tree_node.TreeNode.copy'] = """
def copy(self):
    return self.__copy__()
"""

REFERENCE['phyclone.tree.visitors.PostOrderNodeUpdater.__init__'] = """
def __init__(self, node_update_fxn):
    self.node_update_fxn = node_update_fxn
"""

REFERENCE['phyclone.tree.visitors.PostOrderNodeUpdater.finish_vertex'] = """
def finish_vertex(self, v, t):
    self.node_update_fxn(v)
"""

REFERENCE['phyclone.tree.visitors.PreOrderNodeRelabeller.__init__'] = """
def __init__(self, tree, data, start_idx=0):
    self.data = data
    self.orig_data = tree._data
    self.node_indices = dict()
    self.node_indices_rev = dict()
    self.curr_idx = start_idx
    self.graph = tree._graph
    self.root_node_name = tree.root_node_name
"""

REFERENCE['phyclone.tree.visitors.PreOrderNodeRelabeller.discover_vertex'] = """
def discover_vertex(self, v, t):
    node_id = self.graph[v].node_id
    if node_id != self.root_node_name:
        old_node_id = node_id
        node_id = self.curr_idx
        self.curr_idx += 1
        self.graph[v].node_id = node_id
        self.data[node_id] = self.orig_data[old_node_id]
    self.node_indices[node_id] = v
    self.node_indices_rev[v] = node_id
"""

REFERENCE['phyclone.tree.utils.get_clades'] = """
def get_clades(tree):
    result = set()
    for root in tree.roots:
        _clades(result, root, tree)
    return frozenset(result)
"""

REFERENCE['phyclone.tree.utils._clades'] = """
def _clades(clades, node, tree):
    current_clade = set()
    for mutation in tree.get_data(node):
        current_clade.add(mutation.idx)
    for child in tree.get_children(node):
        for mutation in _clades(clades, child, tree):
            current_clade.add(mutation)
    clades.add(frozenset(current_clade))
    return current_clade
"""

REFERENCE['phyclone.tree.utils.compute_log_S'] = """
def compute_log_S(child_log_R_values):
    if len(child_log_R_values) == 0:
        return 0.0
    log_D = compute_log_D(child_log_R_values)
    log_S = _sub_compute_S(log_D)
    return np.ascontiguousarray(log_S)
"""

REFERENCE['phyclone.tree.utils._sub_compute_S'] = """
def _sub_compute_S(log_D):
    log_S = np.empty_like(log_D)
    num_dims = log_D.shape[0]
    for i in range(num_dims):
        np.logaddexp.accumulate(log_D[i, :], out=log_S[i, :])
    return log_S
"""

REFERENCE['phyclone.tree.utils.compute_log_D'] = """
def compute_log_D(child_log_R_values):
    num_children = len(child_log_R_values)
    if num_children == 0:
        return 0
    if num_children == 1:
        return child_log_R_values[0]
    conv_res = _convolve_two_children(child_log_R_values[0], child_log_R_values[1])
    for j in range(2, num_children):
        conv_res = _convolve_two_children(child_log_R_values[j], conv_res)
    log_D = conv_res
    return log_D
"""

REFERENCE['phyclone.tree.utils._convolve_two_children'] = """
def _convolve_two_children(child_1, child_2):
    grid_size = child_1.shape[-1]
    if grid_size < 1000:
        res_arr = _np_conv_dims(child_1, child_2)
    else:
        res_arr = fft_convolve_two_children(child_1, child_2)
    return res_arr
"""

REFERENCE['phyclone.tree.utils._np_conv_dims'] = """
def _np_conv_dims(child_1, child_2):
    num_dims = child_1.shape[0]
    child_1_maxes = np.max(child_1, axis=-1, keepdims=True)
    child_2_maxes = np.max(child_2, axis=-1, keepdims=True)
    child_1_norm = np.exp(child_1 - child_1_maxes)
    child_2_norm = np.exp(child_2 - child_2_maxes)
    grid_size = child_1.shape[-1]
    arr_list = [np.convolve(child_2_norm[i, :], child_1_norm[i, :])[:grid_size] for i in range(num_dims)]
    log_D = np.ascontiguousarray(arr_list)
    log_D[log_D <= 0] = 1e-100
    log_D = np.log(log_D, order='C', dtype=np.float64, out=log_D)
    log_D += child_1_maxes
    log_D += child_2_maxes
    return log_D
"""

REFERENCE['phyclone.utils.math.fft_convolve_two_children'] = """
def fft_convolve_two_children(child_1, child_2):
    child_1_maxes = np.max(child_1, axis=-1, keepdims=True)
    child_2_maxes = np.max(child_2, axis=-1, keepdims=True)
    child_1_norm = np.exp(child_1 - child_1_maxes)
    child_2_norm = np.exp(child_2 - child_2_maxes)
    result = fftconvolve(child_1_norm, child_2_norm, axes=[-1])
    result = result[..., :child_1_norm.shape[-1]]
    result[result <= 0] = 1e-100
    result = np.log(result, order='C', dtype=np.float64)
    result += child_2_maxes
    result += child_1_maxes
    return result
"""

REFERENCE['phyclone.tree.tree.Tree.get_subtree'] = """
def get_subtree(self, subtree_root):
    if subtree_root == self._ROOT_NODE_NAME:
        return self.copy()
    new = Tree(self.grid_size)
    subtree_root_idx = self._node_indices[subtree_root]
    subtree_graph_node_indices = [subtree_root_idx] + list(rx.descendants(self._graph, subtree_root_idx))
    subtree_graph = self._graph.subgraph(subtree_graph_node_indices, preserve_attrs=True)
    new_root_idx = new._node_indices[self._ROOT_NODE_NAME]
    sub_root_idx = -1
    for sub_idx in subtree_graph.node_indices():
        payload = subtree_graph[sub_idx]
        if payload.node_id == subtree_root:
            sub_root_idx = sub_idx
            break
    new._graph.compose(subtree_graph, {new_root_idx: (sub_root_idx, None)})
    for node_idx in new._graph.node_indices():
        new._graph[node_idx] = new._graph[node_idx].copy()
        node = new._graph[node_idx].node_id
        new._data[node] = list(self._data[node])
        new._add_node_to_indices(node, node_idx)
    new.update()
    return new
"""

REFERENCE['phyclone.process_trace.consensus.relabel'] = """
def relabel(graph):
    result = nx.DiGraph()
    for root in roots(graph):
        _relabel(root, result, graph)
    return result
"""

REFERENCE['phyclone.process_trace.consensus.roots'] = """
def roots(graph):
    return [n for n in graph.nodes() if len(graph.in_edges(n)) == 0]
"""

REFERENCE['phyclone.process_trace.consensus.clean_tree'] = """
def clean_tree(tree, data=None):
    node_map = {}
    for new_node, old_node in enumerate(nx.dfs_preorder_nodes(tree)):
        node_map[old_node] = new_node
    new_tree = nx.relabel_nodes(tree, node_map)
    idx_map = {}
    for data_points, node in node_map.items():
        idx_map[node] = sorted(data_points)
    nx.set_node_attributes(new_tree, name='idxs', values=idx_map)
    if data is not None:
        name_map = defaultdict(list)
        for node in idx_map:
            for idx in idx_map[node]:
                name_map[node].append(data[idx].name)
        nx.set_node_attributes(new_tree, name='names', values=name_map)
    return new_tree
"""

REFERENCE['phyclone.process_trace.process_trace.from_dict_nx'] = """
def from_dict_nx(data, tree_dict):
    new = Tree(data[0].grid_size)
    data = dict(zip([x.idx for x in data], data))
    root_node_name = new.root_node_name
    for node in tree_dict['graph'].keys():
        if node == root_node_name:
            continue
        new._add_node(node)
    for parent, children in tree_dict['graph'].items():
        parent_idx = new._node_indices[parent]
        for child in children.keys():
            child_idx = new._node_indices[child]
            new._graph.add_edge(parent_idx, child_idx, None)
    for idx, node in tree_dict['labels'].items():
        new._internal_add_data_point_to_node(True, data[idx], node)
    new.update()
    return new
"""

REFERENCE['phyclone.process_trace.process_trace.get_tree_from_consensus_graph'] = """
def get_tree_from_consensus_graph(data, graph):
    labels = {}
    tmp_tree = Tree(data[0].grid_size)
    outlier_node_name = tmp_tree.outlier_node_name
    for node in graph.nodes:
        for idx in graph.nodes[node]['idxs']:
            labels[idx] = node
    for x in data:
        if x.idx not in labels:
            labels[x.idx] = outlier_node_name
    graph = graph.copy()
    nodes = list(graph.nodes)
    root_node_name = tmp_tree.root_node_name
    for node in nodes:
        if len(list(graph.predecessors(node))) == 0:
            graph.add_edge(root_node_name, node)
    tree = from_dict_nx(data, {'graph': nx.to_dict_of_dicts(graph), 'labels': labels})
    tree.update()
    return tree
"""

REFERENCE['phyclone.tree.tree.Tree.from_dict'] = """
def from_dict(cls, tree_dict):
    grid_size = tree_dict['grid_size']
    if 'log_prior' in tree_dict:
        log_prior = tree_dict['log_prior']
    else:
        log_prior = -np.log(grid_size[1])
    new_graph = rx.PyDiGraph()
    new = cls.__new__(cls)
    new.grid_size = grid_size
    new._graph = new_graph
    new._log_prior = log_prior
    new._data = defaultdict(list)
    new._node_indices_rev = tree_dict['node_idx_rev'].copy()
    new._node_indices = tree_dict['node_idx'].copy()
    new._last_node_added_to = tree_dict['node_last_added_to']
    new._data.update({k: v.copy() for k, v in tree_dict['node_data'].items()})
    _ = new_graph.add_node(TreeNode(grid_size, log_prior, cls._ROOT_NODE_NAME))
    if len(tree_dict['graph']) > 0:
        node_idxs = tree_dict['node_idx']
        new_graph.extend_from_edge_list(tree_dict['graph'])
        root_name = cls._ROOT_NODE_NAME
        outlier_node_name = cls._OUTLIER_NODE_NAME
        for node, data_list in tree_dict['node_data'].items():
            if node == outlier_node_name or node == root_name:
                continue
            node_obj = TreeNode(grid_size, log_prior, node)
            node_obj.add_data_point_list(data_list)
            node_idx = node_idxs[node]
            new_graph[node_idx] = node_obj
        node_index_holes = [idx for idx in new_graph.node_indices() if idx not in tree_dict['node_idx_rev']]
        if len(node_index_holes) > 0:
            new_graph.remove_nodes_from(node_index_holes)
    new.update()
    return new
"""

REFERENCE['phyclone.tree.tree.Tree.to_dict'] = """
def to_dict(self):
    tree_dict = {'graph': self._graph.edge_list(), 'node_idx': self._node_indices.copy(), 'node_idx_rev': self._node_indices_rev.copy(), 'node_data': {k: v.copy() for k, v in self._data.items()}, 'grid_size': self.grid_size, 'node_last_added_to': self._last_node_added_to, 'log_prior': self._log_prior}
    return tree_dict
"""

REFERENCE['phyclone.tree.tree.Tree._is_data_point_in_tree'] = """
def _is_data_point_in_tree(self, data_point):
    dp_idx = data_point.idx
    data_point_is_present = sum(map(lambda x: dp_idx in x.data_points, self._graph.nodes()))
    if self._OUTLIER_NODE_NAME in self._data:
        dp_in_outliers = data_point in self._data[self._OUTLIER_NODE_NAME]
        data_point_is_present += dp_in_outliers
    return data_point_is_present
"""
