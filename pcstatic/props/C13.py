"""C13 — concentration update is an exact Gibbs step for the CRP concentration (Escobar & West).

Decided: the parameters handed to the Beta, Bernoulli and Gamma draws equal the statement's
(eta ~ Beta(alpha+1, n); mixture weight; Gamma(shape, rate = b - log eta)); all draws use the seeded
generator; K and n are extracted from the tree with outliers excluded; the single writer of alpha
refreshes log(alpha).  NOT decided: scipy's samplers, the Escobar-West mathematics.
"""
import ast

from ..astutil import calls, call_name, u
from ..formula import extract, same, same_events, same_store, spec
from ..termflow import show

SPEC_SAMPLE = """
def s(self, old_value, num_clusters, num_data_points):
    a = self.a
    b = self.b
    k = num_clusters
    n = num_data_points
    if k == 0:
        return gamma.rvs(a, scale=1 / b, random_state=self._rng)
    eta = beta.rvs(a=old_value + 1, b=n, random_state=self._rng)
    rate = b - np.log(eta)
    # mixture pi * Gamma(a + k, rate) + (1 - pi) * Gamma(a + k - 1, rate) with odds pi/(1-pi) = (a + k - 1) / (n * rate)
    odds = (a + k - 1) / (n * rate)
    pi = odds / (1 + odds)
    shape = a + k - 1 + bernoulli.rvs(pi, random_state=self._rng)
    return max(gamma.rvs(shape, scale=1 / rate, random_state=self._rng), 1e-10)
"""


def _unfloor(v):
    """Replace every max(x, c) / max(c, x) with 0 < c <= 1e-6 by x."""
    from fractions import Fraction

    from ..formula import atoms_of
    from ..termflow import Poly, _is_polykey, poly_from_key, subst

    def small(k):
        if _is_polykey(k):
            p = poly_from_key(k)
            return p.is_const() and 0 < p.const_value() <= Fraction(1, 10 ** 6)
        return False

    mapping = {}
    for a in atoms_of(v, tag="call", name="max"):
        if len(a[2]) == 2 and not a[3]:
            x, c = a[2]
            if small(x):
                x, c = c, x
            if small(c):
                mapping[a] = poly_from_key(x) if _is_polykey(x) else Poly.atom(x)
    return subst(v, mapping) if mapping else v


def run(ctx):
    prog = ctx.prog
    ctx.assume("scipy.stats beta/bernoulli/gamma rvs draw from the named laws with (a, b) / p / (shape, scale) parameters")
    ctx.rule("U1", "parameters of the four draws (eta, mixture indicator, new value; k = 0 arm) and their generator", 5)
    ctx.rule("U2", "K and n extracted from the tree with the outlier set excluded; old value read from and result stored to the shared prior", 3)
    ctx.rule("U3", "alpha has one writer, which refreshes log(alpha)", 3)

    f = prog.fn("GammaPriorConcentrationSampler.sample")
    ex = extract(prog, f)
    sp = spec(prog, SPEC_SAMPLE, f)
    for nm, label in (("scipy.stats.beta.rvs", "eta ~ Beta(alpha + 1, n)"), ("scipy.stats.bernoulli.rvs", "mixture indicator ~ Bernoulli(pi)"), ("scipy.stats.gamma.rvs", "Gamma draws (k = 0 arm and mixture component)")):
        same_events(ctx, "U1", "GammaPriorConcentrationSampler.sample: " + label, f, ex.calls(nm), sp.calls(nm), label)
    # the statement is about the law of the draw; a tiny positive floor guarding against underflow (on either
    # arm) does not change it and is C19.T5's business: both sides are compared with such floors removed
    same(ctx, "U1", "GammaPriorConcentrationSampler.sample: returned value", f, _unfloor(ex.result), _unfloor(sp.result), "new concentration (numerical floors <= 1e-6 removed)")
    init = prog.fn("GammaPriorConcentrationSampler.__init__")
    ei = extract(prog, init)
    si = spec(prog, "def s(self, a, b, rng):\n    self.a = a\n    self.b = b\n    self._rng = rng\n", init)
    for a in ("a", "b", "_rng"):
        same(ctx, "U1", "GammaPriorConcentrationSampler.__init__ stores " + a, init, ei.store(a), si.store(a), "self." + a)

    g = prog.fn("run.update_concentration_value")
    ex = extract(prog, g)
    sp = spec(prog, """
def s(conc_sampler, tree, tree_dist):
    sizes = [len(members) for name, members in tree.node_data.items() if name != tree.outlier_node_name]
    tree_dist.prior.alpha = conc_sampler.sample(tree_dist.prior.alpha, len(sizes), sum(sizes))
""", g)
    evs = lambda x: [e for e in x.events if e.name == ".sample"]
    same_events(ctx, "U2", "update_concentration_value: sample(old alpha, K, n) with outliers excluded", g, evs(ex), evs(sp), "conc_sampler.sample(alpha, K, n)")
    same_store(ctx, "U2", "update_concentration_value: result stored into tree_dist.prior.alpha", g, ex, sp, "alpha")
    # node_data: every clone entry of the data map, the virtual root's entry removed
    nd = prog.fn("Tree.node_data@getter")
    exn = extract(prog, nd)
    dels = [e for e in exn.events if e.name == "del"]
    ok = len(dels) == 1 and "_ROOT_NODE_NAME" in show(dels[0].args[0]) and show(exn.result) == "P0._data"
    ctx.check(ok, "U2", "Tree.node_data = the data map without the virtual root's entry", nd.where(), "node_data is %s with deletions %s" % (show(exn.result), [show(d.args[0]) for d in dels]), construct=nd.qualname, stmt="node_data")
    # the run loop calls it with the chain's own sampler, tree and tree_dist, only when enabled
    m = prog.fn("run._run_main_sampler")
    cs = calls(m.node, name="update_concentration_value")
    # locals bound once to an attribute of a parameter (`conc_sampler = samplers.conc_sampler`) are spelt out
    alias = {}
    for n in ast.walk(m.node):
        if isinstance(n, ast.Assign) and len(n.targets) == 1 and isinstance(n.targets[0], ast.Name) and isinstance(n.value, ast.Attribute) and isinstance(n.value.value, ast.Name):
            alias.setdefault(n.targets[0].id, []).append(n.value)

    def spelt(a):
        if isinstance(a, ast.Name) and len(alias.get(a.id, [])) == 1:
            a = alias[a.id][0]
        return u(a)

    got_args = [spelt(a) for a in cs[0].args] if len(cs) == 1 and not cs[0].keywords else None
    ok = got_args is not None and len(got_args) == 3 and got_args[0].split(".")[-1] == "conc_sampler" and got_args[0].split(".")[0] in m.params + ["conc_sampler"] and got_args[1:] == ["tree", "tree_dist"]
    if not ok and not cs:
        # not called here by name: through a helper newer than the rules?  then where it is called is not followed
        helpers = [g for g in prog.functions.values() if prog.is_new_function(g) and calls(g.node, name="update_concentration_value")]
        if helpers:
            raise AnalysisError("U2: update_concentration_value is called from %s, not from _run_main_sampler: the call site is not followed" % helpers[0].qualname)
    ctx.check(ok, "U2", "_run_main_sampler updates the concentration of the chain's tree_dist from the current tree", m.where(cs[0]) if cs else m.where(), "update_concentration_value is not called once with (conc_sampler, tree, tree_dist)", construct=m.qualname, stmt="update_concentration_value(conc_sampler, tree, tree_dist)")

    rule_U3(ctx)
    rule_U4(ctx)
    ctx.analysed(f, init, g, nd, m)
    # "the new value is used by every subsequent density evaluation": results memoised under the old value must not
    # be served after the update, i.e. every cache on the proposal path is keyed on the concentration by value
    # (same rule object as C14.K1)
    from ..formula import imported
    from . import C14

    ctx._own_rules = set(ctx.rule_min)
    imported(ctx, C14.rule_K1)


COPIERS = {"dataclasses.astuple", "dataclasses.asdict", "dataclasses.replace", "copy.deepcopy", "copy.copy", "pickle.loads"}


def rule_U4(ctx):
    """"Assignment into the shared prior object": the update reaches every density evaluation only because the chain's
    samplers, kernel and joint distribution all hold *the same* prior object.  A deep copy of any of them between
    set-up and the sweep loop (dataclasses.astuple / asdict recurse with copy.deepcopy; copy.deepcopy; a pickle round
    trip) silently gives the loop private copies that keep the initial value."""
    prog = ctx.prog
    ctx.rule("U4", "the objects that share the prior (samplers, kernel, tree_dist) are passed on by reference in run.py: never through dataclasses.astuple / asdict / replace, copy.copy / deepcopy or a pickle round trip", 1)
    mod = prog.module("phyclone.run")
    shared = ("sampler", "kernel", "tree_dist", "prior")
    n = 0
    for fi in prog.functions.values():
        if fi.module is not mod:
            continue
        for c in calls(fi.node):
            full = c.func.id if isinstance(c.func, ast.Name) else u(c.func)
            target = mod.imports.get(full.split(".")[0], full.split(".")[0]) + full[len(full.split(".")[0]):]
            if target in COPIERS:
                n += 1
                args = [u(a) for a in c.args] + [u(k.value) for k in c.keywords]
                hit = [a for a in args if any(s_ in a for s_ in shared)]
                ctx.check(not hit, "U4", "%s: %s(%s) does not copy an object that shares the prior" % (fi.name, target, ", ".join(args)), fi.where(c), "%s copies %s: the copy holds its own tree distribution / prior, so the concentration assigned by update_concentration_value never reaches the moves that evaluate densities through it" % (target, ", ".join(hit)), construct=fi.qualname, stmt=target + "(shared object)")
    ctx.ok("U4", "run.py: %d copying call(s) inspected" % n, "phyclone/run.py")


def rule_U3(ctx):
    """alpha has one writer, which refreshes log(alpha); the densities read the refreshed value."""
    prog = ctx.prog
    ctx.rule("U3", "alpha has one writer, which refreshes log(alpha)", 3)
    setter = prog.fn("FSCRPDistribution.alpha@setter")
    ex = extract(prog, setter)
    sp = spec(prog, "def s(self, alpha):\n    self._alpha = alpha\n    self.log_alpha = np.log(alpha)\n", setter)
    same_store(ctx, "U3", "alpha setter stores the value", setter, ex, sp, "_alpha")
    same_store(ctx, "U3", "alpha setter refreshes log_alpha = log(alpha)", setter, ex, sp, "log_alpha")
    getter = prog.fn("FSCRPDistribution.alpha@getter")
    exg = extract(prog, getter)
    same(ctx, "U3", "alpha getter returns the stored value", getter, exg.result, spec(prog, "def s(self):\n    return self._alpha\n", getter).result, "alpha")
    # single writer: nothing else in the program stores _alpha or log_alpha
    writers = []
    for fi in prog.functions.values():
        for n in ast.walk(fi.node):
            if isinstance(n, ast.Attribute) and isinstance(n.ctx, (ast.Store, ast.Del)) and n.attr in ("_alpha", "log_alpha"):
                writers.append((fi, n))
    # a private helper of the same class that only the setter calls is part of the setter
    def _setter_helper(fi):
        if fi.cls is None or setter.cls is None or fi.cls is not setter.cls or not fi.name.startswith("_") or fi.name.startswith("__"):
            return False
        callers = [m for m in prog.functions.values() if m is not fi and any(isinstance(c, ast.Call) and isinstance(c.func, ast.Attribute) and c.func.attr == fi.name for c in ast.walk(m.node))]
        return bool(callers) and all(m is setter for m in callers)

    others = [(fi, n) for fi, n in writers if fi is not setter and not _setter_helper(fi)]
    ctx.check(not others, "U3", "only the alpha setter writes _alpha / log_alpha", setter.where(), "also written in %s" % ", ".join("%s (%s)" % (fi.qualname, u(n)) for fi, n in others), construct=(others[0][0].qualname if others else setter.qualname), stmt="single writer")
    # the densities read the refreshed logarithm (not a stale copy)
    crp = prog.fn("FSCRPDistribution._alpha_and_CRP_prior_log_p_compute")
    reads = [n for n in ast.walk(crp.node) if isinstance(n, ast.Attribute) and n.attr in ("log_alpha", "alpha", "_alpha")]
    ctx.check(bool(reads) and all(u(n.value) == "self" for n in reads), "U3", "the CRP term reads the prior's own (refreshed) concentration", crp.where(), "the CRP term does not read self.log_alpha / self.alpha", construct=crp.qualname, stmt="reads log_alpha")
    ctx.analysed(setter, getter, crp)


_C = "phyclone/mcmc/concentration.py"
_R = "phyclone/run.py"
_D = "phyclone/tree/distributions.py"
SELFTEST = [
    {"name": "benign-U1-floor-on-mixture-arm-only", "kind": "benign", "file": _C, "old": "        new_value = max(new_value, 1e-10)  # Catch numerical error\n", "new": "            new_value = max(new_value, 1e-10)  # Catch numerical error\n"},
    {"name": "benign-U1-no-floor", "kind": "benign", "file": _C, "old": "        new_value = max(new_value, 1e-10)  # Catch numerical error\n", "new": ""},
    {"name": "U1-floor-is-one", "kind": "break", "rule": "U1", "file": _C, "old": "new_value = max(new_value, 1e-10)", "new": "new_value = max(new_value, 1.0)"},
    {"name": "U1-beta-a-old", "kind": "break", "rule": "U1", "file": _C, "old": "eta = beta.rvs(a=old_value + 1, b=n, random_state=self._rng)", "new": "eta = beta.rvs(a=old_value, b=n, random_state=self._rng)"},
    {"name": "U1-beta-b-n+1", "kind": "break", "rule": "U1", "file": _C, "old": "eta = beta.rvs(a=old_value + 1, b=n, random_state=self._rng)", "new": "eta = beta.rvs(a=old_value + 1, b=n + 1, random_state=self._rng)"},
    {"name": "U1-shape-a+k", "kind": "break", "rule": "U1", "file": _C, "old": "shape = a + k - 1", "new": "shape = a + k"},
    {"name": "U1-rate-plus-log-eta", "kind": "break", "rule": "U1", "file": _C, "old": "rate = b - np.log(eta)", "new": "rate = b + np.log(eta)"},
    {"name": "U1-pi-is-odds", "kind": "break", "rule": "U1", "file": _C, "old": "pi = x / (1 + x)", "new": "pi = x"},
    {"name": "U1-scale-is-rate", "kind": "break", "rule": "U1", "file": _C, "old": "new_value = gamma.rvs(shape, scale=(1 / rate), random_state=self._rng)", "new": "new_value = gamma.rvs(shape, scale=rate, random_state=self._rng)"},
    {"name": "U1-odds-without-n", "kind": "break", "rule": "U1", "file": _C, "old": "x = shape / (n * rate)", "new": "x = shape / rate"},
    {"name": "U1-k0-arm-scale-b", "kind": "break", "rule": "U1", "file": _C, "old": "new_value = gamma.rvs(self.a, scale=(1 / self.b), random_state=self._rng)", "new": "new_value = gamma.rvs(self.a, scale=self.b, random_state=self._rng)"},
    {"name": "U1-bernoulli-global-rng", "kind": "break", "rule": "U1", "file": _C, "old": "shape += bernoulli.rvs(pi, random_state=self._rng)", "new": "shape += bernoulli.rvs(pi)"},
    {"name": "U2-K-counts-outlier-entry", "kind": "break", "rule": "U2", "file": _R, "old": "        if node == outlier_node_name:\n            continue\n\n        node_sizes.append(len(node_data))", "new": "        node_sizes.append(len(node_data))"},
    {"name": "U2-n-is-K", "kind": "break", "rule": "U2", "file": _R, "old": "conc_sampler.sample(tree_dist.prior.alpha, len(node_sizes), sum(node_sizes))", "new": "conc_sampler.sample(tree_dist.prior.alpha, len(node_sizes), len(node_sizes))"},
    {"name": "U2-result-dropped", "kind": "break", "rule": "U2", "file": _R, "old": "    tree_dist.prior.alpha = conc_sampler.sample(", "new": "    new_alpha = conc_sampler.sample("},
    {"name": "U3-setter-stale-log", "kind": "break", "rule": "U3", "file": _D, "old": "        self._alpha = alpha\n        self.log_alpha = np.log(alpha)", "new": "        self._alpha = alpha"},
    {"name": "U3-second-writer", "kind": "break", "rule": "U3", "file": _R, "old": "    tree_dist.prior.alpha = conc_sampler.sample(", "new": "    tree_dist.prior._alpha = conc_sampler.sample("},
    {"name": "benign-pi-closed-form", "kind": "benign", "file": _C, "old": "            x = shape / (n * rate)\n\n            pi = x / (1 + x)", "new": "            pi = shape / (shape + n * rate)"},
    {"name": "benign-sizes-comprehension", "kind": "benign", "file": _R, "old": "    node_sizes = []\n    outlier_node_name = tree.outlier_node_name\n    for node, node_data in tree.node_data.items():\n        if node == outlier_node_name:\n            continue\n\n        node_sizes.append(len(node_data))\n", "new": "    node_sizes = [len(d) for k, d in tree.node_data.items() if k != tree.outlier_node_name]\n"},
    {"name": "benign-rename-eta", "kind": "benign", "file": _C, "old": "            eta = beta.rvs(a=old_value + 1, b=n, random_state=self._rng)\n\n            shape = a + k - 1\n\n            rate = b - np.log(eta)", "new": "            aux = beta.rvs(b=n, a=1 + old_value, random_state=self._rng)\n\n            shape = k + a - 1\n\n            rate = -np.log(aux) + b"},
    {"name": "benign-scale-as-power", "kind": "benign", "file": _C, "old": "new_value = gamma.rvs(shape, scale=(1 / rate), random_state=self._rng)", "new": "new_value = gamma.rvs(shape, scale=rate ** -1, random_state=self._rng)"},
]
