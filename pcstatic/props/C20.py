"""C20 — an interrupted or truncated trace file is never read as a valid result.

Decided here (structural necessary conditions, DESIGN §4 "C20"):
  F1  one writer, one frame: the trace path of `run.run` is opened for writing only by
      `create_main_run_output`, in a truncating binary mode, and exactly one `pickle.dump` of the
      whole results mapping goes into that one gzip stream, outside any loop; the writer is called
      once, from `run.run`, outside any loop, after the mapping is complete; no other pickling
      writer is reachable from the commands.
  F2  readers are all-or-nothing: each summary command loads the stream with exactly one
      `pickle.load` inside a read-binary frame on its path parameter, outside any loop, binds the
      result once (no fallback value), and neither the load nor any call on the way up to the CLI
      wrapper sits under a handler that catches the truncation errors and carries on.
  FX  the four zero-expected detectors (append mode, dump in a loop, swallowing handler,
      incremental Unpickler loop) are run on embedded positive fixtures on every run.

NOT decided: that `pickle.load` raises on a truncated stream and that `gzip` raises on a truncated
member (trusted base).
"""
import ast

from ..astutil import call_name, calls, dotted, kwarg, last_name, parents, u
from ..model import AnalysisError, Module
from ..paths import enumerate_paths

# --------------------------------------------------------------------------- vocabulary
DUMPS = {
    "pickle.dump", "pickle.dumps", "pickle.Pickler", "_pickle.dump", "_pickle.dumps", "cPickle.dump",
    "dill.dump", "dill.dumps", "cloudpickle.dump", "cloudpickle.dumps", "joblib.dump", "marshal.dump", "marshal.dumps",
}
LOADS = {
    "pickle.load", "pickle.loads", "_pickle.load", "_pickle.loads", "cPickle.load", "dill.load", "dill.loads",
    "cloudpickle.load", "cloudpickle.loads", "joblib.load", "marshal.load", "marshal.loads", "pandas.read_pickle",
}
UNPICKLERS = {"pickle.Unpickler", "_pickle.Unpickler", "dill.Unpickler"}
OPENERS = {
    "open": "plain", "io.open": "plain", "codecs.open": "plain",
    "gzip.open": "gzip", "gzip.GzipFile": "gzip",
    "bz2.open": "bz2", "bz2.BZ2File": "bz2", "lzma.open": "lzma", "lzma.LZMAFile": "lzma",
}
# calls through which a path value passes unchanged
PASS_THROUGH = {"str", "os.fspath", "os.path.abspath", "os.path.realpath", "os.path.expanduser", "os.path.normpath", "pathlib.Path"}
# calls that may receive the trace path without touching the file's content
HARMLESS_SINKS = {"print", "len", "repr", "click.echo", "os.makedirs", "os.path.dirname", "os.path.basename", "os.path.exists", "os.path.isfile", "os.path.join", "os.path.splitext"}
# exception classes raised by pickle/gzip on a short stream, and their ancestors
TRUNCATION_ERRORS = {
    "EOFError", "UnpicklingError", "PickleError", "OSError", "IOError", "EnvironmentError", "BadGzipFile",
    "error", "Exception", "BaseException",
}
LOOPS = (ast.For, ast.AsyncFor, ast.While, ast.ListComp, ast.SetComp, ast.DictComp, ast.GeneratorExp)
READERS = ("write_map_results", "write_consensus_results", "write_topology_report")


def canon(call_or_expr, module):
    """Import-resolved dotted name of a callee (``pk.dump`` with ``import pickle as pk`` -> ``pickle.dump``)."""
    f = call_or_expr.func if isinstance(call_or_expr, ast.Call) else call_or_expr
    d = dotted(f)
    if d is None:
        return None
    root, _, rest = d.partition(".")
    tgt = module.imports.get(root)
    if isinstance(tgt, str):
        d = tgt + ("." + rest if rest else "")
    return d


# --------------------------------------------------------------------------- detectors (pure: AST in, facts out)
def loop_ancestor(node, fnode, pmap):
    """Innermost loop / comprehension of `fnode` that contains `node`, or None."""
    cur = pmap.get(id(node))
    while cur is not None and cur is not fnode:
        if isinstance(cur, LOOPS):
            return cur
        if isinstance(cur, (ast.FunctionDef, ast.AsyncFunctionDef, ast.Lambda)):
            return None
        cur = pmap.get(id(cur))
    return None


def opener_info(call, module):
    """(family, path_expr, mode) of a file-opening call, or None if `call` opens nothing."""
    name = canon(call, module)
    if name not in OPENERS:
        return None
    fam = OPENERS[name]
    fileobj = kwarg(call, "fileobj")
    if fileobj is not None:
        if isinstance(fileobj, ast.Call):
            inner = opener_info(fileobj, module)
            if inner is not None:
                return (fam, inner[1], inner[2])
        raise AnalysisError("opener %s wraps a file object that is not a recognised open(...) call" % u(call))
    path = call.args[0] if call.args else (kwarg(call, "filename") or kwarg(call, "file"))
    mode = call.args[1] if len(call.args) > 1 else kwarg(call, "mode")
    if path is None:
        raise AnalysisError("opener %s has no path argument" % u(call))
    if mode is None:
        m = "rb" if fam != "plain" else "r"
    elif isinstance(mode, ast.Constant) and isinstance(mode.value, str):
        m = mode.value
    else:
        raise AnalysisError("opener %s has a non-literal mode" % u(call))
    return (fam, path, m)


def is_write_mode(mode):
    return any(c in mode for c in "wax+")


def mode_problem(mode):
    """Why a writing mode does not start a fresh single stream (None = it does)."""
    if "a" in mode:
        return "append mode %r: a second run adds a second gzip member / pickle frame behind the first, the readers' single pickle.load never sees it and a cut inside it goes unnoticed" % mode
    if "+" in mode or "r" in mode:
        return "update mode %r does not truncate: stale bytes of an earlier, longer trace survive behind the new frame" % mode
    if "t" in mode:
        return "text mode %r for a pickle stream" % mode
    return None


def dump_sites(fnode, module):
    out = []
    for c in calls(fnode):
        nm = canon(c, module)
        if nm in DUMPS:
            out.append(c)
        elif isinstance(c.func, ast.Attribute) and c.func.attr == "dump" and nm is not None and nm.split(".")[0] not in ("json", "yaml", "toml", "np", "numpy"):
            # <pickler object>.dump(obj)
            out.append(c)
    return out


def load_sites(fnode, module):
    """[(call, stream_expr, via_unpickler)] for every unpickling call in the function."""
    unpicklers = {}
    for st in ast.walk(fnode):
        if isinstance(st, ast.Assign) and isinstance(st.value, ast.Call) and canon(st.value, module) in UNPICKLERS:
            for t in st.targets:
                if isinstance(t, ast.Name):
                    unpicklers[t.id] = st.value
    out = []
    for c in calls(fnode):
        nm = canon(c, module)
        if nm in LOADS:
            stream = c.args[0] if c.args else (kwarg(c, "file") or kwarg(c, "filepath_or_buffer"))
            out.append((c, stream, False))
        elif isinstance(c.func, ast.Attribute) and c.func.attr == "load":
            recv = c.func.value
            mk = None
            if isinstance(recv, ast.Call) and canon(recv, module) in UNPICKLERS:
                mk = recv
            elif isinstance(recv, ast.Name) and recv.id in unpicklers:
                mk = unpicklers[recv.id]
            if mk is not None:
                out.append((c, mk.args[0] if mk.args else kwarg(mk, "file"), True))
    return out


def loader_helper(prog, call, module):
    """If `call` invokes a repository function whose only job is to unpickle a stream and return the loaded object
    (one load site, every return returns the name bound to it or the load call itself), that function; else None."""
    g = resolve_callee(prog, call, module)
    if g is None:
        return None
    ls = load_sites(g.node, g.module)
    if len(ls) != 1:
        return None
    pm = parents(g.node)
    st = pm.get(id(ls[0][0]))
    bound = st.targets[0].id if isinstance(st, ast.Assign) and len(st.targets) == 1 and isinstance(st.targets[0], ast.Name) else None
    rets = [r for r in ast.walk(g.node) if isinstance(r, ast.Return)]
    if not rets:
        return None
    for r in rets:
        if r.value is ls[0][0]:
            continue
        if bound is not None and isinstance(r.value, ast.Name) and r.value.id == bound:
            continue
        return None
    return g


def _exc_names(type_node):
    if type_node is None:
        return ["<bare except>"]
    elts = type_node.elts if isinstance(type_node, ast.Tuple) else [type_node]
    return [(dotted(e) or u(e)) for e in elts]


def _catches_truncation(type_node):
    hit = [n for n in _exc_names(type_node) if n == "<bare except>" or n.split(".")[-1] in TRUNCATION_ERRORS]
    return hit


def _always_fails(body):
    """Every path through a handler body ends by raising or exiting the process."""
    try:
        ps = enumerate_paths(body)
    except AnalysisError:  # break / continue: the handler resumes the enclosing loop
        return False
    for steps, oc in ps:
        if oc == "raise":
            continue
        last = steps[-1].node if steps else None
        if isinstance(last, ast.Expr) and isinstance(last.value, ast.Call) and _failing_exit(last.value):
            continue
        return False
    return bool(ps)


def _zero_status(call):
    """An exit call / SystemExit(...) whose status is the success status: no argument, 0, None or False."""
    if call.keywords and not call.args:
        arg = call.keywords[0].value
    elif call.args:
        arg = call.args[0]
    else:
        return True
    return isinstance(arg, ast.Constant) and arg.value in (0, None, False)


def _failing_exit(call):
    """sys.exit(<non-zero>) / ctx.exit(<non-zero>) / click's ctx.fail(...) / ctx.abort(): the process ends with an error status."""
    d = dotted(call.func) or ""
    name = d.split(".")[-1] if d else (call.func.attr if isinstance(call.func, ast.Attribute) else "")
    if d in ("sys.exit", "exit", "quit", "os._exit") or (name == "exit" and isinstance(call.func, ast.Attribute)):
        return not _zero_status(call)
    if name in ("fail", "abort") and isinstance(call.func, ast.Attribute):
        return True
    return False


def _raises_success(body):
    """A handler path that ends in `raise SystemExit` / `raise SystemExit(0)`: the process exits with status 0."""
    for n in ast.walk(ast.Module(body=list(body), type_ignores=[])):
        if isinstance(n, ast.Raise) and n.exc is not None:
            e = n.exc
            if isinstance(e, ast.Name) and e.id == "SystemExit":
                return True
            if isinstance(e, ast.Call) and (dotted(e.func) or "").split(".")[-1] in ("SystemExit", "Exit") and _zero_status(e):
                return True
    return False


def swallowing_handlers(node, fnode, pmap):
    """Handlers / suppress-blocks of `fnode` that enclose `node`, catch a truncation error and carry on.
    Returns [(construct_node, description)]."""
    out = []
    child = node
    cur = pmap.get(id(node))
    while cur is not None:
        if isinstance(cur, ast.Try) and any(child is s for s in cur.body):
            for h in cur.handlers:
                hit = _catches_truncation(h.type)
                if hit and (not _always_fails(h.body) or _raises_success(h.body)):
                    out.append((h, "except %s: %s" % (", ".join(hit), "; ".join(u(s) for s in h.body)[:80])))
        if isinstance(cur, (ast.With, ast.AsyncWith)) and any(child is s for s in cur.body):
            for it in cur.items:
                ce = it.context_expr
                if isinstance(ce, ast.Call) and (dotted(ce.func) or "").split(".")[-1] == "suppress":
                    hit = [n for a in ce.args for n in _catches_truncation(a)]
                    if hit:
                        out.append((cur, "with suppress(%s)" % ", ".join(hit)))
        if cur is fnode:
            break
        child = cur
        cur = pmap.get(id(cur))
    return out


def with_binding(handle_name, node, fnode, pmap):
    """The (with_stmt, withitem) that binds `handle_name` and whose body contains `node`, or None."""
    child = node
    cur = pmap.get(id(node))
    while cur is not None:
        if isinstance(cur, (ast.With, ast.AsyncWith)) and any(child is s for s in cur.body):
            for it in cur.items:
                if isinstance(it.optional_vars, ast.Name) and it.optional_vars.id == handle_name:
                    return cur, it
        if cur is fnode:
            break
        child = cur
        cur = pmap.get(id(cur))
    return None


def strip_pass_through(expr, module):
    while isinstance(expr, ast.Call) and canon(expr, module) in PASS_THROUGH and len(expr.args) == 1:
        expr = expr.args[0]
    return expr


# --------------------------------------------------------------------------- whole-program helpers
def by_name(prog):
    m = {}
    for fi in prog.functions.values():
        m.setdefault(fi.name, []).append(fi)
    return m


def reachable(prog, roots):
    """Over-approximate who-may-call closure: a function may call every repository function whose
    name it mentions (call, attribute call or bare reference such as a pool.submit target)."""
    names = by_name(prog)
    seen = {}
    todo = list(roots)
    while todo:
        fi = todo.pop()
        if fi.qualname in seen:
            continue
        seen[fi.qualname] = fi
        mentioned = set()
        for n in ast.walk(fi.node):
            if isinstance(n, ast.Name):
                mentioned.add(n.id)
            elif isinstance(n, ast.Attribute):
                mentioned.add(n.attr)
        for nm in mentioned:
            for g in names.get(nm, ()):
                if g.qualname not in seen:
                    todo.append(g)
    return seen


def cli_commands(prog):
    cli = prog.module("phyclone.cli")
    out = [fi for fi in prog.functions.values() if fi.module is cli and fi.parent is None and any(d.startswith("click.command") for d in fi.decorators)]
    if len(out) < 4:
        raise AnalysisError("expected the four click commands in phyclone.cli, found %d" % len(out))
    return out


def resolve_callee(prog, call, module):
    """Repository function a call names (bare name through imports / re-exports, or dotted module path)."""
    d = dotted(call.func)
    if d is None:
        return None
    if "." not in d:
        return prog.resolve_function(d, module)
    full = canon(call, module)
    return prog.functions.get(full) or prog._resolve_dotted_fn(full)


def param_arg(call, callee, pname):
    ps = callee.params
    if pname in ps and ps.index(pname) < len(call.args) and not any(isinstance(a, ast.Starred) for a in call.args):
        return call.args[ps.index(pname)]
    return kwarg(call, pname)


def trace_path_sites(prog, fi, pname, depth=0, seen=None, defined_at=None):
    """Follow the path value held by parameter/local `pname` of `fi`; return the opener sites it reaches:
    [(function, opener_call, family, mode)].  Anything the path flows into that is not a recognised
    opener, repository function, pass-through or harmless sink is an unrecognised shape."""
    seen = seen if seen is not None else set()
    if (fi.qualname, pname) in seen or depth > 4:
        return []
    seen.add((fi.qualname, pname))
    pmap = parents(fi.node)
    sites = []
    for n in ast.walk(fi.node):
        if not (isinstance(n, ast.Name) and n.id == pname):
            continue
        if isinstance(n.ctx, ast.Store):
            if defined_at is not None and n is defined_at:
                continue  # the single assignment that made this local an alias of the path
            raise AnalysisError("%s rebinds the trace path variable %s" % (fi.qualname, pname))
        expr = n
        par = pmap.get(id(expr))
        while isinstance(par, ast.Call) and canon(par, fi.module) in PASS_THROUGH and any(expr is a for a in par.args):
            expr, par = par, pmap.get(id(par))
        if isinstance(par, ast.keyword):
            kw, par = par, pmap.get(id(par))
        else:
            kw = None
        if isinstance(par, (ast.FormattedValue, ast.JoinedStr, ast.Compare, ast.BoolOp, ast.If, ast.IfExp, ast.Assert)):
            continue
        if isinstance(par, ast.Assign) and len(par.targets) == 1 and isinstance(par.targets[0], ast.Name) and par.value is expr:
            sites += trace_path_sites(prog, fi, par.targets[0].id, depth, seen, defined_at=par.targets[0])
            continue
        if isinstance(par, ast.Attribute) and isinstance(pmap.get(id(par)), ast.Call) and par.attr in ("format", "endswith", "startswith"):
            continue
        if not isinstance(par, ast.Call):
            raise AnalysisError("unrecognised use of the trace path in %s: %s" % (fi.qualname, u(par)[:80]))
        call = par
        name = canon(call, fi.module)
        if name in OPENERS:
            fam, path, mode = opener_info(call, fi.module)
            sites.append((fi, call, fam, mode))
            continue
        if isinstance(call.func, ast.Attribute) and call.func.attr == "format":
            continue
        if name in HARMLESS_SINKS or name in PASS_THROUGH:
            continue
        if name in ("os.replace", "os.rename", "shutil.move") and len(call.args) == 2 and call.args[1] is expr and isinstance(call.args[0], ast.Name):
            # written under another name and moved onto the trace path: the openers of that name are the trace's openers
            src = call.args[0].id
            stores = [m for m in ast.walk(fi.node) if isinstance(m, ast.Name) and m.id == src and isinstance(m.ctx, ast.Store)]
            if len(stores) != 1 or src in fi.params:
                raise AnalysisError("%s moves %s onto the trace path, a name bound %d times" % (fi.qualname, src, len(stores)))
            sites += trace_path_sites(prog, fi, src, depth, seen, defined_at=stores[0])
            continue
        if name in ("os.replace", "os.rename", "shutil.move") and len(call.args) == 2 and call.args[0] is expr and defined_at is not None and (fi.qualname, ast.unparse(call.args[1])) in seen:
            continue  # the other end of the move above
        callee = resolve_callee(prog, call, fi.module)
        if callee is None:
            raise AnalysisError("the trace path is handed to %s in %s, which is neither a repository function nor a recognised opener" % (name or u(call.func), fi.qualname))
        if kw is not None:
            target = kw.arg
        else:
            idx = [i for i, a in enumerate(call.args) if a is expr]
            if not idx or idx[0] >= len(callee.params):
                raise AnalysisError("cannot match the trace path argument of %s to a parameter" % u(call)[:80])
            target = callee.params[idx[0]]
        sites += trace_path_sites(prog, callee, target, depth + 1, seen)
    return sites


# --------------------------------------------------------------------------- F3
FRAME_WRITERS = {"to_csv", "to_pickle", "to_json", "to_hdf", "to_parquet", "to_feather", "to_excel", "tofile"}
PATH_WRITERS = {"numpy.save", "numpy.savez", "numpy.savez_compressed", "numpy.savetxt", "shutil.copy", "shutil.copyfile", "shutil.move", "os.rename", "os.replace"}
PATH_READERS = {"pandas.read_csv", "pandas.read_table", "pandas.read_pickle", "pandas.read_json", "pandas.read_parquet", "numpy.load", "numpy.loadtxt", "numpy.genfromtxt"}


def _file_sites(prog, fi, bound, depth=0, seen=None):
    """File reads / writes in `fi` and the repository functions it calls (depth <= 2).  `bound`: local names that
    hold the trace path unchanged.  Yields (function, call, 'r'|'w', path expression, is_trace_path)."""
    seen = seen if seen is not None else set()
    if (fi.qualname, frozenset(bound)) in seen or depth > 2:
        return []
    seen.add((fi.qualname, frozenset(bound)))
    bound = set(bound)
    for n in ast.walk(fi.node):  # aliases of the path through pass-through calls
        if isinstance(n, ast.Assign) and len(n.targets) == 1 and isinstance(n.targets[0], ast.Name):
            v = strip_pass_through(n.value, fi.module)
            if isinstance(v, ast.Name) and v.id in bound:
                bound.add(n.targets[0].id)
    out = []
    moved_in = set()

    def is_trace(e):
        e = strip_pass_through(e, fi.module)
        return isinstance(e, ast.Name) and e.id in bound

    for c in calls(fi.node):
        name = canon(c, fi.module)
        if name in OPENERS:
            fam, path, mode = opener_info(c, fi.module)
            if path is not None:
                out.append((fi, c, "w" if is_write_mode(mode) else "r", path, is_trace(path)))
            continue
        if isinstance(c.func, ast.Attribute) and c.func.attr in FRAME_WRITERS and (c.args or kwarg(c, "path_or_buf") is not None):
            path = c.args[0] if c.args else kwarg(c, "path_or_buf")
            out.append((fi, c, "w", path, is_trace(path)))
            continue
        if name in PATH_WRITERS and c.args:
            if name.startswith(("shutil", "os.")):  # (source, destination): the file that appears is the destination
                if len(c.args) == 2:
                    out.append((fi, c, "w", c.args[1], is_trace(c.args[1])))
                    if is_trace(c.args[1]) and name in ("shutil.move", "os.rename", "os.replace"):
                        moved_in.add(ast.dump(c.args[0]))
                else:
                    out.append((fi, c, "w", c.args[-1], False))
            else:
                out.append((fi, c, "w", c.args[0], is_trace(c.args[0])))
            continue
        if name in PATH_READERS and c.args:
            out.append((fi, c, "r", c.args[0], is_trace(c.args[0])))
            continue
        callee = resolve_callee(prog, c, fi.module)
        if callee is not None and callee.module.name.startswith("phyclone.process_trace"):
            inner = set()
            for i, a in enumerate(c.args):
                if is_trace(a) and i < len(callee.params):
                    inner.add(callee.params[i])
            for k in c.keywords:
                if k.arg and is_trace(k.value):
                    inner.add(k.arg)
            out += _file_sites(prog, callee, inner, depth + 1, seen)
    # write-aside-then-rename: a file written under another name and moved onto the trace path in the same function
    # is the trace itself once the step returns
    out = [(f, c, rw, path, ok or (rw == "w" and f is fi and ast.dump(path) in moved_in)) for f, c, rw, path, ok in out]
    return out


def rule_F3(ctx):
    """One artefact: what a run leaves behind for the summary commands is the single trace stream, so that "the
    trace is whole" (F1/F2: one frame, strict load) means "the result is whole".  A second file written by the
    run's output step, or read by a summary command next to the trace, is a part of the result that no
    truncation check covers: a crash between the two writes leaves a trace every command accepts."""
    prog = ctx.prog
    ctx.rule("F3", "one artefact: the run's output step writes the trace path only; each summary command reads the trace path only", 4)
    writer = prog.fn("create_main_run_output")
    if "out_file" not in writer.params:
        raise AnalysisError("create_main_run_output has no out_file parameter")
    ws = [s for s in _file_sites(prog, writer, {"out_file"}) if s[2] == "w"]
    if not ws:
        raise AnalysisError("create_main_run_output writes no file")
    for fi, c, rw, path, ok in ws:
        ctx.check(ok, "F3", "create_main_run_output: `%s` writes the trace path" % u(c)[:60], fi.where(c), "the run's output step also writes %s: the result is split over two files, and a run interrupted between them leaves a complete-looking trace without its companion" % u(path)[:80], construct=fi.qualname, stmt="second output file")
    for r in READERS:
        f = prog.fn("process_trace." + r)
        if "in_file" not in f.params:
            raise AnalysisError("%s has no in_file parameter" % r)
        rs = [s for s in _file_sites(prog, f, {"in_file"}) if s[2] == "r"]
        if not rs:
            raise AnalysisError("%s reads no file" % r)
        for fi, c, rw, path, ok in rs:
            ctx.check(ok, "F3", "%s: `%s` reads the trace path" % (r, u(c)[:60]), fi.where(c), "the summary command also reads %s: a part of the run's result lives outside the trace stream, where no truncation check applies" % u(path)[:80], construct=fi.qualname, stmt="second input file")
        ctx.analysed(f)
    ctx.analysed(writer)


# --------------------------------------------------------------------------- F1
def rule_F1(ctx):
    prog = ctx.prog
    ctx.rule("F1", "the trace path is written by create_main_run_output only: one truncating gzip stream, one pickle.dump of the whole mapping, no loop; the writer runs once, after all chains", 9)
    run = prog.fn("phyclone.run.run")
    writer = prog.fn("create_main_run_output")
    if "out_file" not in run.params:
        raise AnalysisError("run.run has no out_file parameter (the CLI forwards --out-file by keyword)")
    wmod = writer.module

    # (a) who opens the trace path for writing, and how
    sites = [s for s in trace_path_sites(prog, run, "out_file") if is_write_mode(s[3])]
    reads = [s for s in trace_path_sites(prog, run, "out_file") if not is_write_mode(s[3])]
    if reads:
        raise AnalysisError("run.run's trace path is opened for reading in %s" % reads[0][0].qualname)
    if not sites:
        raise AnalysisError("no call opens run.run's out_file for writing: the trace writer vanished")
    # the writing itself may live in a helper newer than the rules that create_main_run_output calls once, outside any
    # loop (`save_trace_results(results, out_file)`): that helper is then the writer whose frame / dump are judged, and
    # the mapping it dumps is followed back through the one call
    cmro, relay = writer, None
    if len(sites) == 1 and sites[0][0] is not writer and prog.is_new_function(sites[0][0]):
        W = sites[0][0]
        wc = [(fi, c) for fi in prog.functions.values() for c in calls(fi.node) if last_name(c) == W.name and fi is not W]
        if len(wc) == 1 and wc[0][0] is cmro and loop_ancestor(wc[0][1], cmro.node, parents(cmro.node)) is None and not swallowing_handlers(wc[0][1], cmro.node, parents(cmro.node)):
            relay = wc[0][1]
            writer, wmod = W, W.module
    foreign = [s for s in sites if s[0] is not writer]
    ctx.check(not foreign and len(sites) == 1, "F1", "the trace path is opened for writing once, by create_main_run_output", (foreign or sites)[0][0].where((foreign or sites)[0][1]),
              "the trace path is opened for writing %d time(s), in %s: a second writer adds or replaces frames the readers' single load does not account for" % (len(sites), ", ".join(sorted({s[0].qualname for s in sites}))),
              construct=(foreign or sites)[0][0].qualname, stmt="open trace path for writing")
    own = [s for s in sites if s[0] is writer]
    if not own:
        raise AnalysisError("create_main_run_output no longer opens the trace path")
    for fi, call, fam, mode in own:
        why = mode_problem(mode)
        ctx.check(why is None, "F1", "create_main_run_output opens the trace in a truncating binary write mode (%s, %r)" % (fam, mode), fi.where(call), why or "", construct=fi.qualname, stmt="trace open mode")
    ctx.note("trace writer: %s stream, mode %r" % (own[0][2], own[0][3]))

    # (b) exactly one dump of the whole mapping into that stream, (c) outside any loop
    pmap = parents(writer.node)
    dumps = dump_sites(writer.node, wmod)
    if not dumps:
        raise AnalysisError("create_main_run_output contains no recognised pickle.dump call")
    # the mapping parameter: the one run.run feeds from the dict it fills
    wcalls = [(fi, c) for fi in prog.functions.values() for c in calls(fi.node) if last_name(c) == cmro.name and fi is not cmro]
    run_calls = [c for fi, c in wcalls if fi is run]
    good = []
    for d in dumps:
        nm = canon(d, wmod)
        if nm not in ("pickle.dump", "_pickle.dump", "dill.dump", "cloudpickle.dump"):
            raise AnalysisError("create_main_run_output serialises with %s, a shape this check does not model" % (nm or u(d.func)))
        obj = d.args[0] if d.args else kwarg(d, "obj")
        fh = d.args[1] if len(d.args) > 1 else kwarg(d, "file")
        frame = with_binding(fh.id, d, writer.node, pmap) if isinstance(fh, ast.Name) else None
        in_frame = frame is not None and isinstance(frame[1].context_expr, ast.Call) and any(x is s[1] for s in own for x in ast.walk(frame[1].context_expr))
        whole = isinstance(obj, ast.Name) and obj.id in writer.params and not any(
            isinstance(x, ast.Name) and x.id == obj.id and isinstance(x.ctx, ast.Store) for x in ast.walk(writer.node))
        if not in_frame:
            raise AnalysisError("pickle.dump in create_main_run_output does not write to the handle of the `with` frame on the trace path")
        good.append((d, whole, obj))
    ctx.check(len(good) == 1, "F1", "exactly one pickle.dump goes into the trace stream", writer.where(good[-1][0]),
              "%d pickle.dump calls write to the trace stream: the readers' single pickle.load returns only the first frame, so a cut after it is read as a complete (partial) result" % len(good),
              construct=writer.qualname, stmt="pickle.dump count")
    for d, whole, obj in good:
        ctx.check(whole, "F1", "the object dumped is the whole results mapping (a parameter, never rebound)", writer.where(d),
                  "pickle.dump writes %s, not the results mapping the writer receives: the frame holds a part of the run" % u(obj),
                  construct=writer.qualname, stmt="pickle.dump object")
        lp = loop_ancestor(d, writer.node, pmap)
        ctx.check(lp is None, "F1", "pickle.dump is outside every loop", writer.where(d),
                  "pickle.dump sits inside `%s`: the stream holds one frame per pass, a cut between two frames leaves a well-formed shorter trace" % u(lp).split(":")[0][:70] if lp is not None else "",
                  construct=writer.qualname, stmt="pickle.dump in loop")
    outer_param = good[0][2].id if good and good[0][1] else None
    if relay is not None and outer_param is not None:
        a = param_arg(relay, writer, outer_param)
        if not (isinstance(a, ast.Name) and a.id in cmro.params and not any(isinstance(x, ast.Name) and x.id == a.id and isinstance(x.ctx, ast.Store) for x in ast.walk(cmro.node))):
            raise AnalysisError("create_main_run_output hands %s to %s as the mapping to dump; expected its own results parameter" % (u(a) if a is not None else "nothing", writer.name))
        outer_param = a.id
    if good and good[0][1] and len(run_calls) == 1:
        a = param_arg(run_calls[0], cmro, outer_param)
        if not isinstance(a, ast.Name):
            raise AnalysisError("run.run passes %s as the results mapping; expected the local it fills" % (u(a) if a is not None else "nothing"))
        results_var = a.id
    else:
        results_var = None

    # (d) the writer is called once, from run.run, outside any loop, and nothing is added to the mapping afterwards
    rp = parents(run.node)
    ok = len(wcalls) == 1 and len(run_calls) == 1
    ctx.check(ok, "F1", "create_main_run_output has one call site, in run.run", run.where(run_calls[0]) if run_calls else run.where(),
              "create_main_run_output is called from %s: every extra call rewrites the trace path" % (", ".join("%s:%s" % (fi.qualname, c.lineno) for fi, c in wcalls) or "nowhere"),
              construct=run.qualname, stmt="create_main_run_output call sites")
    for c in run_calls:
        lp = loop_ancestor(c, run.node, rp)
        ctx.check(lp is None, "F1", "run.run writes the trace outside every loop (after all chains have reported)", run.where(c),
                  "the trace is written inside `%s`: a run killed between two passes leaves a complete, loadable file that holds only part of the chains" % (u(lp).split(":")[0][:70] if lp is not None else ""),
                  construct=run.qualname, stmt="create_main_run_output in loop")
    if results_var is not None:
        late = []
        for steps, oc in enumerate_paths(run.node.body):
            idx = [i for i, st in enumerate(steps) if st.kind == "stmt" and any(x is run_calls[0] for x in ast.walk(st.node))]
            if not idx:
                continue
            for st in steps[idx[0] + 1:]:
                if st.kind == "stmt" and _stores_into(st.node, results_var):
                    late.append(st.node)
        ctx.check(not late, "F1", "nothing is added to the results mapping after it was written", run.where(late[0]) if late else run.where(run_calls[0]),
                  "`%s` runs after the trace was written: the file on disk misses it" % (u(late[0])[:70] if late else ""),
                  construct=run.qualname, stmt="store after write")

    # (e) no other pickling writer is reachable from the commands
    roots = cli_commands(prog) + [run]
    reach = reachable(prog, roots)
    others = 0
    for fi in prog.functions.values():
        if fi is writer or fi.parent is not None and fi.parent is writer:
            continue
        ds = dump_sites(fi.node, fi.module)
        own_ds = [d for d in ds if _owner(prog, fi, d) is fi]
        if not own_ds:
            continue
        others += 1
        ctx.check(fi.qualname not in reach, "F1", "pickling writer %s is not reachable from any command" % fi.qualname, fi.where(own_ds[0]),
                  "%s pickles to a file and is reachable from the run/summary commands: the trace format has a second writer outside the single-frame gzip discipline" % fi.qualname,
                  construct=fi.qualname, stmt="reachable pickling writer")
    ctx.note("pickling writers outside create_main_run_output: %d (all must be unreachable from the commands)" % others)
    ctx.analysed(run, writer)
    return {"family": own[0][2], "reach": reach, "roots": roots}


def _owner(prog, fi, node):
    """Innermost indexed function containing `node` (so that a nested def is not counted twice)."""
    best = fi
    for g in prog.functions.values():
        if g.parent is fi and any(n is node for n in ast.walk(g.node)):
            best = g
    return best


def _stores_into(stmt, var):
    for n in ast.walk(stmt):
        if isinstance(n, ast.Subscript) and isinstance(n.ctx, (ast.Store, ast.Del)) and isinstance(n.value, ast.Name) and n.value.id == var:
            return True
        if isinstance(n, ast.Call) and isinstance(n.func, ast.Attribute) and isinstance(n.func.value, ast.Name) and n.func.value.id == var and n.func.attr in ("update", "setdefault", "pop", "clear", "popitem"):
            return True
    return False


# --------------------------------------------------------------------------- F2
def _analyse_loader(ctx, prog, anchor, fi, path_params, label):
    """All-or-nothing shape of the load in `fi` (the anchor itself or a helper it calls)."""
    mod = fi.module
    pmap = parents(fi.node)
    ls = load_sites(fi.node, mod)
    bad_kind = [c for c, s, v in ls if canon(c, mod) not in ("pickle.load", "_pickle.load", "dill.load", "cloudpickle.load") and not v]
    if bad_kind:
        raise AnalysisError("%s deserialises with %s, a shape this check does not model" % (fi.qualname, canon(bad_kind[0], mod)))
    # (1) one load inside a read-binary frame on the path parameter
    ok = len(ls) == 1
    why = "%d unpickling calls in %s: a reader that loads more than once assembles its result from separate frames" % (len(ls), fi.qualname)
    fam = None
    if ok:
        c, stream, via = ls[0]
        frame = with_binding(stream.id, c, fi.node, pmap) if isinstance(stream, ast.Name) else None
        opener_call = frame[1].context_expr if frame is not None and isinstance(frame[1].context_expr, ast.Call) else None
        if opener_call is None and isinstance(stream, ast.Name):
            # `fh = OPEN(path, "rb")` bound once and closed by hand (try ... finally: fh.close()): the same stream
            binds = [n for n in ast.walk(fi.node) if isinstance(n, ast.Assign) and any(isinstance(t, ast.Name) and t.id == stream.id for t in n.targets)]
            if len(binds) == 1 and isinstance(binds[0].value, ast.Call) and binds[0].lineno < c.lineno:
                opener_call = binds[0].value
        if opener_call is None or opener_info(opener_call, mod) is None:
            raise AnalysisError("the stream read by %s in %s is not the handle of an enclosing `with <opener>(...)`" % (u(c), fi.qualname))
        fam, path, mode = opener_info(opener_call, mod)
        path = strip_pass_through(path, mod)
        if not (isinstance(path, ast.Name) and path.id in path_params):
            raise AnalysisError("%s opens %s, which is not its trace-path parameter" % (fi.qualname, u(path)))
        ok = not is_write_mode(mode) and "b" in mode
        why = "the trace is opened in mode %r; the readers must open it read-only, binary" % mode
    ctx.check(ok, "F2", "%s: one pickle.load inside a read-binary frame on the path parameter" % label, fi.where(ls[0][0]) if ls else fi.where(), why, construct=fi.qualname, stmt="pickle.load frame")
    # (2) not incremental
    for c, stream, via in ls:
        lp = loop_ancestor(c, fi.node, pmap)
        ctx.check(lp is None, "F2", "%s: the load is outside every loop (no incremental Unpickler)" % label, fi.where(c),
                  "`%s` runs inside `%s`: frames are collected one by one, so whatever loaded before the cut is used" % (u(c)[:50], u(lp).split(":")[0][:60] if lp is not None else ""),
                  construct=fi.qualname, stmt="load in loop")
    # (3) no swallowing handler around the load
    sw = [x for c, s, v in ls for x in swallowing_handlers(c, fi.node, pmap)]
    ctx.check(not sw, "F2", "%s: no handler around the load catches a truncation error and carries on" % label, fi.where(sw[0][0]) if sw else fi.where(),
              "the load sits under `%s`: a truncated stream no longer stops the command" % (sw[0][1] if sw else ""), construct=fi.qualname, stmt="handler around load")
    return fam, ls


def _single_binding(ctx, fi, value_node, label, already_failed=False):
    """The statement binding the loaded mapping; every other binding of that name must derive from it."""
    pmap = parents(fi.node)
    st = pmap.get(id(value_node))
    if isinstance(st, ast.Return):
        return None
    if not (isinstance(st, ast.Assign) and len(st.targets) == 1 and isinstance(st.targets[0], ast.Name) and st.value is value_node):
        if already_failed:  # the load itself is already reported; its value is merged into something else instead of being bound
            ctx.fail("F2", "%s: the loaded trace is bound by the load only (no fallback value)" % label, fi.where(value_node),
                     "the loaded object is consumed by `%s` instead of being bound once" % (u(st)[:70] if st is not None else "?"),
                     construct=fi.qualname, stmt="fallback binding of loaded trace")
            return None
        raise AnalysisError("%s: the loaded trace is neither bound to a plain name nor returned (%s)" % (fi.qualname, u(st)[:80] if st is not None else "?"))
    name = st.targets[0].id
    others = []
    for n in ast.walk(fi.node):
        tgts = []
        if isinstance(n, ast.Assign) and n is not st:
            tgts = [(t, n.value) for t in n.targets]
        elif isinstance(n, (ast.AnnAssign, ast.AugAssign)) and n.value is not None:
            tgts = [(n.target, n.value)]
        elif isinstance(n, ast.NamedExpr):
            tgts = [(n.target, n.value)]
        for t, v in tgts:
            for x in ast.walk(t):
                if isinstance(x, ast.Name) and x.id == name and isinstance(x.ctx, ast.Store):
                    if not any(isinstance(y, ast.Name) and y.id == name for y in ast.walk(v)):
                        others.append(n)
    ctx.check(not others, "F2", "%s: `%s` is bound by the load only (no fallback value)" % (label, name), fi.where(others[0]) if others else fi.where(st),
              "`%s` also binds %s: when the load does not deliver, the command goes on with that value" % (u(others[0])[:70] if others else "", name),
              construct=fi.qualname, stmt="fallback binding of loaded trace")
    return name


def decorator_wrappers(prog, fi):
    """Repository functions applied as decorators to `fi` (bare `@name` or a factory call `@name(...)`)."""
    out = []
    for d in fi.node.decorator_list:
        e = d.func if isinstance(d, ast.Call) else d
        name = dotted(e)
        if name is None:
            continue
        g = prog.resolve_function(name, fi.module) if "." not in name else (prog.functions.get(canon(ast.Call(func=e, args=[], keywords=[]), fi.module)) or None)
        if g is not None:
            out.append((d, g))
    return out


def wrapped_calls(g):
    """Calls inside decorator `g` (and its nested functions) to one of its own parameters: the wrapped command."""
    params = set()
    for n in ast.walk(g.node):
        if isinstance(n, (ast.FunctionDef, ast.AsyncFunctionDef, ast.Lambda)):
            a = n.args
            params |= {x.arg for x in a.posonlyargs + a.args + a.kwonlyargs}
    return [c for c in calls(g.node) if isinstance(c.func, ast.Name) and c.func.id in params]


def check_decorators(ctx, prog, fi, label):
    """No repository decorator on `fi` calls the decorated command under a handler that swallows a truncation error."""
    n = 0
    for d, g in decorator_wrappers(prog, fi):
        pm = parents(g.node)
        for c in wrapped_calls(g):
            n += 1
            sw = swallowing_handlers(c, g.node, pm)
            ctx.check(not sw, "F2", "%s: decorator %s runs the command outside any handler that swallows a truncation error" % (label, g.name), g.where(sw[0][0]) if sw else g.where(c),
                      "decorator `%s` on `%s` runs the command under `%s`: the command ends with the success status (or goes on) although the trace could not be read" % (g.name, fi.name, sw[0][1] if sw else ""),
                      construct=g.qualname, stmt="handler in decorator of %s" % fi.name)
    return n


def rule_F2(ctx, f1):
    prog = ctx.prog
    ctx.rule("F2", "every summary command loads the trace with one pickle.load in a read-binary frame, outside loops, binds it once, and no handler from the load up to the CLI wrapper swallows a truncation error", 15)
    reach = reachable(prog, cli_commands(prog))
    covered = set()
    fams = set()
    for name in READERS:
        anchor = prog.fn(name)
        mod = anchor.module
        label = name
        if not anchor.params:
            raise AnalysisError("%s has no parameters" % name)
        if "in_file" not in anchor.params:
            raise AnalysisError("%s has no in_file parameter (the CLI forwards --in-file by keyword)" % name)
        chain = []  # (function, node of the call / load inside it) from the anchor down to the load
        ls = load_sites(anchor.node, mod)
        if ls:
            loader, path_params = anchor, {"in_file"}
            value_node = ls[0][0]
        else:
            loader = None
            for c in calls(anchor.node):
                g = resolve_callee(prog, c, mod)
                if g is not None and load_sites(g.node, g.module):
                    pp = set()
                    for i, a in enumerate(c.args):
                        a = strip_pass_through(a, mod)
                        if isinstance(a, ast.Name) and a.id == "in_file" and i < len(g.params):
                            pp.add(g.params[i])
                    for k in c.keywords:
                        a = strip_pass_through(k.value, mod)
                        if isinstance(a, ast.Name) and a.id == "in_file":
                            pp.add(k.arg)
                    if not pp:
                        raise AnalysisError("%s calls the loader %s without its in_file" % (name, g.qualname))
                    if loader is not None:
                        raise AnalysisError("%s calls more than one loading helper" % name)
                    loader, path_params, value_node = g, pp, c
            if loader is None:
                raise AnalysisError("%s no longer loads the trace (no pickle.load in it or in a helper it calls)" % name)
            label = "%s via %s" % (name, loader.name)
            # the helper must hand back exactly what it loaded
            hl = load_sites(loader.node, loader.module)
            hp = parents(loader.node)
            hb = _single_binding(ctx, loader, hl[0][0], label) if len(hl) == 1 else None
            rets = [r for r in ast.walk(loader.node) if isinstance(r, ast.Return)]
            okret = len(hl) == 1 and rets and all(r.value is not None and (r.value is hl[0][0] or (hb is not None and isinstance(r.value, ast.Name) and r.value.id == hb)) for r in rets)
            if not okret:
                raise AnalysisError("loading helper %s does not simply return the loaded object" % loader.qualname)
            sw = swallowing_handlers(value_node, anchor.node, parents(anchor.node))
            ctx.check(not sw, "F2", "%s: no handler around the helper call swallows a truncation error" % label, anchor.where(sw[0][0]) if sw else anchor.where(value_node),
                      "the loading call sits under `%s`" % (sw[0][1] if sw else ""), construct=anchor.qualname, stmt="handler around load")
        before = len(ctx.violations) + len(ctx.known_hits)
        fam, lsites = _analyse_loader(ctx, prog, anchor, loader, path_params, label)
        if fam:
            fams.add(fam)
        covered.add(loader.qualname)
        # (4) bound once in the anchor
        _single_binding(ctx, anchor, value_node, name, already_failed=len(ctx.violations) + len(ctx.known_hits) > before)
        # (5) callers up to the CLI wrapper
        n_sites = 0
        todo, seen = [(anchor, 0)], set()
        while todo:
            callee, depth = todo.pop()
            if callee.qualname in seen or depth > 3:
                continue
            seen.add(callee.qualname)
            check_decorators(ctx, prog, callee, name)
            for fi in prog.functions.values():
                if fi is callee:
                    continue
                for c in calls(fi.node):
                    if last_name(c) != callee.name or _owner(prog, fi, c) is not fi:
                        continue
                    tgt = resolve_callee(prog, c, fi.module)
                    if tgt is not callee:
                        continue
                    n_sites += 1
                    sw = swallowing_handlers(c, fi.node, parents(fi.node))
                    ctx.check(not sw, "F2", "%s → %s: the call is not under a handler that swallows a truncation error" % (fi.qualname.split(".", 1)[-1], callee.name), fi.where(c),
                              "`%s` is called under `%s`: the command reports success (or goes on) although the trace could not be read" % (callee.name, sw[0][1] if sw else ""),
                              construct=fi.qualname, stmt="handler around %s" % callee.name)
                    todo.append((fi, depth + 1))
        if n_sites == 0:
            raise AnalysisError("%s has no caller: the CLI wrapper vanished" % name)
        ctx.analysed(anchor, loader)
    # census: every unpickling function the summary commands can reach was analysed above
    for fi in prog.functions.values():
        if load_sites(fi.node, fi.module) and any(_owner(prog, fi, c) is fi for c, s, v in load_sites(fi.node, fi.module)):
            if fi.qualname in covered:
                continue
            if fi.qualname in reach or fi.qualname in f1["reach"]:
                raise AnalysisError("%s unpickles a file and is reachable from a command, but is not one of the analysed readers" % fi.qualname)
            ctx.note("unpickling helper %s is not reachable from any command (not on the trace path)" % fi.qualname)
    if fams and fams != {f1["family"]}:
        ctx.note("writer stream family %s, reader families %s" % (f1["family"], sorted(fams)))


# --------------------------------------------------------------------------- FX: embedded positive fixtures
FIXTURES = '''
import contextlib
import gzip
import pickle
import pickle as pk
from pickle import Unpickler


def fx_append_mode(out_file, results):
    with gzip.GzipFile(out_file, mode="ab") as fh:
        pickle.dump(results, fh)


def fx_update_mode(out_file, results):
    with open(out_file, "r+b") as fh:
        pickle.dump(results, fh)


def fx_dump_in_loop(out_file, results):
    with gzip.open(out_file, "wb") as fh:
        for chain, res in results.items():
            pk.dump({chain: res}, fh)


def fx_swallow_eof(in_file):
    try:
        with gzip.GzipFile(in_file, "rb") as fh:
            results = pickle.load(fh)
    except EOFError:
        results = {}
    return results


def fx_swallow_bare(in_file):
    with gzip.GzipFile(in_file, "rb") as fh:
        try:
            results = pickle.load(fh)
        except:
            print("could not read", in_file)
            return None
    return results


def fx_swallow_suppress(in_file):
    results = None
    with contextlib.suppress(OSError, pickle.UnpicklingError):
        with gzip.GzipFile(in_file, "rb") as fh:
            results = pickle.load(fh)
    return results


def fx_reraise_is_fine(in_file):
    try:
        with gzip.GzipFile(in_file, "rb") as fh:
            results = pickle.load(fh)
    except EOFError as e:
        raise RuntimeError("truncated trace") from e
    return results


def fx_unpickler_loop(in_file):
    results = {}
    with gzip.GzipFile(in_file, "rb") as fh:
        unpickler = Unpickler(fh)
        while True:
            try:
                results.update(unpickler.load())
            except EOFError:
                break
    return results
'''


def rule_FX(ctx):
    ctx.rule("FX", "embedded positive fixtures: each zero-expected detector (append/update mode, dump in loop, swallowing handler, Unpickler loop) flags its fixture and spares the negative one", 10)
    mod = Module("pcstatic_fixture", "<C20 fixtures>", FIXTURES)
    fns = {n.name: n for n in mod.tree.body if isinstance(n, ast.FunctionDef)}

    def need(cond, name, what):
        if not cond:
            raise AnalysisError("detector self-check failed on fixture %s: %s" % (name, what))
        ctx.ok("FX", "%s: %s" % (name, what), "<fixture>")

    for name, frag in (("fx_append_mode", "append"), ("fx_update_mode", "update")):
        f = fns[name]
        ops = [opener_info(c, mod) for c in calls(f) if opener_info(c, mod)]
        need(len(ops) == 1 and is_write_mode(ops[0][2]) and frag in (mode_problem(ops[0][2]) or ""), name, "%s mode is flagged" % frag)
    need(mode_problem("wb") is None and mode_problem("xb") is None and mode_problem("w") is None, "modes", "truncating write modes are accepted")
    f = fns["fx_dump_in_loop"]
    ds = dump_sites(f, mod)
    need(len(ds) == 1 and loop_ancestor(ds[0], f, parents(f)) is not None, "fx_dump_in_loop", "dump inside a loop is flagged (through an import alias)")
    f = fns["fx_append_mode"]
    ds = dump_sites(f, mod)
    need(len(ds) == 1 and loop_ancestor(ds[0], f, parents(f)) is None, "fx_append_mode", "a dump outside loops is not flagged as looped")
    for name in ("fx_swallow_eof", "fx_swallow_bare", "fx_swallow_suppress"):
        f = fns[name]
        ls = load_sites(f, mod)
        need(len(ls) == 1 and len(swallowing_handlers(ls[0][0], f, parents(f))) == 1, name, "swallowing handler is flagged")
    f = fns["fx_reraise_is_fine"]
    ls = load_sites(f, mod)
    need(len(ls) == 1 and not swallowing_handlers(ls[0][0], f, parents(f)), "fx_reraise_is_fine", "a handler that re-raises is not flagged")
    f = fns["fx_unpickler_loop"]
    ls = load_sites(f, mod)
    need(len(ls) == 1 and ls[0][2] and loop_ancestor(ls[0][0], f, parents(f)) is not None and swallowing_handlers(ls[0][0], f, parents(f)), "fx_unpickler_loop", "incremental Unpickler loop is flagged (load in loop, EOFError -> break)")


def rule_P0(ctx):
    """Pre-pass with the four detectors over the anchor modules (trace writer / readers / run): the forbidden
    constructs are reported wherever they appear, whatever shape the surrounding function has taken."""
    prog = ctx.prog
    ctx.rule("P0", "anchor modules contain no pickle frame written in a loop, no append / update / computed open mode on a pickling writer, no unpickling in a loop and no handler that swallows a load failure", 4)
    mods = [prog.module("phyclone.process_trace.process_trace"), prog.module("phyclone.run")]
    for m in mods:
        for fi in [f for f in prog.functions.values() if f.module is m and f.parent is None]:
            pmap = parents(fi.node)
            dumps = dump_sites(fi.node, m)
            loads = load_sites(fi.node, m)
            if not dumps and not loads:
                continue
            label = fi.qualname.split("phyclone.")[-1]
            for c in dumps:
                lp = loop_ancestor(c, fi.node, pmap)
                ctx.check(lp is None, "P0", "%s: %s is not inside a loop" % (label, u(c)[:50]), fi.where(c),
                          "a pickle frame is written per loop pass (%s): the file becomes a sequence of records, and a prefix that ends at a record boundary is a well-formed shorter trace" % u(lp)[:70].split("\n")[0] if lp is not None else "", construct=fi.qualname, stmt="dump in loop")
            for c in [x for x in calls(fi.node)]:
                try:
                    info = opener_info(c, m)
                except AnalysisError as e:
                    if dumps:
                        ctx.fail("P0", "%s: open mode of %s" % (label, u(c)[:50]), fi.where(c), "the mode of a writer's opener is computed (%s): it can append to an existing stream, so the file can hold several members / frames and a cut between them reads as a complete shorter trace" % str(e)[:120], construct=fi.qualname, stmt="computed open mode")
                    continue
                if info is None or not dumps:
                    continue
                fam, path, mode = info
                if is_write_mode(mode):
                    prob = mode_problem(mode)
                    ctx.check(prob is None, "P0", "%s: %s opens a fresh single stream" % (label, u(c)[:50]), fi.where(c), prob or "", construct=fi.qualname, stmt="open mode")
            for c, stream, via in loads:
                lp = loop_ancestor(c, fi.node, pmap)
                ctx.check(lp is None, "P0", "%s: %s is not inside a loop" % (label, u(c)[:50]), fi.where(c),
                          "the trace is unpickled record by record in a loop: whatever records load before the stream ends are kept, so a truncated file yields a partial trace instead of an error", construct=fi.qualname, stmt="load in loop")
                hs = swallowing_handlers(c, fi.node, pmap)
                ctx.check(not hs, "P0", "%s: no handler swallows a failure of %s" % (label, u(c)[:40]), fi.where(hs[0][0]) if hs else fi.where(c),
                          "a truncated stream raises here, but %s catches it and carries on" % (hs[0][1] if hs else ""), construct=fi.qualname, stmt="swallowing handler")
            ctx.analysed(fi)


def run(ctx):
    ctx.assume("pickle.load raises on a truncated pickle stream; gzip raises EOFError/BadGzipFile on a truncated or corrupt member (trusted base, not decided here)")
    ctx.assume("who-may-call is over-approximated by name: a function may call every repository function whose name it mentions")
    ctx.soft(rule_FX)
    ctx.soft(rule_P0)
    f1 = ctx.soft(rule_F1)
    ctx.soft(rule_F2, f1)
    ctx.soft(rule_F3)
    # the readers read the file they are pointed at, every time: a memoised reader keyed on the path summarises a
    # trace that has since been truncated or rewritten from memory (same rule object as C14.K1, clause (a))
    from ..formula import imported
    from . import C14

    ctx._own_rules = set(ctx.rule_min)
    imported(ctx, C14.rule_K1)


# --------------------------------------------------------------------------- self-test catalogue
_PT = "phyclone/process_trace/process_trace.py"
_RUN = "phyclone/run.py"
_CLI = "phyclone/cli.py"
_W_OLD = "    with gzip.GzipFile(out_file, mode=\"wb\") as fh:\n        pickle.dump(results, fh)\n"
_MAP_OLD = "    with gzip.GzipFile(in_file, \"rb\") as fh:\n        results = pickle.load(fh)\n\n    data = results[0][\"data\"]\n\n    chain_num = 0\n"
_CONS_OLD = "    with gzip.GzipFile(in_file, \"rb\") as fh:\n        results = pickle.load(fh)\n\n    data = results[0][\"data\"]\n\n    trees = []\n"
_TOP_OLD = "    with gzip.GzipFile(in_file, \"rb\") as fh:\n        results = pickle.load(fh)\n\n    print(\"\\nExtracting unique topologies from sample trace.\")\n"
SELFTEST = [
    {"name": "K1-memoised-trace-loader", "kind": "break", "rule": "K1", "edits": [
        {"file": _PT, "old": "import gzip\nimport pickle\n", "new": "import gzip\nimport pickle\nfrom functools import lru_cache\n"},
        {"file": _PT, "old": "def create_topology_dict_from_trace(trace):\n", "new": "@lru_cache(maxsize=1)\ndef _load_trace(in_file):\n    with gzip.GzipFile(in_file, \"rb\") as fh:\n        return pickle.load(fh)\n\n\ndef create_topology_dict_from_trace(trace):\n"}]},
    {"name": "F3-cluster-table-in-a-second-file", "kind": "break", "rule": "F3", "file": _PT, "old": _W_OLD, "new": _W_OLD + "    if cluster_file is not None:\n        pd.read_csv(cluster_file, sep=\"\\t\").to_csv(\"{}.clusters.tsv\".format(out_file), sep=\"\\t\")\n"},
    {"name": "F3-reader-takes-data-from-a-sidecar", "kind": "break", "rule": "F3", "file": _PT, "old": _MAP_OLD, "new": _MAP_OLD.replace("    data = results[0][\"data\"]\n", "    data = results[0][\"data\"]\n    if os.path.exists(in_file + \".clusters.tsv\"):\n        results[0][\"clusters\"] = pd.read_csv(in_file + \".clusters.tsv\", sep=\"\\t\")\n")},
    {"name": "benign-F3-path-through-str", "kind": "benign", "file": _PT, "old": _W_OLD, "new": "    target = str(out_file)\n    with gzip.GzipFile(target, mode=\"wb\") as fh:\n        pickle.dump(results, fh)\n"},
    {"name": "F3-previous-trace-moved-aside-while-writing", "kind": "break", "rule": "F3", "edits": [
        {"file": _PT, "old": "import gzip\nimport pickle\n", "new": "import gzip\nimport os\nimport pickle\n"},
        {"file": _PT, "old": _W_OLD, "new": "    if os.path.exists(out_file):\n        os.replace(out_file, str(out_file) + \".bak\")\n" + _W_OLD}]},
    {"name": "benign-F3-written-aside-then-renamed", "kind": "benign", "edits": [
        {"file": _PT, "old": "import gzip\nimport pickle\n", "new": "import gzip\nimport os\nimport pickle\n"},
        {"file": _PT, "old": _W_OLD, "new": "    partial = \"{}.partial\".format(out_file)\n    with gzip.GzipFile(partial, mode=\"wb\") as fh:\n        pickle.dump(results, fh)\n    os.replace(partial, out_file)\n"}]},
    # ---- breaking: writer
    {"name": "F1-dump-per-chain-in-loop", "kind": "break", "rule": "F1", "file": _PT, "old": _W_OLD,
     "new": "    with gzip.GzipFile(out_file, mode=\"wb\") as fh:\n        for chain_num, chain_result in results.items():\n            pickle.dump({chain_num: chain_result}, fh)\n"},
    {"name": "F1-append-mode", "kind": "break", "rule": "F1", "file": _PT, "old": "gzip.GzipFile(out_file, mode=\"wb\")", "new": "gzip.GzipFile(out_file, mode=\"ab\")"},
    {"name": "F1-update-mode-no-truncate", "kind": "break", "rule": "F1", "file": _PT, "old": "gzip.GzipFile(out_file, mode=\"wb\")", "new": "gzip.GzipFile(fileobj=open(out_file, \"r+b\"), mode=\"wb\")"},
    {"name": "F1-header-frame-then-results", "kind": "break", "rule": "F1", "file": _PT, "old": _W_OLD,
     "new": "    with gzip.GzipFile(out_file, mode=\"wb\") as fh:\n        pickle.dump(len(results), fh)\n        pickle.dump(results, fh)\n"},
    {"name": "F1-dump-first-chain-only", "kind": "break", "rule": "F1", "file": _PT, "old": "        pickle.dump(results, fh)\n", "new": "        pickle.dump(results[0], fh)\n"},
    {"name": "F1-checkpoint-after-each-chain", "kind": "break", "rule": "F1", "file": _RUN,
     "old": "                    results[res_chain] = result\n", "new": "                    results[res_chain] = result\n                    create_main_run_output(cluster_file, out_file, results)\n"},
    {"name": "F1-write-moved-into-completion-loop", "kind": "break", "rule": "F1", "file": _RUN,
     "old": "                    print(\"Finished chain\", res_chain)\n\n    create_main_run_output(cluster_file, out_file, results)\n",
     "new": "                    print(\"Finished chain\", res_chain)\n                    create_main_run_output(cluster_file, out_file, results)\n    if num_chains == 1:\n        create_main_run_output(cluster_file, out_file, results)\n"},
    {"name": "F1-second-writer-on-trace-path", "kind": "break", "rule": "F1", "file": _RUN,
     "old": "    create_main_run_output(cluster_file, out_file, results)\n", "new": "    create_main_run_output(cluster_file, out_file, results)\n    with open(out_file, \"ab\") as extra:\n        extra.write(b\"\")\n"},
    {"name": "F1-write_pickle-reachable", "kind": "break", "rule": "F1", "file": _RUN,
     "old": "    create_main_run_output(cluster_file, out_file, results)\n", "new": "    create_main_run_output(cluster_file, out_file, results)\n    from phyclone.utils.utils import write_pickle\n    write_pickle(results, str(cluster_file) + \".bak\")\n"},
    {"name": "F1-chain-added-after-write", "kind": "break", "rule": "F1", "file": _RUN,
     "old": "    create_main_run_output(cluster_file, out_file, results)\n", "new": "    create_main_run_output(cluster_file, out_file, results)\n    results[len(results)] = dict(results[0])\n"},
    # ---- breaking: readers
    {"name": "F2-map-except-EOFError-empty", "kind": "break", "rule": "F2", "file": _PT, "old": _MAP_OLD,
     "new": "    try:\n        with gzip.GzipFile(in_file, \"rb\") as fh:\n            results = pickle.load(fh)\n    except EOFError:\n        results = {0: {\"data\": [], \"samples\": [], \"trace\": []}}\n\n    data = results[0][\"data\"]\n\n    chain_num = 0\n"},
    {"name": "F2-topology-unpickler-loop", "kind": "break", "rule": "F2", "file": _PT, "old": _TOP_OLD,
     "new": "    results = {}\n    with gzip.GzipFile(in_file, \"rb\") as fh:\n        unpickler = pickle.Unpickler(fh)\n        while True:\n            try:\n                results.update(unpickler.load())\n            except EOFError:\n                break\n\n    print(\"\\nExtracting unique topologies from sample trace.\")\n"},
    {"name": "F2-consensus-except-Exception-return", "kind": "break", "rule": "F2", "file": _PT, "old": _CONS_OLD,
     "new": "    with gzip.GzipFile(in_file, \"rb\") as fh:\n        try:\n            results = pickle.load(fh)\n        except Exception:\n            print(\"could not read trace\")\n            return\n\n    data = results[0][\"data\"]\n\n    trees = []\n"},
    {"name": "F2-consensus-suppress", "kind": "break", "rule": "F2", "file": _PT, "old": _CONS_OLD,
     "new": "    import contextlib\n\n    results = {}\n    with contextlib.suppress(OSError, EOFError):\n        with gzip.GzipFile(in_file, \"rb\") as fh:\n            results = pickle.load(fh)\n\n    data = results[0][\"data\"]\n\n    trees = []\n"},
    {"name": "F2-map-default-then-try-pass", "kind": "break", "rule": "F2", "file": _PT, "old": _MAP_OLD,
     "new": "    results = {}\n    with gzip.GzipFile(in_file, \"rb\") as fh:\n        try:\n            results = pickle.load(fh)\n        except (pickle.UnpicklingError, OSError):\n            pass\n\n    data = results[0][\"data\"]\n\n    chain_num = 0\n"},
    {"name": "F2-cli-wrapper-swallows", "kind": "break", "rule": "F2", "file": _CLI, "old": "    write_map_results(**kwargs)\n",
     "new": "    try:\n        write_map_results(**kwargs)\n    except Exception as e:\n        print(\"warning:\", e)\n"},
    {"name": "F2-cli-decorator-exits-zero", "kind": "break", "rule": "F2", "edits": [
        {"file": _CLI, "old": '# =========================================================================\n# Consensus Tree Output\n', "new": 'def quiet_on_bad_trace(command):\n    def wrapper(**kwargs):\n        try:\n            command(**kwargs)\n        except (EOFError, OSError) as err:\n            click.echo("Error: unreadable trace ({})".format(err), err=True)\n            click.get_current_context().exit()\n\n    wrapper.__name__ = command.__name__\n    wrapper.__doc__ = command.__doc__\n    return wrapper\n\n\n# =========================================================================\n# Consensus Tree Output\n'},
        {"file": _CLI, "old": "def map(**kwargs):", "new": "@quiet_on_bad_trace\ndef map(**kwargs):"}]},
    {"name": "benign-cli-decorator-exits-nonzero", "kind": "benign", "edits": [
        {"file": _CLI, "old": '# =========================================================================\n# Consensus Tree Output\n', "new": 'def quiet_on_bad_trace(command):\n    def wrapper(**kwargs):\n        try:\n            command(**kwargs)\n        except (EOFError, OSError) as err:\n            click.echo("Error: unreadable trace ({})".format(err), err=True)\n            click.get_current_context().exit(2)\n\n    wrapper.__name__ = command.__name__\n    wrapper.__doc__ = command.__doc__\n    return wrapper\n\n\n# =========================================================================\n# Consensus Tree Output\n'},
        {"file": _CLI, "old": "def map(**kwargs):", "new": "@quiet_on_bad_trace\ndef map(**kwargs):"}]},
    {"name": "benign-cli-decorator-raises-click-exception", "kind": "benign", "edits": [
        {"file": _CLI, "old": '# =========================================================================\n# Consensus Tree Output\n', "new": 'def quiet_on_bad_trace(command):\n    def wrapper(**kwargs):\n        try:\n            command(**kwargs)\n        except (EOFError, OSError) as err:\n            click.echo("Error: unreadable trace ({})".format(err), err=True)\n            raise click.ClickException("unreadable trace")\n\n    wrapper.__name__ = command.__name__\n    wrapper.__doc__ = command.__doc__\n    return wrapper\n\n\n# =========================================================================\n# Consensus Tree Output\n'},
        {"file": _CLI, "old": "def map(**kwargs):", "new": "@quiet_on_bad_trace\ndef map(**kwargs):"}]},
    {"name": "F2-topology-two-loads-merged", "kind": "break", "rule": "F2", "file": _PT, "old": _TOP_OLD,
     "new": "    with gzip.GzipFile(in_file, \"rb\") as fh:\n        results = pickle.load(fh)\n        if fh.peek(1):\n            results.update(pickle.load(fh))\n\n    print(\"\\nExtracting unique topologies from sample trace.\")\n"},
    {"name": "F2-map-fallback-binding-in-else", "kind": "break", "rule": "F2", "file": _PT, "old": _MAP_OLD,
     "new": "    import os\n\n    if os.path.getsize(in_file) > 0:\n        with gzip.GzipFile(in_file, \"rb\") as fh:\n            results = pickle.load(fh)\n    else:\n        results = {0: {\"data\": [], \"samples\": [], \"trace\": []}}\n\n    data = results[0][\"data\"]\n\n    chain_num = 0\n"},
    # ---- benign
    {"name": "benign-gzip-open-writer", "kind": "benign", "file": _PT, "old": "gzip.GzipFile(out_file, mode=\"wb\")", "new": "gzip.open(out_file, \"wb\")"},
    {"name": "benign-gzip-open-reader-default-mode", "kind": "benign", "file": _PT, "old": _CONS_OLD,
     "new": "    with gzip.open(in_file) as stream:\n        results = pickle.load(stream)\n\n    data = results[0][\"data\"]\n\n    trees = []\n"},
    {"name": "benign-rename-and-protocol", "kind": "benign", "file": _PT, "old": _W_OLD,
     "new": "    print(\"writing\", out_file)\n    with gzip.GzipFile(out_file, \"wb\") as handle:\n        pickle.dump(results, handle, protocol=pickle.HIGHEST_PROTOCOL)\n"},
    {"name": "benign-extract-load-helper", "kind": "benign", "edits": [
        {"file": _PT, "old": _MAP_OLD, "new": "    results = _load_trace(in_file)\n\n    data = results[0][\"data\"]\n\n    chain_num = 0\n"},
        {"file": _PT, "old": "def create_topology_dict_from_trace(trace):\n",
         "new": "def _load_trace(path):\n    with gzip.GzipFile(path, \"rb\") as fh:\n        loaded = pickle.load(fh)\n    return loaded\n\n\ndef create_topology_dict_from_trace(trace):\n"}]},
    {"name": "benign-reraise-with-message", "kind": "benign", "file": _PT, "old": _TOP_OLD,
     "new": "    try:\n        with gzip.GzipFile(in_file, \"rb\") as fh:\n            results = pickle.load(fh)\n    except EOFError as e:\n        raise RuntimeError(\"trace file is truncated: {}\".format(in_file)) from e\n\n    print(\"\\nExtracting unique topologies from sample trace.\")\n"},
    {"name": "benign-normalise-after-load", "kind": "benign", "file": _PT, "old": _CONS_OLD,
     "new": "    with gzip.GzipFile(in_file, \"rb\") as fh:\n        results = pickle.load(fh)\n    results = dict(sorted(results.items()))\n\n    data = results[0][\"data\"]\n\n    trees = []\n"},
    {"name": "P0-reader-collects-records-until-eof", "kind": "break", "rule": "P0", "file": "phyclone/process_trace/process_trace.py", "old": "    with gzip.GzipFile(in_file, \"rb\") as fh:\n        results = pickle.load(fh)\n\n    print(\"\\nExtracting unique topologies from sample trace.\")\n", "new": "    results = {}\n    with gzip.GzipFile(in_file, \"rb\") as fh:\n        while True:\n            try:\n                results.update(pickle.load(fh))\n            except EOFError:\n                break\n\n    print(\"\\nExtracting unique topologies from sample trace.\")\n"},
]
