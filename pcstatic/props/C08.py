"""C08 — SMC proposals are normalised, faithfully sampled, complete, correctly weighted.

"Probability accounting": from sample() a table (state x outcome -> probability) is extracted — a
threshold chain on one uniform draw gives consecutive differences, each sub-draw contributes its
uniform factor (choice(list) -> 1/len, integers(lo, hi) -> 1/(hi-lo), choice(pop, k, replace=False)
as a set -> 1/C(len pop, k)) — and compared, cell by cell, with the value log_p() returns on the
paths that handle the same outcome in the same state.  The comparison is between the two halves of
the code (no constant such as 1/2 is frozen in the checker), so a consistent change of the mixture
weights in both is silent, a change in one of them is reported.
NOT decided: numeric normalisation, the empirical law of numpy's generator (trusted).
"""
import ast

from ..astutil import u
from ..formula import extract, same, same_events, same_store, spec
from ..model import AnalysisError
from ..termflow import AList, ATuple, Poly, equivalent, key_atom, poly_from_key, show, subst, vkey, _is_polykey

CI = dict(copy_is_identity=False)
HELPERS = {"_propose_existing_node", "_propose_new_node", "_propose_outlier", "_get_log_p"}
K = Poly.atom(("v", "K"))  # number of children of the new clone


# ------------------------------------------------------------------ guard classification
def _side(k):
    a = key_atom(k)
    return show(poly_from_key(k)) if _is_polykey(k) else (show(a) if a is not None else repr(k))


def classify(g):
    """(kind, polarity) of one guard of sample()/log_p(); kinds: FIRST, EMPTY, OUTLIER, EXISTING, ADAPTED,
    NOCLONES, HASROOTS, ISTREE, U (a comparison with the uniform draw), K0 (number of children == 0)."""
    pol = True
    while g[0] == "not":
        g = g[1]
        pol = not pol
    if g[0] == "truth":
        s = _side(g[1])
        if s.endswith(".parent_is_empty_tree"):
            return "EMPTY", pol
        if s.startswith("isinstance("):
            return "ISTREE", pol
        if s.endswith(".nodes") or s.endswith(".tree_nodes") or s.endswith(".roots") or s.endswith(".get_number_of_nodes()"):
            return "NOCLONES", not pol  # truthiness of the clone list / count: "there are clones"
        if s.endswith("tree_roots"):
            return "HASROOTS", pol
        raise AnalysisError("unrecognised truth guard in a proposal: %s" % s)
    if g[0] == "or":
        kinds = sorted(classify(x) for x in g[1])
        if kinds == [("EXISTING", True), ("OUTLIER", True)]:
            return "ADAPTED", pol
        raise AnalysisError("unrecognised disjunction in a proposal: %s" % show(g))
    if g[0] == "cmp":
        op, a, b = g[1], _side(g[2]), _side(g[3])
        if "_rng.random()" in a or "_rng.random()" in b:
            return "U", pol
        if op == "==" and {a, b} == {"P0.parent_particle", "None"}:
            return "FIRST", pol
        if op == "==" and ("outlier_node_name" in a or "outlier_node_name" in b):
            return "OUTLIER", pol
        if op == "in":
            return "EXISTING", pol
        if op == "==" and "0" in (a, b):
            other = b if a == "0" else a
            if other.startswith("len(") and (other.endswith(".nodes)") or other.endswith("tree_roots)") or other.endswith("tree_nodes)") or other.endswith(".roots)")):
                return "NOCLONES", pol
            if other.endswith(".get_number_of_nodes()"):
                return "NOCLONES", pol
        if op == "<" and a == "0" and b.startswith("len(") and b.endswith("tree_roots)"):
            return "HASROOTS", pol
        if op == "<" and a == "0" and b.startswith("len(") and (b.endswith(".nodes)") or b.endswith("tree_nodes)") or b.endswith(".roots)")):
            return "NOCLONES", not pol  # 0 < len(nodes): the opposite of "no clone yet"
        if op == "<" and a == "0" and b.endswith(".get_number_of_nodes()"):
            return "NOCLONES", not pol
    # a test this analysis cannot relate to a state of sample(): it constrains nothing, so the paths it
    # guards must agree with the accounted probability of every cell they are otherwise consistent with
    return "OTHER:" + show(g), pol


def expand_paths(paths):
    """Split every path guarded by a disjunction of state tests (e.g. `no parent or no clone yet`) into one path
    per disjunct: (A or B) -> [A] , [not A, B];  not (A or B) -> [not A, not B].  The EXISTING-or-OUTLIER
    disjunction of the adapted arm is one state of its own and is left alone."""
    from ..termflow import g_not

    g_not_ = g_not
    # a path whose value is chosen by a test inside an inlined helper (`self._propose_first(u < p)`) is one path per choice
    from ..termflow import TRUE as _T, poly_from_key as _pfk, _is_polykey as _ipk

    split = []
    for guards, val in paths:
        a = val.as_atom() if isinstance(val, Poly) else None
        if a is not None and a[0] == "cond" and all(_ipk(k) for _, k in a[1]):
            earlier = []
            for g, k in a[1]:
                extra = [g_not_(x) for x in earlier] + ([g] if g != _T else [])
                split.append((list(guards) + extra, _pfk(k)))
                earlier.append(g)
        else:
            split.append((guards, val))
    # ... and a value with a conditional expression *inside* it (`log_p = a if t else b` followed by `log_p -= c`) is
    # one path per arm as well
    from ..formula import atoms_of as _atoms_of
    from ..termflow import subst as _subst

    work, split = split, []
    while work:
        guards, val = work.pop(0)
        conds = [c for c in _atoms_of(val, tag="cond") if all(_ipk(k) for _, k in c[1])] if isinstance(val, Poly) else []
        if not conds or len(work) + len(split) > 64:
            split.append((guards, val))
            continue
        c = conds[0]
        ck = Poly.atom(c).key()
        earlier = []
        for g, k in c[1]:
            extra = [g_not_(x) for x in earlier] + ([g] if g != _T else [])
            work.append((list(guards) + extra, _subst(val, {ck: _pfk(k)})))
            earlier.append(g)
    paths = split
    out = []
    for guards, val in paths:
        alts = [[]]
        for g in guards:
            pol, core = True, g
            while core[0] == "not":
                core = core[1]
                pol = not pol
            if core[0] == "and":
                # (A and B) holds: both hold.  not (A and B): not A, or A and not B — state tests first
                def is_u2(x):
                    try:
                        return classify(x)[0] == "U"
                    except AnalysisError:
                        return False
                conj = [x for x in core[1] if not is_u2(x)] + [x for x in core[1] if is_u2(x)]
                if pol:
                    alts = [a + list(conj) for a in alts]
                else:
                    branches = [list(conj[:i]) + [g_not(x)] for i, x in enumerate(conj)]
                    alts = [a + b for a in alts for b in branches]
                continue
            if core[0] == "or":
                try:
                    kinds = sorted(classify(x) for x in core[1])
                except AnalysisError:
                    kinds = None
                if kinds != [("EXISTING", True), ("OUTLIER", True)]:
                    # state tests before tests on the uniform draw (`no clone yet or u < 1/2`): each branch then lies
                    # within one state, with the draw's interval conditional on it
                    def is_u(x):
                        try:
                            return classify(x)[0] == "U"
                        except AnalysisError:
                            return False
                    disj = [x for x in core[1] if not is_u(x)] + [x for x in core[1] if is_u(x)]
                    if pol:
                        branches = []
                        for i, x in enumerate(disj):
                            branches.append([g_not(y) for y in disj[:i]] + [x])
                    else:
                        branches = [[g_not(y) for y in disj]]
                    alts = [a + b for a in alts for b in branches]
                    continue
            alts = [a + [g] for a in alts]
        for a in alts:
            out.append((a, val))
    return out


def interval(guards):
    """Probability that the uniform draw satisfies the U-guards of a path: upper - lower."""
    lower, upper = Poly.const(0), Poly.const(1)
    for g in guards:
        kind, _ = classify(g)
        if kind != "U":
            continue
        pol = True
        while g[0] == "not":
            g = g[1]
            pol = not pol
        if g[0] != "cmp" or g[1] != "<":
            raise AnalysisError("unrecognised test on the uniform draw: %s" % show(g))
        a, b = g[2], g[3]
        if "_rng.random()" in _side(a) and pol:  # u < t
            upper = poly_from_key(b)
        elif "_rng.random()" in _side(a) and not pol:  # not (u < t)  ==  t <= u
            lower = poly_from_key(b)
        elif "_rng.random()" in _side(b) and pol:  # t < u
            lower = poly_from_key(a)
        elif "_rng.random()" in _side(b) and not pol:  # not (t < u)  ==  u <= t
            upper = poly_from_key(a)
        else:
            raise AnalysisError("unrecognised test on the uniform draw: %s" % show(g))
    return upper - lower


def outcome_kind(v):
    s = show(v)
    a = v.as_atom() if isinstance(v, Poly) else None
    if a is not None and a[0] == "mcall" and a[1] in ("_propose_existing_node", "_propose_new_node", "_propose_outlier"):
        return {"_propose_existing_node": "existing", "_propose_new_node": "new", "_propose_outlier": "outlier"}[a[1]]
    if a is not None and a[0] == "upd":
        if a[1] == "add_data_point_to_outliers":
            return "outlier"
        if a[1] in ("add_data_point_to_node", "create_root_node") and "create_root_node" in s:
            return "new-first"
    raise AnalysisError("unrecognised outcome of sample(): %s" % s)


# ------------------------------------------------------------------ sub-draw factors
def subdraw_log_factor(ctx, rule, cls, helper, ex):
    """Sum of log-probabilities of the uniform sub-draws of a helper; the integers() draw becomes K."""
    total = Poly.const(0)
    mapping = {}
    f = ex.fi
    ok = True
    for ev in ex.events:
        if ev.name == ".integers":
            lo, hi = ev.args[0], ev.args[1]
            total = total - Poly.atom(("call", "log", ((hi - lo).key(),), ()))
            atom = ("mcall", "integers", vkey(ev.recv), tuple(vkey(a) for a in ev.args), ())
            mapping[Poly.atom(atom).key()] = K
        elif ev.name == ".choice":
            pop = ev.args[0]
            n = Poly.atom(("call", "len", (vkey(pop),), ()))
            if len(ev.args) == 1:
                total = total - Poly.atom(("call", "log", (n.key(),), ()))
            else:
                k = subst(ev.args[1], mapping)
                rep = ev.kwargs.get("replace")
                ctx.check(rep is False, rule, "%s.%s: children drawn without replacement" % (cls, helper), f.where(ev.node), "the children of the new clone are drawn with replacement: the subset is no longer uniform over C(R, k) subsets (and may repeat a root)", construct=f.qualname, stmt="choice(..., replace=False)")
                lg = lambda x: Poly.atom(("call", "lgamma", ((x + 1).key(),), ()))
                total = total - (lg(n) - lg(k) - lg(n - k))
        elif ev.name in (".random", ".multinomial", ".shuffle", ".permutation"):
            if ev.name == ".multinomial":
                continue  # table draw: accounted through the table itself (rule S)
            raise AnalysisError("unaccounted random draw %s in %s.%s" % (ev.name, cls, helper))
    return total, mapping


ROOTS = "P0.parent_particle.tree_roots"


def check_completeness(ctx, cls, helper, ex):
    """C1: existing arm ranges over all roots; subset size in 0..R inclusive; children from all roots."""
    f = ex.fi
    for ev in ex.events:
        if ev.name == ".choice":
            ctx.check(show(ev.args[0]) == ROOTS, "C1", "%s.%s: drawn from all top-level clones" % (cls, helper), f.where(ev.node), "the draw ranges over %s, not over every top-level clone of the parent" % show(ev.args[0]), construct=f.qualname, stmt="choice population")
        if ev.name == ".integers":
            lo, hi = ev.args
            want = Poly.atom(("call", "len", (Poly.atom(("attr", Poly.atom(("attr", Poly.atom(("v", "P0")).key(), "parent_particle")).key(), "tree_roots")).key(),), ())) + 1
            eq, _, _ = equivalent(hi - lo, want)
            ctx.check(eq and lo.is_const() and lo.const_value() == 0, "C1", "%s.%s: number of children uniform on 0..R inclusive" % (cls, helper), f.where(ev.node), "integers(%s, %s) does not range over 0..R (R = number of top-level clones), so some subsets can never be proposed" % (show(lo), show(hi)), construct=f.qualname, stmt="integers(0, R + 1)")


# ------------------------------------------------------------------ the accounting itself
def account(ctx, rule, cls, extra_subst=None):
    prog = ctx.prog
    sample = prog.fn(cls + ".sample")
    logp = prog.fn(cls + ".log_p")
    exs = extract(prog, sample, opaque_self_methods=HELPERS, **CI)
    exl = extract(prog, logp, opaque_self_methods=HELPERS)
    factors, kmaps = {}, {}
    for helper, kind in (("_propose_existing_node", "existing"), ("_propose_new_node", "new")):
        hf = prog.fn(cls + "." + helper)
        hx = extract(prog, hf, **CI)
        factors[kind], kmaps[kind] = subdraw_log_factor(ctx, "C1", cls, helper, hx)
        check_completeness(ctx, cls, helper, hx)
        ctx.analysed(hf)
    factors["outlier"] = Poly.const(0)
    factors["new-first"] = Poly.const(0)
    R = Poly.atom(("call", "len", (Poly.atom(("attr", Poly.atom(("attr", Poly.atom(("v", "P0")).key(), "parent_particle")).key(), "tree_roots")).key(),), ()))
    r0 = {R.key(): Poly.const(0), K.key(): Poly.const(0)}
    # ---- table from sample()
    cells = []
    by_state = {}
    for guards, val in expand_paths(exs.paths):
        st = {}
        feasible = True
        for g in guards:
            kind, pol = classify(g)
            if kind != "U":
                if st.get(kind, pol) != pol:
                    feasible = False  # the same state test assumed true and false on one path
                st[kind] = pol
        if not feasible:
            continue
        kind = outcome_kind(val)
        p = interval(guards)
        cells.append({"state": st, "outcome": kind, "p": p})
        by_state.setdefault(tuple(sorted(st.items())), []).append(p)
        # the proposal extends its parent: an arm may start from an empty Tree(...) only when there is no parent
        from ..formula import atoms_of as _atoms_of

        if _atoms_of(val, "call", "new:Tree"):
            ctx.rule("A2", "a proposal arm starts from an empty tree only when there is no parent particle; with a parent it extends a copy of the parent's tree (outliers included)", 1)
            ctx.check(st.get("FIRST") is True, "A2", "%s.sample: arm %s / %s builds on an empty tree only for the first particle" % (cls, dict(st), kind), sample.where(), "in state %s the proposed tree is %s: it starts from an empty tree although a parent particle exists, so the parent's data points (e.g. its outliers) are dropped from the proposed tree" % (dict(st), show(val)[:160]), construct=sample.qualname, stmt="fresh tree in state %s" % sorted(st.items()))
    if cls.startswith("Semi"):
        # the adapted arm draws from a table that holds one tree per top-level clone *and* the outlier tree: the
        # outcome "drawn from the table" covers both placements, and log_p must report the table's probability
        # (through the same arm) for either
        cells = cells + [dict(c, outcome="outlier", adapted=True) for c in cells if c["outcome"] == "existing"]
    # B2 (sample side): the threshold chain partitions [0, 1) in every state
    # a path that does not test some state variable (the uniform draw is compared first, say) applies to both of its
    # values: the outcome probabilities must sum to one under every complete assignment of the state variables
    import itertools

    kinds = sorted({k for c in cells for k in c["state"]})
    seen_states = set()
    for values in itertools.product((True, False), repeat=len(kinds)):
        full = dict(zip(kinds, values))
        members = [c for c in cells if not c.get("adapted") and all(full[k] == v for k, v in c["state"].items())]
        if not members:
            continue
        # report each distinct situation once: the part of the assignment the member paths actually test
        tested = tuple(sorted((k, full[k]) for k in kinds if any(k in c["state"] for c in members)))
        if tested in seen_states:
            continue
        seen_states.add(tested)
        tot = Poly.const(0)
        for c in members:
            tot = tot + c["p"]
        ctx.check(tot == Poly.const(1), rule + "n", "%s.sample: outcome probabilities sum to one in state %s" % (cls, dict(tested)), sample.where(), "the threshold chain on the uniform draw leaves probability %s unaccounted in state %s" % (show(Poly.const(1) - tot), dict(tested)), construct=sample.qualname, stmt="threshold chain %s" % (dict(tested),))
    # ---- paths of log_p()
    lpaths = []
    ksub = {}
    for guards, val in expand_paths(exl.paths):
        asg = {}
        feasible = True
        for g in guards:
            kind, pol = classify(g)
            if kind != "U" and asg.get(kind, pol) != pol:
                feasible = False
            asg[kind] = pol
        if feasible:
            lpaths.append((asg, val, guards))
    # number-of-children atoms -> K
    def to_K(v):
        m = {}
        from ..formula import atoms_of

        for a in atoms_of(v, "attr"):
            if a[2] == "num_children_on_node_that_matters":
                m[Poly.atom(a).key()] = K
        for a in atoms_of(v, "mcall", "get_number_of_children"):
            m[Poly.atom(a).key()] = K
        m.update(extra_subst or {})
        return subst(v, m)

    def consistent(asg, cell):
        st, oc = cell["state"], cell["outcome"]
        first = st.get("FIRST", st.get("EMPTY") and None)
        for kind in ("FIRST", "EMPTY"):
            if kind in asg and kind in st and asg[kind] != st[kind]:
                return False
        is_out = oc == "outlier"
        is_ex = oc == "existing"
        if "OUTLIER" in asg and asg["OUTLIER"] != is_out:
            return False
        if "EXISTING" in asg and not is_out and asg["EXISTING"] != is_ex:
            return False
        if "EXISTING" in asg and is_out and asg["EXISTING"]:
            return False
        if "ADAPTED" in asg and asg["ADAPTED"] != (oc in ("existing", "outlier")):
            return False
        noclones = st.get("NOCLONES")
        if st.get("FIRST"):
            noclones = None
        if noclones is not None:
            if "NOCLONES" in asg and asg["NOCLONES"] != noclones:
                return False
            if "HASROOTS" in asg and asg["HASROOTS"] == noclones:
                return False
        return True

    unmatched = list(range(len(lpaths)))
    for cell in cells:
        oc = cell["outcome"]
        fac = factors[oc]
        expected = Poly.atom(("call", "log", (cell["p"].key(),), ())) + fac
        if oc in ("existing", "outlier") and cls.startswith("Semi"):
            # adapted arm: the table draw's own probability is what _get_log_p reports (rule S)
            expected = expected + Poly.atom(("mcall", "_get_log_p", Poly.atom(("v", "P0")).key(), (Poly.atom(("v", "P1")).key(),), ()))
        if cell["state"].get("NOCLONES") and not cell["state"].get("FIRST"):
            expected = subst(expected, r0)
        hits = [i for i, (asg, val, _) in enumerate(lpaths) if consistent(asg, cell)]
        label = "%s: state %s, outcome %s" % (cls, cell["state"], oc)
        if not hits:
            ctx.fail(rule, label, logp.where(), "log_p() has no path for this outcome although sample() produces it with probability %s" % show(cell["p"]), construct=logp.qualname, stmt="cell %s/%s" % (sorted(cell["state"].items()), oc))
            continue
        for i in hits:
            if i in unmatched:
                unmatched.remove(i)
            asg, val, guards = lpaths[i]
            got = to_K(val)
            if cell["state"].get("NOCLONES") and not cell["state"].get("FIRST"):
                got = subst(got, r0)
            try:
                eq, how, wit = equivalent(got, expected)
            except AnalysisError:
                # e.g. log(0): the accounted probability of this cell degenerates in this state
                ctx.fail(rule, label + " [log_p path %d]" % i, logp.where(), "the probability of this outcome degenerates in this state (sample side: %s ; log_p side: %s): the draw cannot produce it or is ill-defined" % (show(expected), show(got)), construct=logp.qualname, stmt="cell %s/%s" % (sorted(cell["state"].items()), oc))
                continue
            ctx.check(eq, rule, label + " [log_p path %d]" % i, logp.where(), "sample() produces this outcome with log-probability %s but log_p() reports %s (on the path guarded by %s)" % (show(expected), show(got), [show(g) for g in guards]), construct=logp.qualname, stmt="cell %s/%s" % (sorted(cell["state"].items()), oc), detail="log-probability %s [%s]" % (show(expected)[:200], how))
            ctx.sample({"rule": rule, "cell": label, "log_prob": show(expected)[:300]})
    # paths of log_p that no cell explains must be infeasible (contradictory guards)
    for i in unmatched:
        asg, val, guards = lpaths[i]
        infeasible = ("NOCLONES" in asg and "HASROOTS" in asg and asg["NOCLONES"] == asg["HASROOTS"]) or (asg.get("EXISTING") and asg.get("NOCLONES"))
        ctx.check(infeasible, rule, "%s.log_p path %d reports a probability for an outcome sample() never produces" % (cls, i), logp.where(), "log_p() path guarded by %s returns %s, but sample() has no such outcome" % ([show(g) for g in guards], show(val)), construct=logp.qualname, stmt="unexplained log_p path")
    ctx.analysed(sample, logp)
    return exs, exl


def rule_B(ctx):
    ctx.rule("B1", "bootstrap: log_p mirrors sample() cell by cell (state x outcome)", 7)
    ctx.rule("B1n", "bootstrap: the threshold chain partitions the unit interval in every state", 3)
    ctx.rule("C1", "completeness of the random arms: all roots, subset size 0..R inclusive, without replacement", 6)
    account(ctx, "B1", "BootstrapProposalDistribution")


def rule_S(ctx):
    prog = ctx.prog
    ctx.rule("S1", "semi-adapted: log_p mirrors sample() cell by cell; the adapted table is normalised over exactly the enumerated trees, one order for dict / vector / list", 8)
    ctx.rule("S1n", "semi-adapted: the threshold chain partitions the unit interval in every state", 2)
    cls = "SemiAdaptedProposalDistribution"
    # resolve the cached constants the log_p formula reads: log_half and the cached log(R + 1)
    init = prog.fn(cls + ".__init__")
    exi = extract(prog, init, opaque_self_methods={"_init_dist"}, no_inline=["ProposalDistribution.__init__"])
    kinit = prog.fn("SemiAdaptedKernel.__init__")
    exk = extract(prog, kinit, no_inline=["Kernel.__init__"])
    lh_prop = exi.stores("log_half")
    lh_kern = exk.stores("log_half")
    ok = len(lh_prop) == 1 and len(lh_kern) == 1 and show(next(iter(lh_prop.values()))) == "P2.log_half"
    ctx.check(ok, "S1", "semi-adapted: the proposal's log_half is the kernel's", init.where(), "the proposal does not take log_half from its kernel", construct=init.qualname, stmt="self.log_half = kernel.log_half")
    half = next(iter(lh_kern.values())) if lh_kern else Poly.atom(("v", "?"))
    idist = prog.fn(cls + "._init_dist")
    exd = extract(prog, idist, opaque_self_methods={"_set_log_p_dist", "_get_existing_node_trees", "_get_outlier_tree"}, **CI)
    cached = exd.stores("_cached_log_old_num_roots")
    ctx.check(len(cached) == 1, "S1", "semi-adapted: the cached log(R + 1) is set by _init_dist", idist.where(), "no unique store to _cached_log_old_num_roots", construct=idist.qualname, stmt="_cached_log_old_num_roots")
    P0 = Poly.atom(("v", "P0"))
    extra = {
        Poly.atom(("attr", P0.key(), "log_half")).key(): half,
    }
    if cached:
        val = next(iter(cached.values()))
        # the store happens on the non-empty arm only; use that arm's value
        a = val.as_atom() if isinstance(val, Poly) else None
        if a is not None and a[0] == "cond":
            for g, v in a[1]:
                if "undef" not in repr(v):
                    val = poly_from_key(v)
        extra[Poly.atom(("attr", P0.key(), "_cached_log_old_num_roots")).key()] = val
    account(ctx, "S1", cls, extra_subst=extra)
    # ---- the adapted table
    f = prog.fn(cls + "._set_log_p_dist")
    ex = extract(prog, f)
    sp = spec(prog, """
def s(self, trees):
    w = np.array([x.log_p for x in trees])
    lq = w - log_sum_exp(w)
    q = np.exp(lq)
    self._curr_trees = trees
    self._q_dist = q / np.sum(q)
    self._log_p = dict(zip(trees, lq))
""", f)
    for a in ("_curr_trees", "_q_dist", "_log_p"):
        same_store(ctx, "S1", cls + "._set_log_p_dist: " + a, f, ex, sp, a)
    g = prog.fn(cls + "._propose_existing_node")
    ex = extract(prog, g)
    sp = spec(prog, "def s(self):\n    return self._curr_trees[self._rng.multinomial(1, self._q_dist).argmax()]\n", g)
    same(ctx, "S1", cls + "._propose_existing_node draws an index from the table and returns the tree at that index", g, ex.result, sp.result, "drawn tree")
    h = prog.fn(cls + "._get_log_p")
    ex = extract(prog, h)
    sp = spec(prog, """
def s(self, tree):
    if isinstance(tree, Tree):
        holder = TreeHolder(tree, self.tree_dist, self.perm_dist)
    else:
        holder = tree
    return self._log_p[holder]
""", h)
    same(ctx, "S1", cls + "._get_log_p reads the stored table", h, ex.result, sp.result, "table lookup")
    # ---- support of the table: each root, the outlier tree iff o > 0, one new clone iff the parent is empty
    exd = extract(prog, idist, **CI)
    spd = spec(prog, """
def s(self):
    trees = []
    if self.parent_particle is not None:
        for node in self.parent_particle.tree_roots:
            t = self.parent_tree.copy()
            t.add_data_point_to_node(self.data_point, node)
            trees.append(TreeHolder(t, self.tree_dist, self.perm_dist))
    if self.outlier_proposal_prob > 0:
        if self.parent_particle is None:
            t = Tree(self.data_point.grid_size)
        else:
            t = self.parent_tree.copy()
        t.add_data_point_to_outliers(self.data_point)
        trees.append(TreeHolder(t, self.tree_dist, self.perm_dist))
    if (self.parent_particle is None) or (len(self.parent_particle.tree_roots) == 0):
        if self.parent_particle is None:
            t = Tree(self.data_point.grid_size)
        else:
            t = self.parent_tree.copy()
        t.create_root_node(children=[], data=[self.data_point])
        trees.append(TreeHolder(t, self.tree_dist, self.perm_dist))
    self._curr_trees = trees
""", idist, **CI)
    same_store(ctx, "S1", cls + "._init_dist: support of the adapted table (each root; the outlier tree iff o > 0; one new clone iff the parent has no clone)", idist, exd, spd, "_curr_trees")
    # parent_is_empty_tree is exactly "no parent or no top-level clone" (constructor default False)
    gs = exd.stores("parent_is_empty_tree")
    from ..termflow import make_cond, g_or, g_cmp, TRUE
    if len(gs) != 1:
        ctx.fail("S1", cls + "._init_dist: parent_is_empty_tree", idist.where(), "parent_is_empty_tree is not set uniquely", construct=idist.qualname, stmt="parent_is_empty_tree")
    else:
        spe = spec(prog, """
def s(self):
    if (self.parent_particle is None) or (len(self.parent_particle.tree_roots) == 0):
        self.parent_is_empty_tree = True
""", idist, **CI)
        # the constructor default is False: "left alone" and "set to False" are the same state
        from ..termflow import rewrite as _rw

        def dflt(a):
            if a[0] == "undef" and "parent_is_empty_tree" in repr(a):
                return Poly.const(0)
            return None

        same(ctx, "S1", cls + "._init_dist: parent_is_empty_tree set iff there is no parent or no top-level clone", idist,
             _rw(next(iter(gs.values())), dflt), _rw(next(iter(spe.stores("parent_is_empty_tree").values())), dflt), ".parent_is_empty_tree")
    ctx.analysed(init, kinit, idist, f, g, h)
    # ---- new-clone arm
    n = prog.fn(cls + "._propose_new_node")
    ex = extract(prog, n, **CI)
    sp = spec(prog, """
def s(self):
    k = self._rng.integers(0, len(self.parent_particle.tree_roots) + 1)
    if k == 0:
        children = []
    else:
        children = self._rng.choice(self.parent_particle.tree_roots, k, replace=False)
    t = self.parent_particle.tree
    t.create_root_node(children=frozenset(children), data=[self.data_point])
    return TreeHolder(t, self.tree_dist, self.perm_dist)
""", n, **CI)
    same(ctx, "S1", cls + "._propose_new_node: new clone over the drawn children, on a tree rebuilt from the parent's stored form", n, ex.result, sp.result, "proposed tree")
    ctx.analysed(n)


def rule_F(ctx):
    prog = ctx.prog
    ctx.rule("F1", "fully-adapted: support = every root, every subset of roots for a new clone, the outlier tree iff o > 0; normalised over all; sample indexes keys() with the index drawn over values() of the same dict", 3)
    cls = "FullyAdaptedProposalDistribution"
    f = prog.fn(cls + "._init_dist")
    ex = extract(prog, f, **CI)
    sp = spec(prog, """
def s(self):
    trees = []
    if self.parent_particle is not None:
        for node in self.parent_particle.tree_roots:
            t = self.parent_tree.copy()
            t.add_data_point_to_node(self.data_point, node)
            trees.append(TreeHolder(t, self.tree_dist, self.perm_dist))
    if self.parent_particle is None:
        t = Tree(self.data_point.grid_size)
        t.create_root_node(children=[], data=[self.data_point])
        trees.append(TreeHolder(t, self.tree_dist, self.perm_dist))
    else:
        for r in range(0, len(self.parent_particle.tree_roots) + 1):
            for children in itertools.combinations(self.parent_particle.tree_roots, r):
                t = self.parent_tree.copy()
                t.create_root_node(children=children, data=[self.data_point])
                trees.append(TreeHolder(t, self.tree_dist, self.perm_dist))
    if self.outlier_proposal_prob > 0:
        if self.parent_particle is None:
            t = Tree(self.data_point.grid_size)
        else:
            t = self.parent_tree.copy()
        t.add_data_point_to_outliers(self.data_point)
        trees.append(TreeHolder(t, self.tree_dist, self.perm_dist))
    w = np.array([x.log_p for x in trees])
    self._log_p = dict(zip(trees, w - log_sum_exp(w)))
""", f, **CI)
    same_store(ctx, "F1", cls + "._init_dist: table over the full support, normalised", f, ex, sp, "_log_p")
    g = prog.fn(cls + ".sample")
    ex = extract(prog, g)
    sp = spec(prog, """
def s(self):
    p = np.exp(np.array(list(self._log_p.values())))
    idx = self._rng.multinomial(1, p / np.sum(p)).argmax()
    return list(self._log_p.keys())[idx]
""", g)
    same(ctx, "F1", cls + ".sample: index drawn over values(), tree taken from keys() of the same dict", g, ex.result, sp.result, "sampled tree")
    h = prog.fn(cls + ".log_p")
    ex = extract(prog, h)
    sp = spec(prog, """
def s(self, tree):
    if isinstance(tree, Tree):
        holder = TreeHolder(tree, self.tree_dist, self.perm_dist)
    else:
        holder = tree
    return self._log_p[holder]
""", h)
    same(ctx, "F1", cls + ".log_p reads the stored table", h, ex.result, sp.result, "table lookup")
    ctx.analysed(f, g, h)


def rule_A(ctx):
    """Each random arm returns the parent's tree with exactly its edit; the tree summaries that log_p() and the
    next proposal read (top-level clones, clones, labels, last edited clone and its child count) are the tree's."""
    prog = ctx.prog
    ctx.rule("A1", "bootstrap arms: a copy of the parent tree with the data point placed in the drawn clone / in a new clone over the drawn children / in the outlier set", 3)
    ctx.rule("H1", "tree summaries carried by TreeHolder / Particle are those of the stored tree (top-level clones, clones, labels, last edited clone, its number of children)", 8)
    cls = "BootstrapProposalDistribution"
    specs = {
        "_propose_existing_node": """
def s(self):
    node = self._rng.choice(list(self.parent_particle.tree_roots))
    t = self.parent_tree.copy()
    t.add_data_point_to_node(self.data_point, node)
    return t
""",
        "_propose_new_node": """
def s(self):
    k = self._rng.integers(0, len(self.parent_particle.tree_roots) + 1)
    children = self._rng.choice(self.parent_particle.tree_roots, k, replace=False)
    t = self.parent_tree.copy()
    t.create_root_node(children=children, data=[self.data_point])
    return t
""",
        "_propose_outlier": """
def s(self):
    t = self.parent_tree.copy()
    t.add_data_point_to_outliers(self.data_point)
    return t
""",
    }
    for name, src in specs.items():
        f = prog.fn(cls + "." + name)
        # these arms read the parent's summaries: they are written for, and reached with, a parent (X1 / A2 decide the
        # dispatch); an arm that also caters for "no parent" through a shared helper is compared under that premise
        ex = extract(prog, f, assume="self.parent_particle is not None", **CI)
        sp = spec(prog, src, f, assume="self.parent_particle is not None", **CI)
        same(ctx, "A1", "%s.%s" % (cls, name), f, ex.result, sp.result, "proposed tree")
        ctx.analysed(f)
    th = prog.fn("TreeHolder.tree@setter")
    ex = extract(prog, th)
    sp = spec(prog, """
def s(self, tree):
    self.outlier_node_name = tree.outlier_node_name
    self.tree_roots = np.asarray(tree.roots)
    self.tree_nodes = tree.nodes
    self.labels = tree.labels
    self.node_last_added_to = tree.node_last_added_to
    if tree.node_last_added_to != tree.outlier_node_name:
        self.num_children_on_node_that_matters = tree.get_number_of_children(tree.node_last_added_to)
    else:
        self.num_children_on_node_that_matters = 0
""", th)
    for a in ("outlier_node_name", "tree_roots", "tree_nodes", "labels", "node_last_added_to", "num_children_on_node_that_matters"):
        same_store(ctx, "H1", "TreeHolder.tree setter: " + a, th, ex, sp, a)
    pt = prog.fn("Particle.tree@setter")
    ex = extract(prog, pt)
    sp = spec(prog, """
def s(self, tree):
    if not isinstance(tree, TreeHolder):
        tree = TreeHolder(tree, self._tree_dist, self._perm_dist)
    self.tree_roots = tree.tree_roots.copy()
    self.tree_nodes = tree.tree_nodes.copy()
""", pt)
    for a in ("tree_roots", "tree_nodes"):
        same_store(ctx, "H1", "Particle.tree setter: " + a, pt, ex, sp, a)
    pg = prog.fn("Particle.tree@getter")
    exg = extract(prog, pg)
    same(ctx, "H1", "Particle.tree rebuilds the tree from its holder", pg, exg.result, spec(prog, "def s(self):\n    return self._tree.tree\n", pg).result, "tree")
    hg = prog.fn("TreeHolder.tree@getter")
    exg = extract(prog, hg)
    same(ctx, "H1", "TreeHolder.tree rebuilds a fresh tree from the dictionary form", hg, exg.result, spec(prog, "def s(self):\n    return Tree.from_dict(self._tree)\n", hg).result, "tree")
    pi = prog.fn("ProposalDistribution.__init__")
    exi = extract(prog, pi, opaque_self_methods={"_set_parent_tree"})
    spi = spec(prog, """
def s(self, data_point, kernel, parent_particle, outlier_proposal_prob=0.0, parent_tree=None):
    self.data_point = data_point
    self.tree_dist = kernel.tree_dist
    self.perm_dist = kernel.perm_dist
    self.outlier_proposal_prob = outlier_proposal_prob
    self.parent_particle = parent_particle
    self._rng = kernel.rng
    self._set_parent_tree(parent_tree)
""", pi, opaque_self_methods={"_set_parent_tree"})
    for a in ("data_point", "tree_dist", "perm_dist", "outlier_proposal_prob", "parent_particle", "_rng"):
        same_store(ctx, "H1", "ProposalDistribution.__init__: " + a, pi, exi, spi, a)
    same_events(ctx, "H1", "ProposalDistribution.__init__ sets the parent tree", pi, exi.calls("._set_parent_tree"), spi.calls("._set_parent_tree"), "_set_parent_tree(parent_tree)")
    ctx.analysed(th, pt, pg, hg, pi)


def rule_X(ctx):
    """Candidates are built on copies / fresh trees, never on the parent's shared object."""
    prog = ctx.prog
    ctx.rule("X1", "every candidate starts from parent_tree.copy(), a fresh Tree(...) or parent_particle.tree (rebuilt from the dictionary form)", 9)
    mutators = {"add_data_point_to_node", "add_data_point_to_outliers", "create_root_node", "add_subtree", "remove_subtree", "remove_data_point_from_node", "remove_data_point_from_outliers"}
    n = 0
    done = set()
    for cname in ("BootstrapProposalDistribution", "SemiAdaptedProposalDistribution", "FullyAdaptedProposalDistribution"):
        ci = prog.cls(cname)
        for c in prog.mro(ci):  # helpers hoisted into a common base class are still this proposal's code
            for m in c.methods.values():
                if m.qualname not in done:
                    done.add(m.qualname)
                    n += _check_fresh(ctx, m, mutators)
    n += _check_fresh(ctx, prog.fn("semi_adapted.get_cached_new_tree"), mutators)


def _check_fresh(ctx, fi, mutators):
    """Every tree edited in `fi` is, on every abstract path, a local whose reaching definition is a fresh
    object (path-sensitive: `tree = Tree(...)` on one arm and `tree = self._propose_x()` on another are
    judged per arm)."""
    from ..paths import enumerate_paths

    verdict = {}  # (receiver text, site id) -> [bool per reaching definition]
    sites = {}
    for steps, oc in enumerate_paths(fi.node.body):
        last = {}
        for st in steps:
            node = st.node
            if st.kind == "stmt" and isinstance(node, ast.Assign):
                for t in node.targets:
                    for el in (t.elts if isinstance(t, (ast.Tuple, ast.List)) else [t]):
                        last[u(el)] = node.value
            for c in ast.walk(node) if st.kind != "with" else []:
                if isinstance(c, ast.Call) and isinstance(c.func, ast.Attribute) and c.func.attr in mutators:
                    name = u(c.func.value)
                    d = last.get(name)
                    sites[(name, id(c))] = c
                    verdict.setdefault((name, id(c)), []).append((d is not None and _is_fresh(d, ctx.prog, fi), u(d) if d is not None else "no local definition"))
    count = 0
    for (name, cid), vs in verdict.items():
        bad = sorted({txt for ok, txt in vs if not ok})
        label = (fi.cls.name + "." if fi.cls else "") + fi.name
        ctx.check(not bad, "X1", "%s: the tree edited by `%s` is a fresh object on every path" % (label, u(sites[(name, cid)])[:70]), fi.where(sites[(name, cid)]),
                  "`%s` is edited in place but on some path it is bound to %s: the parent's shared tree (or a cached candidate) would be modified" % (name, bad), construct=fi.qualname, stmt="edit " + u(sites[(name, cid)].func))
        count += 1
    return count


def _is_fresh(d, prog=None, fi=None, depth=0):
    if isinstance(d, ast.IfExp):
        return _is_fresh(d.body, prog, fi, depth) and _is_fresh(d.orelse, prog, fi, depth)  # fresh whichever way the test goes
    if isinstance(d, ast.Call):
        f = d.func
        if isinstance(f, ast.Attribute) and f.attr == "copy" and not d.args:
            return True
        if isinstance(f, ast.Name) and f.id == "Tree":
            return True
        # a helper every returning path of which hands back a fresh object (`self._copy_parent_tree()`)
        if prog is not None and fi is not None and depth < 3:
            h = None
            if isinstance(f, ast.Attribute) and isinstance(f.value, ast.Name) and f.value.id in ("self", "cls") and fi.cls is not None:
                h = prog.method(fi.cls, f.attr)
            elif isinstance(f, ast.Name):
                h = prog.resolve_function(f.id, fi.module)
            if h is not None and h is not fi:
                from ..paths import enumerate_paths

                seen = 0
                for steps, oc in enumerate_paths(h.node.body):
                    if oc == "raise":
                        continue
                    if oc != "return":
                        return False
                    last, ret = {}, None
                    for st in steps:
                        n = st.node
                        if st.kind == "stmt" and isinstance(n, ast.Assign):
                            for t in n.targets:
                                last[u(t)] = n.value
                        if st.kind == "stmt" and isinstance(n, ast.Return):
                            ret = n.value
                    if isinstance(ret, ast.Name):
                        ret = last.get(ret.id)
                    if ret is None or not _is_fresh(ret, prog, h, depth + 1):
                        return False
                    seen += 1
                return seen > 0
    # parent_particle.tree: the property rebuilds a Tree from the stored dictionary form on every read
    if isinstance(d, ast.Attribute) and d.attr == "tree" and u(d.value).endswith("particle"):
        return True
    return False


def run(ctx):
    ctx.assume("numpy Generator.random is uniform on [0,1); integers(lo, hi) uniform on lo..hi-1; choice uniform (as a set, without replacement: uniform over subsets); multinomial(1, p).argmax() draws an index with probabilities p")
    ctx.soft(rule_B)
    ctx.soft(rule_S)
    ctx.soft(rule_F)
    ctx.soft(rule_A)
    ctx.soft(rule_X)
    # W1: the weights (same rule objects as C01.K1 / K2)
    from . import C01

    from ..formula import imported
    from . import C14

    ctx._own_rules = set(ctx.rule_min)
    imported(ctx, C01.rule_K1)
    imported(ctx, C01.rule_K2)
    imported(ctx, C01.rule_K3_R1)  # the last-step correction is applied at whichever step is last (first step included)
    imported(ctx, C01.rule_W3)  # the densities a holder carries (log_p, log_p_one, log_pdf of the data order) are those of its tree
    imported(ctx, C14.rule_K1)  # cached proposals / cached new-clone trees are keyed on the concentration
    imported(ctx, C14.rule_K7)  # a hand-rolled memo of a density a holder carries, keyed on less than it depends on
    # "complete": the arms reach every placement only if the editor does what it is named for (new clone over exactly
    # the drawn children, point added to the drawn clone / the outlier set)
    from . import _premises

    _premises.tree_editor(ctx)
    # the weights are differences of the two joint densities a holder carries: the fused evaluation must give both (C03.T1-T3)
    _premises.density(ctx)


_BS = "phyclone/smc/kernels/bootstrap.py"
_SA = "phyclone/smc/kernels/semi_adapted.py"
_FA = "phyclone/smc/kernels/fully_adapted.py"
SELFTEST = [
    {"name": "benign-B1-new-node-mass-as-a-conditional-expression", "kind": "benign", "file": _BS, "old": "                if len(self.parent_tree.nodes) == 0:\n                    log_p = np.log(1 - self.outlier_proposal_prob)\n                else:\n                    log_p = np.log((1 - self.outlier_proposal_prob) / 2)\n", "new": "                log_p = np.log(1 - self.outlier_proposal_prob) if len(self.parent_tree.nodes) == 0 else np.log((1 - self.outlier_proposal_prob) / 2)\n"},
    {"name": "B1-conditional-expression-arms-swapped", "kind": "break", "rule": "B1", "file": _BS, "old": "                if len(self.parent_tree.nodes) == 0:\n                    log_p = np.log(1 - self.outlier_proposal_prob)\n                else:\n                    log_p = np.log((1 - self.outlier_proposal_prob) / 2)\n", "new": "                log_p = np.log((1 - self.outlier_proposal_prob) / 2) if len(self.parent_tree.nodes) == 0 else np.log(1 - self.outlier_proposal_prob)\n"},
    # ---- found by the second round of seeded changes
    {"name": "A2-outliers-only-parent-starts-from-empty-tree", "kind": "break", "rule": "A2", "file": _BS, "old": "        elif len(self.parent_tree.nodes) == 0:\n            if u < (1 - self.outlier_proposal_prob):\n                tree = self._propose_new_node()\n\n            else:\n                tree = self._propose_outlier()", "new": "        elif len(self.parent_tree.nodes) == 0:\n            tree = Tree(self.data_point.grid_size)\n            if u < (1 - self.outlier_proposal_prob):\n                node = tree.create_root_node([])\n                tree.add_data_point_to_node(self.data_point, node)\n            else:\n                tree.add_data_point_to_outliers(self.data_point)"},
    {"name": "S1-outlier-placement-scored-as-new-clone", "kind": "break", "rule": "S1", "file": _SA, "old": "if node in self.parent_particle.tree_nodes or node == tree.outlier_node_name:", "new": "if node in self.parent_particle.tree_nodes:"},
    {"name": "benign-S1-guard-order", "kind": "benign", "file": _SA, "old": "if node in self.parent_particle.tree_nodes or node == tree.outlier_node_name:", "new": "if node == tree.outlier_node_name or node in self.parent_particle.tree_nodes:"},
    {"name": "benign-B1-empty-tree-helper-in-log_p-style", "kind": "benign", "file": _BS, "old": "        # First particle\n        if self.parent_particle is None:\n            tree = Tree(self.data_point.grid_size)", "new": "        first = self.parent_particle is None\n        if first:\n            tree = Tree(self.data_point.grid_size)"},
    {"name": "B1-revert-F4", "kind": "break", "rule": "B1", "file": _BS, "old": "                if len(self.parent_tree.nodes) == 0:\n                    log_p = np.log(1 - self.outlier_proposal_prob)\n                else:\n                    log_p = np.log((1 - self.outlier_proposal_prob) / 2)\n", "new": "                log_p = np.log((1 - self.outlier_proposal_prob) / 2)\n"},
    {"name": "B1-log_p-third-not-half", "kind": "break", "rule": "B1", "file": _BS, "old": "log_p = np.log((1 - self.outlier_proposal_prob) / 2) - np.log(num_nodes)", "new": "log_p = np.log((1 - self.outlier_proposal_prob) / 3) - np.log(num_nodes)"},
    {"name": "B1-existing-over-R+1", "kind": "break", "rule": "B1", "file": _BS, "old": "log_p = np.log((1 - self.outlier_proposal_prob) / 2) - np.log(num_nodes)", "new": "log_p = np.log((1 - self.outlier_proposal_prob) / 2) - np.log(num_nodes + 1)"},
    {"name": "B1-sample-threshold-shifted", "kind": "break", "rule": "B1", "file": _BS, "old": "            if u < (1 - self.outlier_proposal_prob) / 2:\n                tree = self._propose_existing_node()", "new": "            if u < (1 - self.outlier_proposal_prob) / 4:\n                tree = self._propose_existing_node()"},
    {"name": "B1-first-particle-outlier-prob-swapped", "kind": "break", "rule": "B1", "file": _BS, "old": "            if tree.labels[self.data_point.idx] == tree.outlier_node_name:\n                log_p = np.log(self.outlier_proposal_prob)\n\n            else:\n                log_p = np.log(1 - self.outlier_proposal_prob)\n        # Particles t=2", "new": "            if tree.labels[self.data_point.idx] == tree.outlier_node_name:\n                log_p = np.log(1 - self.outlier_proposal_prob)\n\n            else:\n                log_p = np.log(self.outlier_proposal_prob)\n        # Particles t=2"},
    {"name": "B1-new-clone-misses-binomial", "kind": "break", "rule": "B1", "file": _BS, "old": "log_p -= np.log(old_num_roots + 1) + log_binomial_coefficient(old_num_roots, num_children)", "new": "log_p -= np.log(old_num_roots + 1)"},
    {"name": "B1-arms-swapped-in-sample", "kind": "break", "rule": "B1", "file": _BS, "old": "        elif len(self.parent_tree.nodes) == 0:\n            if u < (1 - self.outlier_proposal_prob):\n                tree = self._propose_new_node()\n\n            else:\n                tree = self._propose_outlier()", "new": "        elif len(self.parent_tree.nodes) == 0:\n            if u < (1 - self.outlier_proposal_prob):\n                tree = self._propose_outlier()\n\n            else:\n                tree = self._propose_new_node()"},
    {"name": "C1-integers-upper-exclusive-R", "kind": "break", "rule": ["C1", "B1"], "file": _BS, "old": "num_children = self._rng.integers(0, num_roots + 1)", "new": "num_children = self._rng.integers(0, num_roots)"},
    {"name": "C1-children-with-replacement", "kind": "break", "rule": "C1", "file": _BS, "old": "children = self._rng.choice(self.parent_particle.tree_roots, num_children, replace=False)", "new": "children = self._rng.choice(self.parent_particle.tree_roots, num_children, replace=True)"},
    {"name": "C1-existing-skips-first-root", "kind": "break", "rule": ["C1", "B1"], "file": _BS, "old": "        node = self._rng.choice(list(nodes))", "new": "        node = self._rng.choice(list(nodes)[1:])"},
    {"name": "C1-semi-integers-upper", "kind": "break", "rule": ["C1", "S1"], "file": _SA, "old": "num_children = self._rng.integers(0, num_roots + 1)", "new": "num_children = self._rng.integers(0, num_roots)"},
    {"name": "S1-sample-threshold-0.4", "kind": "break", "rule": "S1", "file": _SA, "old": "            if u < 0.5:\n                tree = self._propose_existing_node()", "new": "            if u < 0.4:\n                tree = self._propose_existing_node()"},
    {"name": "S1-log_half-is-log-third", "kind": "break", "rule": "S1", "file": _SA, "old": "        self.log_half = np.log(0.5)", "new": "        self.log_half = np.log(1 / 3)"},
    {"name": "S1-cached-log-roots-off-by-one", "kind": "break", "rule": "S1", "file": _SA, "old": "self._cached_log_old_num_roots = np.log(old_num_roots + 1)", "new": "self._cached_log_old_num_roots = np.log(old_num_roots)"},
    {"name": "S1-outlier-tree-unconditional", "kind": "break", "rule": "S1", "file": _SA, "old": "        if self.outlier_proposal_prob > 0:\n            trees.append(self._get_outlier_tree())", "new": "        if self.outlier_proposal_prob >= 0:\n            trees.append(self._get_outlier_tree())"},
    {"name": "S1-table-not-normalised", "kind": "break", "rule": "S1", "file": _SA, "old": "        log_q = np.array([x.log_p for x in trees])\n        log_q = log_normalize(log_q)\n        self._curr_trees = trees", "new": "        log_q = np.array([x.log_p for x in trees])\n        self._curr_trees = trees"},
    {"name": "S1-vector-and-list-orders-differ", "kind": "break", "rule": "S1", "file": _SA, "old": "        self._curr_trees = trees\n", "new": "        self._curr_trees = trees[::-1]\n"},
    {"name": "S1-empty-parent-misses-new-clone", "kind": "break", "rule": "S1", "file": _SA, "old": "            tree.create_root_node(children=[], data=[self.data_point])\n            tree_particle = TreeHolder(tree, self.tree_dist, self.perm_dist)\n\n            trees.append(tree_particle)\n        else:", "new": "            tree.create_root_node(children=[], data=[self.data_point])\n            tree_particle = TreeHolder(tree, self.tree_dist, self.perm_dist)\n        else:"},
    {"name": "F1-range-misses-all-roots-subset", "kind": "break", "rule": "F1", "file": _FA, "old": "            for r in range(0, num_roots + 1):", "new": "            for r in range(0, num_roots):"},
    {"name": "F1-outlier-tree-unconditional", "kind": "break", "rule": "F1", "file": _FA, "old": "        if self.outlier_proposal_prob > 0:\n            trees.extend(self._get_outlier_tree())", "new": "        trees.extend(self._get_outlier_tree())"},
    {"name": "F1-sample-index-over-other-order", "kind": "break", "rule": "F1", "file": _FA, "old": "        tree = list(self._log_p.keys())[idx]", "new": "        tree = sorted(self._log_p.keys(), key=hash)[idx]"},
    {"name": "F1-not-normalised", "kind": "break", "rule": "F1", "file": _FA, "old": "        log_q = log_normalize(log_q)\n\n        self._log_p = dict(zip(trees, log_q))", "new": "        self._log_p = dict(zip(trees, log_q))"},
    {"name": "X1-candidate-built-on-parent-tree", "kind": "break", "rule": "X1", "file": _BS, "old": "    def _propose_outlier(self):\n        tree = self.parent_tree.copy()", "new": "    def _propose_outlier(self):\n        tree = self.parent_tree"},
    {"name": "X1-fully-adapted-shared-tree", "kind": "break", "rule": ["X1", "F1"], "file": _FA, "old": "        for node in nodes:\n            tree = self.parent_tree.copy()", "new": "        for node in nodes:\n            tree = self.parent_tree"},
    {"name": "W1-weight-drops-log_q", "kind": "break", "rule": "K1", "file": "phyclone/smc/kernels/base.py", "old": "                log_w = particle.log_p - parent_particle.log_p - log_q\n", "new": "                log_w = particle.log_p - parent_particle.log_p\n"},
    {"name": "benign-log-split", "kind": "benign", "file": _BS, "old": "log_p = np.log((1 - self.outlier_proposal_prob) / 2) - np.log(num_nodes)", "new": "log_p = np.log(1 - self.outlier_proposal_prob) - np.log(2) - np.log(num_nodes)"},
    {"name": "benign-thresholds-in-locals", "kind": "benign", "file": _BS, "old": "        else:\n            if u < (1 - self.outlier_proposal_prob) / 2:\n                tree = self._propose_existing_node()\n\n            elif u < (1 - self.outlier_proposal_prob):", "new": "        else:\n            keep = 1 - self.outlier_proposal_prob\n            half = keep / 2\n            if u < half:\n                tree = self._propose_existing_node()\n\n            elif u < keep:"},
    {"name": "benign-consistent-mixture-change", "kind": "benign", "edits": [
        {"file": _SA, "old": "            if u < 0.5:\n                tree = self._propose_existing_node()", "new": "            if u < 0.25:\n                tree = self._propose_existing_node()"},
        {"file": _SA, "old": "            if node in self.parent_particle.tree_nodes or node == tree.outlier_node_name:\n                log_p = self.log_half + self._get_log_p(tree)", "new": "            if node in self.parent_particle.tree_nodes or node == tree.outlier_node_name:\n                log_p = np.log(0.25) + self._get_log_p(tree)"},
        {"file": _SA, "old": "                log_p = self.log_half\n\n                num_children", "new": "                log_p = np.log(0.75)\n\n                num_children"},
    ]},
    {"name": "benign-semi-rename-and-reorder", "kind": "benign", "file": _SA, "old": "        log_q = np.array([x.log_p for x in trees])\n        log_q = log_normalize(log_q)\n        self._curr_trees = trees\n        self._set_q_dist(log_q)\n        self._log_p = dict(zip(trees, log_q))", "new": "        table = log_normalize(np.array([t.log_p for t in trees]))\n        self._log_p = dict(zip(trees, table))\n        self._set_q_dist(table)\n        self._curr_trees = trees"},
    {"name": "benign-fully-adapted-loop-rewrite", "kind": "benign", "file": _FA, "old": "        log_q = np.array([x.log_p for x in trees])\n", "new": "        vals = []\n        for holder in trees:\n            vals.append(holder.log_p)\n        log_q = np.array(vals)\n"},
    {"name": "A1-existing-arm-forgets-the-point", "kind": "break", "rule": "A1", "file": "phyclone/smc/kernels/bootstrap.py", "old": "        tree = self.parent_tree.copy()\n\n        tree.add_data_point_to_node(self.data_point, node)\n\n        return tree", "new": "        tree = self.parent_tree.copy()\n\n        return tree"},
    {"name": "H1-roots-are-all-clones", "kind": "break", "rule": "H1", "file": "phyclone/smc/swarm/tree_holder.py", "old": "        self.tree_roots = np.asarray(tree.roots)", "new": "        self.tree_roots = np.asarray(tree.nodes)"},
    {"name": "H1-children-count-of-wrong-node", "kind": "break", "rule": "H1", "file": "phyclone/smc/swarm/tree_holder.py", "old": "self.num_children_on_node_that_matters = tree.get_number_of_children(self.node_last_added_to)", "new": "self.num_children_on_node_that_matters = tree.get_number_of_children(tree.root_node_name)"},
]
