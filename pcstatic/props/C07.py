"""C07 — every tree is a well-formed forest and no move loses or duplicates data (structural premises).

Decided here:
  V1  the four views of the assignment (_node_indices, _node_indices_rev, _data, node payloads) are
      written together: map entry <=> reverse entry with key and value swapped; add_node => both entries
      under the payload's own node_id; node removal => deletion from both maps and from _data for the same
      node; _data list edits <=> payload edits (outlier set excepted); whole-map writes come together;
      a tree under construction that receives nodes directly is given its index entries;
  V2  relabelling is total and consistent (visitor writes payload id, data, both maps for every vertex;
      relabel_nodes installs the three containers of that one visitor and carries the outliers over);
  V3  graft relabelling: every grafted node except the dummy root gets data and index entries; a clashing
      label is replaced by one strictly above every label of both trees, incremented before use;
  L1  linear use of data points in the sampler moves (typestate over abstract paths): removed => added back
      exactly once with the same variable (to the same tree for a clone move); outliers transferred in the
      same loop body; get_subtree / remove_subtree on the same tree with the same subtree; every graft
      candidate is a fresh copy receiving exactly one graft; grafted subtree outliers are carried over;
  L2  every sampler returns a tree on every path; the SMC driver consumes one data point per update over
      num_iterations = len(data_points) steps and is handed the order drawn from the tree.
NOT decided: forest-ness as a graph-theoretic fact for arbitrary edit sequences (rustworkx compose /
subgraph / remove_node_retain_edges are trusted).  The membership assertions of add_data_point_to_node /
TreeNode and the isomorphism assertion of _get_constrained_path are recorded, not rules.
"""
import ast
import copy as _copy

from ..astutil import call_name, calls, last_name, u
from ..effects import TreeFx, walk_no_nested, plain_events, GRAPH_MUT
from ..formula import extract, spec
from ..model import AnalysisError, FunctionInfo
from ..paths import enumerate_paths
from ..termflow import Poly, Unsupported, equivalent, g_not, key_atom, show, show_key, vkey

NAV = {"get_parent", "_update_path_to_root", "update", "__init__", "copy"}
MAPS = ("_node_indices", "_node_indices_rev")
NODE_CREATING = ("add_node", "compose", "extend_from_edge_list", "extend_from_weighted_edge_list", "add_nodes_from", "add_child", "add_parent")
NODE_REMOVING = ("remove_node", "remove_nodes_from", "remove_node_retain_edges", "remove_node_retain_edges_by_id", "remove_node_retain_edges_by_key")


def _short(fi):
    q = fi.qualname
    return q[len("phyclone."):] if q.startswith("phyclone.") else q


def _eq(a, b):
    try:
        return equivalent(a, b)[0]
    except Unsupported:
        return vkey(a) == vkey(b)


# =========================================================================== V1
class _Views:
    """View-relevant events of one method relative to the tree object with key S."""

    def __init__(self, S, events):
        self.S = S
        self.events = events

    def is_attr(self, k, name):
        a = key_atom(k)
        return a is not None and a[0] == "attr" and a[2] == name and a[1] == self.S

    def sub_of(self, v, name):
        """idx key if v (a value or key) is S.<name>[idx]."""
        k = vkey(v) if not isinstance(v, tuple) else v
        a = key_atom(k)
        if a is not None and a[0] == "sub" and self.is_attr(a[1], name):
            return a[2]
        return None

    def name_of(self, idx, I):
        """Name key of the node at index key `idx`: S._node_indices[name] read, or an entry written here."""
        k = self.sub_of(idx, "_node_indices")
        if k is not None:
            return k
        for e in I:
            if vkey(e.args[2]) == idx:
                return vkey(e.args[1])
        return None

    def is_outlier(self, k):
        a = key_atom(k)
        return a is not None and a[0] == "attr" and a[2] == "_OUTLIER_NODE_NAME"


def _guard_extra_ok(extra, n):
    """Guards by which the payload edit is narrower than the data-list edit may only exclude the outlier set."""
    for g in extra:
        txt = show_key(g)
        if "_OUTLIER_NODE_NAME" not in txt or show_key(n) not in txt or not txt.startswith("not "):
            return False
    return True


def _strip_breaks(fi):
    """A copy of the function with `break` replaced by `pass`: the loop then visits more elements, which only
    adds obligations for a co-update rule (TermFlow does not interpret `break`)."""
    if not any(isinstance(n, ast.Break) for n in ast.walk(fi.node)):
        return fi
    node = _copy.deepcopy(fi.node)

    class T(ast.NodeTransformer):
        def visit_Break(self, n):
            return ast.copy_location(ast.Pass(), n)

    node = T().visit(node)
    f2 = FunctionInfo(fi.qualname, node, fi.module, cls=fi.cls)
    return f2


def _touches_views(fi, me="self"):
    """Does the function write the four views of the tree held by `me` (syntactically)?"""
    def mine(e):
        return isinstance(e, ast.Attribute) and e.attr in MAPS + ("_data", "_graph") and isinstance(e.value, ast.Name) and e.value.id == me

    for n in walk_no_nested(fi.node):
        if mine(n) and isinstance(n.ctx, (ast.Store, ast.Del)):
            return True
        if isinstance(n, (ast.Assign, ast.AugAssign, ast.Delete)):
            tg = n.targets if not isinstance(n, ast.AugAssign) else [n.target]
            for t in tg:
                if isinstance(t, ast.Subscript) and mine(t.value):
                    return True
        if isinstance(n, ast.Call) and isinstance(n.func, ast.Attribute):
            f = n.func
            if f.attr in GRAPH_MUT and mine(f.value) and f.value.attr == "_graph":
                return True
            if f.attr in ("append", "extend", "remove", "pop", "clear", "insert") and isinstance(f.value, ast.Subscript) and mine(f.value.value) and f.value.value.attr == "_data":
                return True
    return False


def rule_V1(ctx, fx):
    prog = ctx.prog
    ctx.rule("V1", "name->index map, index->name map, data lists and node payloads are written together (entries swapped, same node, same data point); a tree under construction that receives nodes gets its index entries", 35)
    for name, fi in list(fx.tree_methods.items()) + [(k, v["getter"]) for k, v in fx.tree_cls.properties.items() if "getter" in v]:
        me = fx.self_name(fi)
        if me is None:
            continue
        if prog.is_new_function(fi):
            # a private helper newer than the rules is looked into from every method that calls it: its writes are
            # judged there, together with the caller's (half of a paired write may live on either side of the call)
            callers = [g for g in fx.tree_methods.values() if g is not fi and any(isinstance(c.func, ast.Attribute) and c.func.attr == fi.name for c in calls(g.node))]
            if callers:
                ctx.note("V1: %s is judged inside its callers (%s)" % (fi.qualname, ", ".join(sorted(g.name for g in callers))))
                continue
        try:
            ex = extract(prog, _strip_breaks(fi), opaque_self_methods=NAV, copy_is_identity=False)
        except Unsupported as e:
            if _touches_views(fi, me):
                raise AnalysisError("V1: %s edits the views but cannot be interpreted: %s" % (fi.qualname, e))
            continue
        _v1_self(ctx, fi, ex, me)
        ctx.analysed(fi)
    _v1_constructed(ctx, fx)


def _v1_self(ctx, fi, ex, me="self"):
    S = vkey(Poly.atom(("v", "P0")))
    evs = plain_events(ex.events)  # `self` after an opaque call made for its effect is still `self`
    V = _Views(S, evs)
    I, R, DI, DR, DD, DA, DRm, PA, PRm, ADD, REM, NODEID, WHOLE = [], [], [], [], [], [], [], [], [], [], [], [], {}
    resets = False
    for e in evs:
        nm = e.name[1:] if e.name.startswith(".") else e.name
        if e.name == "store_sub":
            base = vkey(e.args[0])
            if V.is_attr(base, "_node_indices"):
                I.append(e)
            elif V.is_attr(base, "_node_indices_rev"):
                R.append(e)
        elif e.name == "store_attr":
            a = e.kwargs.get("attr")
            b = vkey(e.args[0])
            if a in MAPS + ("_data",):
                WHOLE.setdefault(b, {}).setdefault(a, e)
            if a == "node_id":
                NODEID.append(e)
        elif e.name == "del":
            for tbl, nm2 in ((DI, "_node_indices"), (DR, "_node_indices_rev"), (DD, "_data")):
                k = V.sub_of(e.args[0], nm2)
                if k is not None:
                    tbl.append((k, e))
        elif e.recv is not None and V.sub_of(e.recv, "_data") is not None and nm in ("append", "extend", "remove"):
            (DRm if nm == "remove" else DA).append((V.sub_of(e.recv, "_data"), nm, e))
        elif e.recv is not None and nm in ("add_data_point", "add_data_point_list", "remove_data_point"):
            gi = V.sub_of(e.recv, "_graph")
            if gi is not None:
                (PRm if nm == "remove_data_point" else PA).append((gi, nm, e))
        elif e.recv is not None and V.is_attr(vkey(e.recv), "_graph"):
            if nm in NODE_CREATING:
                ADD.append((nm, e))
            elif nm in NODE_REMOVING:
                REM.append((nm, e))
        elif e.recv is not None and vkey(e.recv) == S and nm == "__init__":
            resets = True
    whole_self = WHOLE.get(S, {})
    lab = _short(fi)
    if _touches_views(fi, me) and not (I or R or DI or DR or DD or DA or DRm or PA or PRm or ADD or REM or WHOLE or resets):
        raise AnalysisError("V1: %s edits the views but no such event on `self` was extracted" % fi.qualname)
    done = set()

    def once(key):
        if key in done:
            return False
        done.add(key)
        return True

    def gset(e):
        return set(e.guards)

    # (a) map entry <=> reverse entry, swapped, on the same paths
    for e in I:
        k, v = e.args[1], e.args[2]
        if not once(("I", vkey(k), vkey(v), tuple(e.guards))):
            continue
        ok = any(_eq(r.args[1], v) and _eq(r.args[2], k) and gset(r) == gset(e) for r in R)
        ctx.check(ok, "V1", "%s: _node_indices[%s] = %s has the swapped _node_indices_rev entry" % (lab, show(k)[:50], show(v)[:50]), fi.where(e.node), "the name->index entry is written without the index->name entry %s -> %s on the same paths: Tree.get_parent / _update_path_to_root / the clade visitors resolve indices through the reverse map" % (show(v)[:60], show(k)[:60]), construct=fi.qualname, stmt="_node_indices entry has its reverse")
    for e in R:
        i, n = e.args[1], e.args[2]
        if not once(("R", vkey(i), vkey(n), tuple(e.guards))):
            continue
        ok = any(_eq(x.args[1], n) and _eq(x.args[2], i) and gset(x) == gset(e) for x in I)
        ctx.check(ok, "V1", "%s: _node_indices_rev[%s] = %s has the swapped _node_indices entry" % (lab, show(i)[:50], show(n)[:50]), fi.where(e.node), "the index->name entry is written without the name->index entry %s -> %s on the same paths" % (show(n)[:60], show(i)[:60]), construct=fi.qualname, stmt="_node_indices_rev entry has its forward")
    # (b) add_node => registered in both maps, under the payload's own node_id
    for nm, e in ADD:
        if nm != "add_node":
            continue
        if not once(("ADD", tuple(vkey(a) for a in e.args))):
            continue
        res = Poly.atom(("mcall", "add_node", vkey(e.recv), tuple(vkey(a) for a in e.args), ()))
        regs = [x for x in I if _eq(x.args[2], res)]
        if set(whole_self) >= set(MAPS):
            ctx.ok("V1", "%s: add_node with both maps installed wholesale" % lab, fi.where(e.node))
            continue
        ok = bool(regs)
        why = "the index returned by add_node is not entered in _node_indices: the node exists in the graph but has no name"
        if ok:
            pa = e.args[0].as_atom() if isinstance(e.args[0], Poly) else None
            if pa is not None and pa[0] == "call" and pa[1] == "new:TreeNode" and len(pa[2]) >= 3:
                ok = all(vkey(x.args[1]) == pa[2][2] or _eq(x.args[1], _poly_of(pa[2][2])) for x in regs)
                why = "the node is registered under %s but its payload carries node_id %s" % (show(regs[0].args[1]), show_key(pa[2][2]))
        ctx.check(ok, "V1", "%s: add_node result registered under the payload's node_id" % lab, fi.where(e.node), why, construct=fi.qualname, stmt="add_node registered")
    # (c) registration of a node that is already in the graph uses the payload's current node_id
    for e in I:
        k, v = e.args[1], e.args[2]
        va = v.as_atom() if isinstance(v, Poly) else None
        if va is None or va[0] not in ("elem", "elemv", "elemk"):
            continue
        if not once(("C", vkey(k), vkey(v))):
            continue
        slot = Poly.atom(("attr", vkey(Poly.atom(("sub", vkey(Poly.atom(("attr", S, "_graph"))), vkey(v)))), "node_id"))
        ok = _eq(k, slot) or any(vkey(x.args[0]) == vkey(Poly.atom(("sub", vkey(Poly.atom(("attr", S, "_graph"))), vkey(v)))) and _eq(x.args[1], k) for x in NODEID)
        ctx.check(ok, "V1", "%s: node at %s registered under its payload's node_id" % (lab, show(v)[:50]), fi.where(e.node), "the node at index %s is registered as %s, which is neither its payload's node_id nor the id written to the payload here" % (show(v)[:60], show(k)[:80]), construct=fi.qualname, stmt="registered name is payload node_id")
    # (d) node removal => deletion from both maps and from _data for the same node
    removing = [(nm, e) for nm, e in REM if not (nm.startswith("remove_node_retain_edges") and any(n2 == "compose" for n2, _ in ADD))]
    if removing and not (set(whole_self) >= set(MAPS)):
        e0 = removing[0][1]
        ctx.check(bool(DI), "V1", "%s: nodes removed from the graph are deleted from _node_indices" % lab, fi.where(e0.node), "graph nodes are removed but no _node_indices entry is deleted: Tree.nodes / labels and later lookups see names of nodes that no longer exist", construct=fi.qualname, stmt="removal deletes _node_indices")
        # the deleted names and the removed graph nodes are derived from the same argument, and never the root
        def params_in(k):
            out = set()

            def rec(x):
                if isinstance(x, tuple):
                    if len(x) == 2 and x[0] == "v" and isinstance(x[1], str) and x[1] != "P0":
                        out.add(x[1])
                    for y in x:
                        rec(y)

            rec(k)
            return out

        rp = set()
        for nm, e in removing:
            for a in e.args:
                rp |= params_in(vkey(a))
        dp = set()
        for k, e in DI:
            dp |= params_in(k)
        if DI:
            ctx.check(bool(rp & dp) or (not rp and not dp), "V1", "%s: deleted names and removed graph nodes derive from the same argument" % lab, fi.where(e0.node), "the nodes removed from the graph are computed from %s but the map / data entries deleted are computed from %s" % (sorted(rp) or "self only", sorted(dp) or "self only"), construct=fi.qualname, stmt="removal and deletion range over the same nodes")
            rootdel = [e for k, e in DI if any(show_key(g) in ("(%s == P0._ROOT_NODE_NAME)" % show_key(k), "(P0._ROOT_NODE_NAME == %s)" % show_key(k)) for g in e.guards)]
            ctx.check(not rootdel, "V1", "%s: the virtual root keeps its entries" % lab, fi.where(e0.node), "the entries deleted are those of the virtual root (guard direction): every later lookup of the root fails or, worse, the subtree's nodes stay registered", construct=fi.qualname, stmt="root entries kept")
        for k, e in DI:
            if not once(("DI", k, tuple(e.guards))):
                continue
            okd = any(k2 == k and gset(e2) == gset(e) for k2, e2 in DD)
            okr = any((V.name_of(i2, I) == k) and gset(e2) == gset(e) for i2, e2 in DR)
            ctx.check(okd, "V1", "%s: del _node_indices[%s] comes with del _data[…] of the same node" % (lab, show_key(k)[:50]), fi.where(e.node), "the removed node's data list stays in _data: its data points are still reported by Tree.data / labels (duplicated once the subtree is grafted back)", construct=fi.qualname, stmt="removal deletes _data")
            ctx.check(okr, "V1", "%s: del _node_indices[%s] comes with del _node_indices_rev[its index]" % (lab, show_key(k)[:50]), fi.where(e.node), "the removed node's index->name entry stays behind: rustworkx reuses freed indices, so a later add_node / compose can land on an index that still maps to the old name", construct=fi.qualname, stmt="removal deletes _node_indices_rev")
    for i, e in DR:
        if not once(("DR", i, tuple(e.guards))):
            continue
        k = V.name_of(i, I)
        ok = k is not None and any(k2 == k for k2, _ in DI)
        ctx.check(ok, "V1", "%s: del _node_indices_rev[%s] comes with del _node_indices of the same node" % (lab, show_key(i)[:50]), fi.where(e.node), "an index->name entry is deleted without the matching name->index entry", construct=fi.qualname, stmt="rev deletion has forward deletion")
    for k, e in DD:
        if V.is_outlier(k) or not once(("DD", k, tuple(e.guards))):
            continue
        ok = any(k2 == k for k2, _ in DI)
        ctx.check(ok, "V1", "%s: del _data[%s] comes with del _node_indices of the same node" % (lab, show_key(k)[:50]), fi.where(e.node), "a node's data list is deleted while the node stays registered", construct=fi.qualname, stmt="data deletion has map deletion")
    private_helper = fi.name.startswith("_") and not fi.name.startswith("__") and fi.cls is not None and any(
        m is not fi and any(isinstance(c.func, ast.Attribute) and c.func.attr == fi.name and u(c.func.value) == "self" for c in calls(m.node)) for m in fi.cls.methods.values())
    if (DI or DR) and not removing and not resets and not private_helper:
        # (a private helper that only drops the entries is judged where it is called: the callers are analysed with
        # the helper inlined, so the pairing with the graph removal is checked there)
        e = (DI or DR)[0][1]
        ctx.fail("V1", "%s: map entries deleted without removing the node from the graph" % lab, fi.where(e.node), "index entries are deleted but no graph node is removed", construct=fi.qualname, stmt="deletion without removal")
    # (e) data list <=> payload
    pairs = (("append", "add_data_point"), ("extend", "add_data_point_list"), ("remove", "remove_data_point"))
    for n, nm, e in DA + DRm:
        if V.is_outlier(n) or not once(("DA", n, nm, tuple(vkey(a) for a in e.args), tuple(e.guards))):
            continue
        want = dict(pairs)[nm]
        # the list edit itself must also happen when the node is the outlier set (only the payload edit is exempt)
        for g in e.guards:
            txt = show_key(g)
            if "_OUTLIER_NODE_NAME" in txt and show_key(n) in txt:
                sib = any(V.is_outlier(n2) and nm2 == nm and len(e2.args) == len(e.args) and all(_eq(a, b) for a, b in zip(e2.args, e.args)) and g not in set(e2.guards) for n2, nm2, e2 in DA + DRm)
                ctx.check(sib, "V1", "%s: _data[%s].%s(…) also happens for the outlier set" % (lab, show_key(n)[:40], nm), fi.where(e.node), "the data list is only edited when the node is not the outlier set (guard %s) and no other arm edits the outlier list: an outlier is then never %s" % (txt[:80], "removed (it is duplicated by the following add)" if nm == "remove" else "recorded"), construct=fi.qualname, stmt="_data.%s covers the outlier set" % nm)
        ok = False
        for gi, pn, p in PA + PRm:
            if pn != want or V.name_of(gi, I) != n or len(p.args) != len(e.args) or not all(_eq(a, b) for a, b in zip(p.args, e.args)):
                continue
            if gset(e) <= gset(p) and _guard_extra_ok(gset(p) - gset(e), n):
                ok = True
        ctx.check(ok, "V1", "%s: _data[%s].%s(…) comes with payload %s of the same point(s)" % (lab, show_key(n)[:40], nm, want), fi.where(e.node), "the data list of the node is edited without the same edit of the node's payload (for every node but the outlier set): labels and likelihood disagree about where the data point sits", construct=fi.qualname, stmt="_data.%s has payload %s" % (nm, want))
    back = {b: a for a, b in pairs}
    for gi, pn, p in PA + PRm:
        if not once(("PA", gi, pn, tuple(vkey(a) for a in p.args), tuple(p.guards))):
            continue
        n = V.name_of(gi, I)
        ok = n is not None and any(n2 == n and nm == back[pn] and len(e.args) == len(p.args) and all(_eq(a, b) for a, b in zip(p.args, e.args)) and gset(e) <= gset(p) for n2, nm, e in DA + DRm)
        ctx.check(ok, "V1", "%s: payload %s comes with _data[…].%s of the same point(s)" % (lab, pn, back[pn]), fi.where(p.node), "the payload of a node is edited without the same edit of the node's data list", construct=fi.qualname, stmt="payload %s has _data.%s" % (pn, back[pn]))
    # (f) whole-map writes come together
    for b, d in WHOLE.items():
        if any(m in d for m in MAPS):
            ok = all(m in d for m in MAPS)
            e = next(iter(d.values()))
            ctx.check(ok, "V1", "%s: _node_indices and _node_indices_rev installed together" % lab, fi.where(e.node), "only one of the two index maps is replaced", construct=fi.qualname, stmt="whole maps together")


def _poly_of(k):
    from ..termflow import poly_from_key, _is_polykey

    if _is_polykey(k):
        return poly_from_key(k)
    return Poly.atom(k)


def _v1_constructed(ctx, fx):
    """Trees under construction (locals bound by Tree(…) / cls.__new__(cls)): a direct node-creating call on
    their graph needs either both maps installed wholesale or a registration loop over all node indices."""
    prog = ctx.prog
    for fi in prog.functions.values():
        if fi.cls is fx.payload_cls:
            continue
        fn = fx.fn(fi)
        me = fx.self_name(fi) if fi.cls is fx.tree_cls else None
        objs = {}
        for n in walk_no_nested(fi.node):
            if isinstance(n, ast.Call) and isinstance(n.func, ast.Attribute) and n.func.attr in NODE_CREATING:
                o = fn.graph_owner(n.func.value)
                if o is not None and o != me:
                    objs.setdefault(o, []).append(n)
        for o, creators in objs.items():
            whole = set()
            for n in walk_no_nested(fi.node):
                if isinstance(n, ast.Assign):
                    for t in n.targets:
                        if isinstance(t, ast.Attribute) and isinstance(t.value, ast.Name) and t.value.id == o and t.attr in MAPS:
                            whole.add(t.attr)
            for c in creators:
                inst = "%s: nodes put into %s._graph by %s get index entries" % (_short(fi), o, c.func.attr)
                if whole >= set(MAPS):
                    ctx.ok("V1", inst, fi.where(c), "both maps installed wholesale")
                    continue
                loop = _registration_loop(fi, fn, o)
                if loop is None:
                    verdict = _registers_by_effects(prog, fi, o)
                    if verdict is True:
                        ctx.ok("V1", inst, fi.where(c), "every node index of the graph is registered under its payload's node_id (decided on the effects of the function)")
                        continue
                    if verdict is None:
                        raise AnalysisError("V1: %s registers nodes of %s in a shape that is not recognised" % (fi.qualname, o))
                ok = loop is not None
                why = "nodes are added to %s._graph but there is neither a wholesale installation of both index maps nor a loop over %s._graph.node_indices() that registers every node under its payload's node_id" % (o, o)
                if ok:
                    hit = False
                    for steps, oc in enumerate_paths(fi.node.body):
                        if oc not in ("fall", "return"):
                            continue
                        idx = [i for i, s in enumerate(steps) if s.kind != "with" and any(x is c for x in walk_no_nested(s.node))]
                        if not idx:
                            continue
                        hit = True
                        if not any(s.kind == "iter" and s.node is loop.iter for s in steps[idx[0] + 1:]):
                            ok = False
                            why = "some path from the node-creating call to a normal exit does not pass the registration loop"
                    if not hit:
                        raise AnalysisError("V1: %s: node-creating call on no path" % fi.qualname)
                ctx.check(ok, "V1", inst, fi.where(c), why, construct=fi.qualname, stmt="constructed tree registers its nodes")
            ctx.analysed(fi)


def _registers_by_effects(prog, fi, o):
    """True: for every pseudo-element i of <o>._graph.node_indices() the function unconditionally registers i under the
    node_id of the payload at i (through _add_node_to_indices or the two map stores).  False: the function never
    registers anything on `o`.  None: it does, in a way that is not recognised."""
    from .. import termflow as tf

    some = False
    for n in walk_no_nested(fi.node):
        if isinstance(n, ast.Call) and isinstance(n.func, ast.Attribute) and n.func.attr == "_add_node_to_indices" and isinstance(n.func.value, ast.Name) and n.func.value.id == o:
            some = True
        if isinstance(n, ast.Subscript) and isinstance(n.ctx, ast.Store) and isinstance(n.value, ast.Attribute) and n.value.attr in MAPS and isinstance(n.value.value, ast.Name) and n.value.value.id == o:
            some = True
    if not some:
        return False
    try:
        ex = extract(prog, fi, opaque_self_methods={"_add_node_to_indices", "update", "_update_path_to_root"}, resolve_new_objects=True)
    except AnalysisError:
        return None
    hits = set()
    for e in ex.events:
        if e.name != "._add_node_to_indices" or len(e.args) != 2 or getattr(e, "full_guards", e.guards):
            continue
        name, idx = e.args
        ia = idx.as_atom() if isinstance(idx, tf.Poly) else None
        if ia is None or ia[0] != "elem":
            continue
        dom = key_atom(ia[1])
        if dom is None or dom[0] != "mcall" or dom[1] != "node_indices":
            continue
        graph = dom[2]
        ga = key_atom(graph)
        if ga is None or ga[0] != "attr" or ga[2] != "_graph" or ga[1] != vkey(e.recv):
            continue
        na = name.as_atom() if isinstance(name, tf.Poly) else None
        if na is None or na[0] != "attr" or na[2] != "node_id":
            continue
        pa = key_atom(na[1])
        while pa is not None and pa[0] == "mcall" and pa[1] in ("copy", "__copy__"):
            pa = key_atom(pa[2])
        if pa is not None and pa[0] == "sub" and pa[1] == graph and pa[2] == idx.key():
            hits.add(ia[2])
    return True if len(hits) == tf.K_ELEMS else None


def _registration_loop(fi, fn, o):
    """for i in o._graph.node_indices(): … o._add_node_to_indices(<o._graph[i].node_id>, i) (or the two stores),
    as a direct child of the loop body with nothing before it that can skip it."""
    defs = {}
    for n in walk_no_nested(fi.node):
        if isinstance(n, ast.Assign) and len(n.targets) == 1 and isinstance(n.targets[0], ast.Name):
            defs.setdefault(n.targets[0].id, []).append(n.value)

    def is_node_id_of(e, i):
        if isinstance(e, ast.Name) and len(defs.get(e.id, [])) == 1:
            e = defs[e.id][0]
        return isinstance(e, ast.Attribute) and e.attr == "node_id" and isinstance(e.value, ast.Subscript) and fn.graph_owner(e.value.value) == o and u(e.value.slice) == i

    for n in walk_no_nested(fi.node):
        if not isinstance(n, ast.For) or not isinstance(n.target, ast.Name):
            continue
        it = n.iter
        if not (isinstance(it, ast.Call) and isinstance(it.func, ast.Attribute) and it.func.attr == "node_indices" and not it.args and fn.graph_owner(it.func.value) == o):
            continue
        i = n.target.id
        fwd = rev = False
        for st in n.body:
            if isinstance(st, ast.Expr) and isinstance(st.value, ast.Call) and isinstance(st.value.func, ast.Attribute):
                c = st.value
                if c.func.attr == "_add_node_to_indices" and isinstance(c.func.value, ast.Name) and c.func.value.id == o and len(c.args) == 2 and u(c.args[1]) == i and is_node_id_of(c.args[0], i):
                    fwd = rev = True
            if isinstance(st, ast.Assign) and len(st.targets) == 1 and isinstance(st.targets[0], ast.Subscript):
                t = st.targets[0]
                if isinstance(t.value, ast.Attribute) and isinstance(t.value.value, ast.Name) and t.value.value.id == o:
                    if t.value.attr == "_node_indices" and is_node_id_of(t.slice, i) and u(st.value) == i:
                        fwd = True
                    if t.value.attr == "_node_indices_rev" and u(t.slice) == i and is_node_id_of(st.value, i):
                        rev = True
            if fwd and rev:
                return n
            if any(isinstance(x, (ast.Break, ast.Continue, ast.Return, ast.If)) for x in ast.walk(st)):
                break
    return None


# =========================================================================== V2 / V3 (spec comparison of final stores)
def _same_slots(ctx, rule, inst, fi, ex, sp, what):
    """Final attribute and subscript stores of the code equal those of the specification (slots matched by
    equivalent base / index terms, values compared as guarded terms)."""
    def slots(x):
        out = []
        for (b, i), v in x.sub_stores().items():
            out.append(("sub", b, i, v))
        for (b, a), v in x.stores().items():
            out.append(("attr", b, a, v))
        return out

    got, want = slots(ex), slots(sp)
    used = set()
    missing, wrong = [], []
    for kind, b, i, v in want:
        hit = None
        for j, (k2, b2, i2, v2) in enumerate(got):
            if j in used or k2 != kind:
                continue
            if b2 != b and not (kind == "sub" and _keq(b, b2)):
                continue
            if (i2 == i) or (kind == "sub" and _keq(i, i2)):
                hit = j
                break
        if hit is None:
            missing.append("%s[%s]" % (show_key(b)[:50], show_key(i)[:80] if kind == "sub" else i))
            continue
        used.add(hit)
        if not _eq(got[hit][3], v):
            wrong.append("%s[%s]: code %s ; spec %s" % (show_key(b)[:50], show_key(i)[:60] if kind == "sub" else i, show(got[hit][3])[:160], show(v)[:160]))
    extra = ["%s[%s]" % (show_key(b)[:50], show_key(i)[:80] if k == "sub" else i) for j, (k, b, i, v) in enumerate(got) if j not in used]
    ok = not missing and not wrong and not extra
    if not ok:
        # slots are matched by their index terms; an index computed through a conditional expression or a helper that
        # returns the label (one store at a conditional index instead of two stores under a test) is the same write:
        # compare, scenario by scenario, the stores that actually happen (object, index, value by value)
        from ..formula import effects_agree
        from ..termflow import ADict, AList

        def stores(x):
            return [e for e in x.events if e.name in ("store_sub", "store_attr") and not (e.args and isinstance(e.args[0], (ADict, AList)))]

        try:
            agree, _ = effects_agree(stores(ex), stores(sp))
        except Exception:  # noqa
            agree = False
        if agree:
            ctx.ok(rule, inst, fi.where(), "%s: %d store(s) agree with the specification scenario by scenario" % (what, len(stores(ex))))
            return True
    if not ok:
        from ..formula import undecided

        flat = lambda xs: [t for (k, b, i, v) in xs for t in (b, i if k == "sub" else None, v) if t is not None]
        undecided(ctx, rule, inst, flat(got) + list(ex.events), flat(want) + list(sp.events))
    why = "%s differs from the specification:%s%s%s" % (what, (" missing writes: " + "; ".join(missing[:3])) if missing else "", (" different values: " + "; ".join(wrong[:2])) if wrong else "", (" unexpected writes: " + "; ".join(extra[:3])) if extra else "")
    ctx.check(ok, rule, inst, fi.where(), why, construct=fi.qualname, stmt=what, detail="%d final stores agree" % len(want))
    return ok


def _keq(k1, k2):
    if k1 == k2:
        return True
    try:
        return equivalent(_poly_of(k1), _poly_of(k2))[0]
    except Exception:
        return False


SPEC_DISCOVER = """
def s(self, v, t):
    old = self.graph[v].node_id
    if old == self.root_node_name:
        new = old
    else:
        new = self.curr_idx
        self.curr_idx = self.curr_idx + 1
        self.graph[v].node_id = new
        self.data[new] = self.orig_data[old]
    self.node_indices[new] = v
    self.node_indices_rev[v] = new
"""

SPEC_VISITOR_INIT = """
def s(self, tree, data, start_idx=0):
    self.data = data
    self.orig_data = tree._data
    self.graph = tree._graph
    self.node_indices = {}
    self.node_indices_rev = {}
    self.curr_idx = start_idx
    self.root_node_name = tree.root_node_name
"""

SPEC_RELABEL = """
def s(self):
    data = defaultdict(list)
    data[self._OUTLIER_NODE_NAME] = list(self._data[self._OUTLIER_NODE_NAME])
    visitor = PreOrderNodeRelabeller(self, data)
    rx.dfs_search(self._graph, [self._node_indices[self._ROOT_NODE_NAME]], visitor)
    self._data = data
    self._node_indices = visitor.node_indices
    self._node_indices_rev = visitor.node_indices_rev
"""

SPEC_GRAFT = """
def s(self, node_map_idx, subtree, subtree_dummy_root):
    label = max(self.nodes + subtree.nodes + [-1])
    for old_idx, new_idx in node_map_idx.items():
        if old_idx != subtree_dummy_root:
            payload = self._graph[new_idx]
            old_name = payload.node_id
            if old_name in self._data:
                label = label + 1
                name = label
                payload.node_id = name
            else:
                name = old_name
            self._data[name] = subtree._data[old_name]
            self._node_indices[name] = new_idx
            self._node_indices_rev[new_idx] = name
"""


def rule_V2(ctx):
    prog = ctx.prog
    ctx.rule("V2", "relabelling writes payload id, data, both maps for every discovered vertex; relabel_nodes installs the containers of that one visitor and carries the outliers over", 5)
    dv = prog.fn("PreOrderNodeRelabeller.discover_vertex")
    vcls = dv.cls
    if not any(b.split(".")[-1] == "DFSVisitor" for c in prog.mro(vcls) for b in c.bases):
        raise AnalysisError("V2: PreOrderNodeRelabeller is no longer a rustworkx DFSVisitor")
    _same_slots(ctx, "V2", "PreOrderNodeRelabeller.discover_vertex: id, data, both maps per vertex", dv, extract(prog, dv), spec(prog, SPEC_DISCOVER, dv), "what the relabelling visitor writes for a vertex")
    vi = prog.fn("PreOrderNodeRelabeller.__init__")
    _same_slots(ctx, "V2", "PreOrderNodeRelabeller.__init__: reads the tree's own data and graph, starts with empty maps", vi, extract(prog, vi), spec(prog, SPEC_VISITOR_INIT, vi), "the visitor's initial state")
    rn = prog.fn("Tree.relabel_nodes")
    ex, sp = extract(prog, rn, opaque_self_methods=NAV), spec(prog, SPEC_RELABEL, rn, opaque_self_methods=NAV)
    _same_slots(ctx, "V2", "Tree.relabel_nodes: installs data and both maps of the one visitor, outliers carried over", rn, ex, sp, "the containers installed by relabel_nodes")
    g = [e for e in ex.events if e.name.endswith("dfs_search")]
    w = [e for e in sp.events if e.name.endswith("dfs_search")]
    ok = len(g) == len(w) == 1 and len(g[0].args) == len(w[0].args) and all(_eq(a, b) for a, b in zip(g[0].args, w[0].args))
    ctors = [c for c in calls(rn.node) if last_name(c) == vcls.name]
    srcs = {u(n.value.value) for n in walk_no_nested(rn.node) if isinstance(n, ast.Assign) and isinstance(n.value, ast.Attribute) and n.value.attr in ("node_indices", "node_indices_rev", "data") and any(isinstance(t, ast.Attribute) and t.attr in MAPS + ("_data",) for t in n.targets)}
    ctx.check(len(ctors) == 1 and len(srcs) <= 1, "V2", "Tree.relabel_nodes: one visitor object supplies the installed maps", rn.where(), "the installed containers come from %d visitor constructions / %d different objects: the maps of a visitor that was never driven over the graph are empty" % (len(ctors), len(srcs)), construct=rn.qualname, stmt="one visitor object")
    ctx.check(ok, "V2", "Tree.relabel_nodes: the visitor is driven over the whole graph from the root", rn.where(), "dfs_search is not run on self._graph from the root with the visitor whose containers are installed", construct=rn.qualname, stmt="dfs_search(graph, [root], visitor)")
    ctx.analysed(dv, vi, rn)


def rule_V3(ctx):
    prog = ctx.prog
    ctx.rule("V3", "graft relabelling: every grafted node but the dummy root gets data and index entries; a clashing label is replaced by one strictly above every label of both trees, incremented before use", 2)
    f = prog.fn("Tree._relabel_grafted_subtree_nodes")
    _same_slots(ctx, "V3", "Tree._relabel_grafted_subtree_nodes", f, extract(prog, f), spec(prog, SPEC_GRAFT, f), "what graft relabelling writes")
    # add_subtree hands it the compose map, the composed subtree and the dummy root that it removed from the graph
    a = prog.fn("Tree.add_subtree")
    ex = extract(prog, a, opaque_self_methods=NAV | {"_relabel_grafted_subtree_nodes"})
    events = plain_events(ex.events)
    comp = [e for e in events if e.name == ".compose"]
    rel = [e for e in events if e.name == "._relabel_grafted_subtree_nodes"]
    rem = [e for e in events if e.name == ".remove_node_retain_edges"]
    ok = bool(comp) and len(comp) == len(rel) == len(rem)
    why = "add_subtree no longer composes, removes the dummy root and relabels once per path"
    if ok:
        for c, r, x in zip(comp, rel, rem):
            res = Poly.atom(("mcall", "compose", vkey(c.recv), tuple(vkey(y) for y in c.args), ()))
            dummy = r.args[2] if len(r.args) == 3 else None
            good = len(r.args) == 3 and _eq(r.args[0], res) and dummy is not None
            if good:
                # the removed node is the image of the dummy root, the only key the relabelling skips
                want = Poly.atom(("sub", vkey(res), vkey(dummy)))
                good = _eq(x.args[0], want)
                # the composed graph is the graph of the subtree whose data lists are read
                ca = c.args[0].as_atom() if isinstance(c.args[0], Poly) else None
                good = good and ca is not None and ca[0] == "attr" and ca[2] == "_graph" and ca[1] == vkey(r.args[1])
                # the dummy root is the subtree's root index, attached below the parent by the node map
                m = c.args[1]
                vals = [kv[1] for kv in getattr(m, "items", {}).values()]
                good = good and len(vals) == 1 and hasattr(vals[0], "items") and _eq(vals[0].items[0], dummy)
            if not good:
                ok = False
                why = "the relabelling does not receive (compose map, the composed subtree, the dummy root whose image is removed from the graph)"
    ctx.check(ok, "V3", "Tree.add_subtree: relabels exactly the composed nodes minus the removed dummy root", a.where(), why, construct=a.qualname, stmt="compose / remove dummy / relabel agree")
    ctx.analysed(f, a)


# =========================================================================== L1
RM_OPS = {"remove_data_point_from_node": "node", "remove_data_point_from_outliers": "outliers"}
ADD_OPS = {"add_data_point_to_node": "node", "add_data_point_to_outliers": "outliers"}


# helpers newer than the rules that hand back a copy of a tree with one data point removed
# (`new_tree = self._copy_without(tree, data_point, node)`): name -> (removal op, position of the data point argument)
_REMOVING_COPIES = {}


def _summarise_removing_copies(prog, fx):
    _REMOVING_COPIES.clear()
    for h in prog.functions.values():
        if not prog.is_new_function(h) or h.cls in (fx.tree_cls, fx.payload_cls) or h.parent is not None:
            continue
        ops = [(k, t, c) for k, t, c in _ops(h.node) if k != "copy"]
        if len(ops) != 1 or ops[0][0] not in RM_OPS or not ops[0][2].args or not isinstance(ops[0][2].args[0], ast.Name):
            continue
        k, t, c = ops[0]
        params = [a.arg for a in h.node.args.posonlyargs + h.node.args.args]
        if "staticmethod" not in h.decorators and h.cls is not None:
            params = params[1:]
        rets = [r for r in walk_no_nested(h.node) if isinstance(r, ast.Return)]
        defs = [n for n in walk_no_nested(h.node) if isinstance(n, ast.Assign) and any(isinstance(x, ast.Name) and x.id == t for x in n.targets)]
        fresh = len(defs) == 1 and isinstance(defs[0].value, ast.Call) and isinstance(defs[0].value.func, ast.Attribute) and defs[0].value.func.attr == "copy"
        if c.args[0].id in params and fresh and rets and all(isinstance(r.value, ast.Name) and r.value.id == t for r in rets) and not any(isinstance(n, (ast.For, ast.While, ast.If, ast.Try)) for n in walk_no_nested(h.node)):
            _REMOVING_COPIES[h.name] = (k, params.index(c.args[0].id))


def _ops(node):
    """Tree-edit calls on a plain name under `node`, in source order: (kind, tree var, call)."""
    out = []
    for c in sorted((n for n in walk_no_nested(node) if isinstance(n, (ast.Call, ast.Assign))), key=lambda n: (n.lineno, n.col_offset)):
        if isinstance(c, ast.Assign):
            v = c.value
            if isinstance(v, ast.Call) and len(c.targets) == 1 and isinstance(c.targets[0], ast.Name) and not v.keywords:
                hn = v.func.attr if isinstance(v.func, ast.Attribute) else (v.func.id if isinstance(v.func, ast.Name) else None)
                if hn in _REMOVING_COPIES and _REMOVING_COPIES[hn][1] < len(v.args):
                    k, i = _REMOVING_COPIES[hn]
                    fake = ast.copy_location(ast.Call(func=ast.Attribute(value=c.targets[0], attr=k, ctx=ast.Load()), args=[v.args[i]], keywords=[]), v)
                    out.append((k, c.targets[0].id, fake))
            continue
        if isinstance(c.func, ast.Attribute) and isinstance(c.func.value, ast.Name):
            nm = c.func.attr
            if nm in RM_OPS or nm in ADD_OPS or nm in ("add_subtree", "remove_subtree", "get_subtree", "copy"):
                out.append((nm, c.func.value.id, c))
    return out


def _step_ops(step):
    if step.kind == "with":
        out = []
        for it in step.node.items:
            out.extend(_ops(it.context_expr))
        return out
    if isinstance(step.node, ast.ExceptHandler):
        return []
    return _ops(step.node)


def _iteration_paths(loop):
    """One-iteration abstract paths of a for loop: lists of steps inside the body."""
    if loop.orelse:
        raise AnalysisError("L1: for/else in a sampler move is not modelled")
    out = []
    for steps, oc in enumerate_paths([loop]):
        if steps and steps[0].kind == "iter" and steps[0].taken == 1 and oc in ("fall", "return"):
            out.append(steps[1:])
    return out


def _move_functions(prog, fx):
    for fi in prog.functions.values():
        if fi.cls in (fx.tree_cls, fx.payload_cls) or fi.parent is not None:
            continue
        yield fi


def rule_L1(ctx, fx):
    prog = ctx.prog
    ctx.rule("L1", "linear use of data points and subtrees in the sampler moves: removed => added back exactly once (same variable, same tree for a clone move); outliers transferred in the same loop body; get/remove_subtree paired on one tree; each graft candidate is a fresh copy grafted once; grafted outliers carried over", 10)
    transfer_classes = {}
    _summarise_removing_copies(prog, fx)
    for fi in _move_functions(prog, fx):
        if fi.name in _REMOVING_COPIES and prog.is_new_function(fi):
            continue  # judged where it is called: the removal is paired with the caller's add
        all_ops = _ops(fi.node)
        kinds = {k for k, _, _ in all_ops}
        if not (kinds & (set(RM_OPS) | {"add_subtree", "remove_subtree", "get_subtree"})) and not _outlier_loops(fi):
            continue
        _l1_remove_add(ctx, fi, all_ops)
        _l1_outlier_loops(ctx, fi, transfer_classes)
        _l1_get_remove(ctx, fi, all_ops)
        _l1_graft_candidates(ctx, fi)
        ctx.analysed(fi)
    _l1_graft_outliers(ctx, fx, transfer_classes)
    _l1_prune_regraft_plumbing(ctx)


def _l1_remove_add(ctx, fi, all_ops):
    rms = [(k, t, c) for k, t, c in all_ops if k in RM_OPS]
    if not rms:
        return
    bad = {}
    dup = {}

    def walk_path(steps):
        held = []  # (dp text, tree, rm kind, call)
        spent = set()
        credit = []  # (dp text, tree): added to another tree before being removed from its own (a transfer)
        for s in steps:
            for k, t, c in _step_ops(s):
                if k in RM_OPS and c.args:
                    d = u(c.args[0])
                    pre = [x for x in credit if x[0] == d and x[1] != t]
                    if pre:
                        credit.remove(pre[0])
                        spent.add(d)
                        continue
                    held.append((d, t, RM_OPS[k], c))
                elif k in ADD_OPS and c.args:
                    d = u(c.args[0])
                    hit = [h for h in held if h[0] == d]
                    if not hit and d not in spent:
                        credit.append((d, t))
                    if hit:
                        h = hit[0]
                        held.remove(h)
                        spent.add(d)
                        if h[2] == "node" and h[1] != t:
                            bad.setdefault(id(h[3]), (h[3], "the point removed from a clone of `%s` is added to `%s`: `%s` has lost it and `%s` may now hold it twice" % (h[1], t, h[1], t)))
                    elif d in spent:
                        dup.setdefault(id(c), (c, "the data point `%s` is added a second time after it was already added back" % d))
        for h in held:
            bad.setdefault(id(h[3]), (h[3], "on some path the data point `%s` removed here is not added to any tree again: the returned tree has lost it" % h[0]))

    for steps, oc in enumerate_paths(fi.node.body):
        if oc in ("fall", "return"):
            walk_path(steps)
    for loop in [n for n in walk_no_nested(fi.node) if isinstance(n, ast.For)]:
        if any(k in RM_OPS or k in ADD_OPS for k, _, _ in _ops(loop)):
            for steps in _iteration_paths(loop):
                walk_path(steps)
    for j, (k, t, c) in enumerate(rms):
        inst = "%s: %s removed from %s is added back exactly once%s" % (_short(fi), u(c.args[0]) if c.args else "?", t, " (arm %d)" % (j + 1) if len(rms) > 1 else "")
        if id(c) in bad:
            ctx.fail("L1", inst, fi.where(c), bad[id(c)][1], construct=fi.qualname, stmt=u(c))
        else:
            ctx.ok("L1", inst, fi.where(c))
    for c, why in dup.values():
        ctx.fail("L1", "%s: %s" % (_short(fi), u(c)), fi.where(c), why, construct=fi.qualname, stmt=u(c))


def _outlier_loops(fi):
    out = []
    for n in walk_no_nested(fi.node):
        if isinstance(n, ast.For) and isinstance(n.target, ast.Name) and isinstance(n.iter, ast.Attribute) and n.iter.attr == "outliers" and isinstance(n.iter.value, ast.Name):
            if any(k in RM_OPS or k in ADD_OPS for k, _, _ in _ops(n)):
                out.append(n)
    return out


def _l1_outlier_loops(ctx, fi, transfer_classes):
    for loop in _outlier_loops(fi):
        d, X = loop.target.id, loop.iter.value.id
        end = getattr(loop, "end_lineno", loop.lineno)
        graft_src = {id(c.args[0]) for k, t, c in _ops(fi.node) if k == "add_subtree" and c.args and isinstance(c.args[0], ast.Name) and c.args[0].id == X}
        # X "lives on" if it is read after the loop other than as the subtree grafted into another tree
        used_after = any(isinstance(n, ast.Name) and n.id == X and isinstance(n.ctx, ast.Load) and n.lineno > end and id(n) not in graft_src for n in walk_no_nested(fi.node))
        ok, why = True, ""
        targets = set()
        paths = _iteration_paths(loop)
        if not paths:
            raise AnalysisError("L1: loop over %s.outliers in %s has no completing path" % (X, fi.qualname))
        for steps in paths:
            adds = [(k, t, c) for s in steps for k, t, c in _step_ops(s) if k in ADD_OPS and c.args and u(c.args[0]) == d]
            rms = [(k, t, c) for s in steps for k, t, c in _step_ops(s) if k in RM_OPS and c.args and u(c.args[0]) == d]
            if len(adds) != 1:
                ok, why = False, "an outlier of `%s` is added %d times on some pass of the loop (exactly once is needed: the grafted / sampled subtree does not carry the outliers by itself)" % (X, len(adds))
                break
            if adds[0][1] == X:
                ok, why = False, "the outlier is added to the tree it is read from"
                break
            targets.add(adds[0][1])
            if any(t != X for _, t, _ in rms) or len(rms) > 1:
                ok, why = False, "the outlier is removed from a tree other than `%s`, or more than once" % X
                break
            if used_after and len(rms) != 1:
                ok, why = False, "`%s` is used again after the loop but keeps the outlier that was copied to `%s`: the point then sits in both parts and is duplicated when they are recombined" % (X, adds[0][1])
                break
            if rms and rms[0][0] != "remove_data_point_from_outliers":
                ok, why = False, "an outlier is removed with the clone-removal method"
                break
        ctx.check(ok, "L1", "%s: each outlier of %s moves to %s exactly once per pass" % (_short(fi), X, "/".join(sorted(targets)) or "?"), fi.where(loop), why, construct=fi.qualname, stmt="for %s in %s.outliers" % (d, X))
        if ok and fi.cls is not None:
            # does the loop move outliers INTO a tree obtained by get_subtree?  then grafts of that class must carry them back
            for t in targets:
                if any(isinstance(n, ast.Assign) and any(isinstance(x, ast.Name) and x.id == t for x in n.targets) and isinstance(n.value, ast.Call) and last_name(n.value) == "get_subtree" for n in walk_no_nested(fi.node)):
                    transfer_classes.setdefault(fi.cls.qualname, (fi.cls, fi))


def _escapes(name, node):
    """Is the local `name` handed on under `node`: passed to a call, returned, or edited through a tree method?"""
    for n in walk_no_nested(node):
        if isinstance(n, ast.Call):
            for a in list(n.args) + [k.value for k in n.keywords]:
                if any(isinstance(x, ast.Name) and x.id == name for x in ast.walk(a)):
                    return True
            if isinstance(n.func, ast.Attribute) and isinstance(n.func.value, ast.Name) and n.func.value.id == name and (n.func.attr in ADD_OPS or n.func.attr in RM_OPS or n.func.attr in ("add_subtree", "remove_subtree")):
                return True
        if isinstance(n, ast.Return) and n.value is not None and any(isinstance(x, ast.Name) and x.id == name for x in ast.walk(n.value)):
            return True
    return False


def _l1_get_without_remove(ctx, fi, all_ops):
    """A subtree extracted from X and handed on must have been removed from X on every path (otherwise its
    data points sit both in X and in the extracted copy)."""
    for n in walk_no_nested(fi.node):
        if not (isinstance(n, ast.Assign) and len(n.targets) == 1 and isinstance(n.targets[0], ast.Name) and isinstance(n.value, ast.Call)):
            continue
        v = n.value
        if not (isinstance(v.func, ast.Attribute) and v.func.attr == "get_subtree" and isinstance(v.func.value, ast.Name)):
            continue
        S, X = n.targets[0].id, v.func.value.id
        if any(k == "remove_subtree" and t == X and c.args and u(c.args[0]) == S for k, t, c in all_ops):
            continue  # paired: judged by the pairing rule below
        bad = False
        for steps, oc in enumerate_paths(fi.node.body):
            if oc not in ("fall", "return"):
                continue
            pos = [i for i, s in enumerate(steps) if s.kind != "with" and s.node is n]
            if pos and any(_escapes(S, x) for s in steps[pos[0] + 1:] for x in ([s.node] if s.kind != "with" else [it.context_expr for it in s.node.items])):
                bad = True
        ctx.check(not bad, "L1", "%s: subtree %s extracted from %s is removed from it before it is handed on" % (_short(fi), S, X), fi.where(n), "`%s = %s.get_subtree(…)` is handed on but never removed from `%s`: the extracted clones and their data points stay in `%s` and are duplicated when the subtree is grafted back" % (S, X, X, X), construct=fi.qualname, stmt="get_subtree without remove_subtree")


def _l1_get_remove(ctx, fi, all_ops):
    _l1_get_without_remove(ctx, fi, all_ops)
    rem = [(t, c) for k, t, c in all_ops if k == "remove_subtree"]
    if not rem:
        return
    defs = {}
    for n in walk_no_nested(fi.node):
        if isinstance(n, ast.Assign):
            for t in n.targets:
                for x in ast.walk(t):
                    if isinstance(x, ast.Name) and isinstance(x.ctx, ast.Store):
                        defs.setdefault(x.id, []).append(n)
    for T, c in rem:
        arg = c.args[0] if c.args else None
        inst = "%s: %s.remove_subtree(%s) removes the subtree extracted from the same tree" % (_short(fi), T, u(arg))
        ok, why = True, ""
        if not isinstance(arg, ast.Name) or len(defs.get(arg.id, [])) != 1:
            raise AnalysisError("L1: %s: the argument of remove_subtree is not a local bound once" % fi.qualname)
        d = defs[arg.id][0]
        v = d.value
        if not (isinstance(v, ast.Call) and isinstance(v.func, ast.Attribute) and v.func.attr == "get_subtree" and isinstance(v.func.value, ast.Name)):
            raise AnalysisError("L1: %s: %s is not the result of get_subtree" % (fi.qualname, arg.id))
        src = v.func.value.id
        if src != T:
            ok, why = False, "the subtree is extracted from `%s` but removed from `%s`: `%s` keeps the nodes (their data points are duplicated when the subtree is grafted back) while `%s` loses nodes matched by name only" % (src, T, src, T)
        elif len(defs.get(T, [])) > 1:
            ok, why = False, "`%s` is rebound between get_subtree and remove_subtree" % T
        else:
            # get_subtree precedes remove_subtree on every path, and every path that extracts also removes
            for steps, oc in enumerate_paths(fi.node.body):
                pos_get = [i for i, s in enumerate(steps) if s.kind != "with" and s.node is d]
                pos_rem = [i for i, s in enumerate(steps) if s.kind != "with" and any(x is c for x in walk_no_nested(s.node))]
                if pos_rem and (not pos_get or pos_get[0] > pos_rem[0]):
                    ok, why = False, "remove_subtree can run before the subtree is extracted"
                if oc in ("fall", "return") and pos_get and not pos_rem:
                    later = [(k, t2) for s in steps[pos_get[0] + 1:] for k, t2, _ in _step_ops(s)]
                    if later or oc == "return":
                        ok, why = False, "on some path the subtree is extracted from `%s` and used but never removed from it: its data points sit in both parts" % T
        ctx.check(ok, "L1", inst, fi.where(c), why, construct=fi.qualname, stmt="get_subtree / remove_subtree pairing")


def _l1_graft_candidates(ctx, fi):
    for loop in [n for n in walk_no_nested(fi.node) if isinstance(n, ast.For)]:
        grafts = [(t, c) for k, t, c in _ops(loop) if k == "add_subtree"]
        if not grafts or any(isinstance(x, ast.For) and any(k == "add_subtree" for k, _, _ in _ops(x)) for x in walk_no_nested(loop) if x is not loop):
            continue
        assigned_in_loop = {x.id for n in walk_no_nested(loop) for x in ast.walk(n) if isinstance(x, ast.Name) and isinstance(x.ctx, ast.Store)}
        ok, why = True, ""
        for steps in _iteration_paths(loop):
            fresh = {}
            count = {}
            for s in steps:
                n = s.node
                if s.kind == "stmt" and isinstance(n, ast.Assign) and len(n.targets) == 1 and isinstance(n.targets[0], ast.Name):
                    v = n.value
                    if isinstance(v, ast.Call) and isinstance(v.func, ast.Attribute) and v.func.attr == "copy" and not v.args and isinstance(v.func.value, ast.Name) and v.func.value.id not in assigned_in_loop:
                        fresh[n.targets[0].id] = v.func.value.id
                        count[n.targets[0].id] = 0
                    else:
                        fresh.pop(n.targets[0].id, None)
                for k, t, c in _step_ops(s):
                    if k == "add_subtree":
                        if t not in fresh:
                            ok, why = False, "`%s` receives a subtree without having been bound, in this pass of the loop, to a fresh copy of a tree that the loop leaves alone: grafts accumulate across candidates" % t
                        else:
                            count[t] += 1
            for t, n in count.items():
                if n != 1:
                    ok, why = False, "the fresh copy `%s` receives %d grafts on some pass of the loop (exactly one is needed: zero loses the subtree's data points, two duplicates them)" % (t, n)
        t0, c0 = grafts[0]
        ctx.check(ok, "L1", "%s: every candidate is a fresh copy that receives the subtree exactly once" % _short(fi), fi.where(c0), why, construct=fi.qualname, stmt="candidate = copy + one graft")


def _l1_graft_outliers(ctx, fx, transfer_classes):
    """In a class that moves outliers into an extracted subtree, every graft must carry the grafted tree's
    outliers over (Tree.add_subtree grafts nodes only)."""
    prog = ctx.prog
    # premise of the rule, checked on every run: add_subtree itself does not read the subtree's outlier list
    a = prog.fn("Tree.add_subtree")
    reads_outliers = any(isinstance(n, ast.Attribute) and n.attr in ("outliers", "_OUTLIER_NODE_NAME", "outlier_node_name") for f in (a, prog.fn("Tree._relabel_grafted_subtree_nodes")) for n in ast.walk(f.node))
    for q, (ci, src) in sorted(transfer_classes.items()):
        n_sites = 0
        for m in ci.methods.values():
            for k, T, c in _ops(m.node):
                if k != "add_subtree" or not c.args or not isinstance(c.args[0], ast.Name):
                    continue
                n_sites += 1
                S = c.args[0].id
                inst = "%s: outliers of the grafted %s are added to %s" % (_short(m), S, T)
                if reads_outliers:
                    ctx.ok("L1", inst, m.where(c), "add_subtree carries outliers itself")
                    continue
                loops = [l for l in _outlier_loops(m) if l.iter.value.id == S and any(k2 in ADD_OPS and t2 == T and c2.args and u(c2.args[0]) == l.target.id for k2, t2, c2 in _ops(l))]
                ok = False
                why = "`%s` holds the outliers that %s moved into the extracted subtree, but after `%s.add_subtree(%s)` no loop adds `%s.outliers` to `%s`: those data points are missing from the returned tree" % (S, _short(src), T, S, S, T)
                if loops:
                    ok = True
                    for steps, oc in enumerate_paths(m.node.body):
                        if oc not in ("fall", "return"):
                            continue
                        idx = [i for i, s in enumerate(steps) if s.kind != "with" and any(x is c for x in walk_no_nested(s.node))]
                        if idx and not any(s.kind == "iter" and any(s.node is l.iter for l in loops) for s in steps):
                            ok = False
                            why = "some path through `%s.add_subtree(%s)` does not pass the loop that carries the outliers over" % (T, S)
                ctx.check(ok, "L1", inst, m.where(c), why, construct=m.qualname, stmt="outliers carried over after add_subtree")
        if n_sites == 0:
            raise AnalysisError("L1: %s moves outliers into an extracted subtree but never grafts it back" % q)


def _l1_prune_regraft_plumbing(ctx):
    """The pruned tree and the subtree produced together reach the candidate builder in the right roles."""
    prog = ctx.prog
    prod = prog.fn("PruneRegraphSampler._get_subtree_and_pruned_tree")
    cons = prog.fn("PruneRegraphSampler._create_sampled_trees_array")
    drv = prog.fn("PruneRegraphSampler.sample_tree")
    rets = [n for n in walk_no_nested(prod.node) if isinstance(n, ast.Return)]
    ok = len(rets) == 1 and isinstance(rets[0].value, ast.Tuple) and all(isinstance(e, ast.Name) for e in rets[0].value.elts)
    why = "unrecognised shape"
    if not ok:
        raise AnalysisError("L1: %s no longer returns a tuple of locals" % prod.qualname)
    names = [e.id for e in rets[0].value.elts]
    ops = _ops(prod.node)
    pruned = [t for k, t, c in ops if k == "remove_subtree"]
    sub = [u(c.args[0]) for k, t, c in ops if k == "remove_subtree" and c.args]
    if len(pruned) != 1 or pruned[0] not in names or sub[0] not in names:
        raise AnalysisError("L1: %s: cannot find the pruned tree / subtree among the returned values" % prod.qualname)
    role_pos = {"pruned": names.index(pruned[0]), "subtree": names.index(sub[0])}
    # the pruned tree is a copy of the input (the caller's tree is left alone)
    pdefs = [n.value for n in walk_no_nested(prod.node) if isinstance(n, ast.Assign) and any(isinstance(t, ast.Name) and t.id == pruned[0] for t in n.targets)]
    ctx.check(len(pdefs) == 1 and isinstance(pdefs[0], ast.Call) and last_name(pdefs[0]) == "copy" and isinstance(pdefs[0].func, ast.Attribute) and isinstance(pdefs[0].func.value, ast.Name) and pdefs[0].func.value.id in prod.params, "L1", "%s: the subtree is cut out of a copy of the input tree" % _short(prod), prod.where(), "the tree that loses the subtree is not a copy of the input tree", construct=prod.qualname, stmt="pruned tree is a copy")
    # consumer roles
    cops = _ops(cons.node)
    grafts = [(t, c) for k, t, c in cops if k == "add_subtree"]
    if len(grafts) != 1 or not grafts[0][1].args or not isinstance(grafts[0][1].args[0], ast.Name):
        raise AnalysisError("L1: %s: expected exactly one add_subtree(<name>, …)" % cons.qualname)
    T, gc = grafts[0]
    cdefs = [n.value for n in walk_no_nested(cons.node) if isinstance(n, ast.Assign) and any(isinstance(t, ast.Name) and t.id == T for t in n.targets)]
    if len(cdefs) == 1 and isinstance(cdefs[0], ast.Call) and last_name(cdefs[0]) == "copy" and isinstance(cdefs[0].func, ast.Attribute) and isinstance(cdefs[0].func.value, ast.Name):
        p_pruned = cdefs[0].func.value.id
    elif len(cdefs) == 1 and isinstance(cdefs[0], ast.Name):
        p_pruned = cdefs[0].id  # a missing copy is the candidate rule's finding, not a plumbing problem
    else:
        raise AnalysisError("L1: %s: the grafted tree is not derived from a parameter" % cons.qualname)
    cparams = cons.params
    p_sub = gc.args[0].id
    if p_pruned not in cparams or p_sub not in cparams:
        raise AnalysisError("L1: %s: pruned tree / subtree are not parameters" % cons.qualname)
    # driver: unpack and call
    asg = [n for n in walk_no_nested(drv.node) if isinstance(n, ast.Assign) and isinstance(n.value, ast.Call) and last_name(n.value) == prod.name]
    cl = [c for c in calls(drv.node) if last_name(c) == cons.name]
    if len(asg) != 1 or len(cl) != 1 or not isinstance(asg[0].targets[0], ast.Tuple) or len(asg[0].targets[0].elts) != len(names):
        raise AnalysisError("L1: %s: unrecognised producer / consumer plumbing" % drv.qualname)
    got = [u(e) for e in asg[0].targets[0].elts]
    off = 0 if "staticmethod" in cons.decorators else 1

    def arg_for(p):
        i = cparams.index(p) - off
        if 0 <= i < len(cl[0].args):
            return u(cl[0].args[i])
        for k in cl[0].keywords:
            if k.arg == p:
                return u(k.value)
        return None

    ok = arg_for(p_pruned) == got[role_pos["pruned"]] and arg_for(p_sub) == got[role_pos["subtree"]]
    ctx.check(ok, "L1", "%s: candidates are built from the pruned tree and the subtree cut out of it" % _short(drv), drv.where(cl[0]), "the candidate builder receives %s as the tree to copy and %s as the subtree to graft, but the pruned tree is %s and the extracted subtree is %s" % (arg_for(p_pruned), arg_for(p_sub), got[role_pos["pruned"]], got[role_pos["subtree"]]), construct=drv.qualname, stmt="pruned tree and subtree reach the candidate builder")
    # the attachment point of each candidate is the loop variable
    loops = [n for n in walk_no_nested(cons.node) if isinstance(n, ast.For) and any(x is gc for x in ast.walk(n))]
    par = None
    for k in gc.keywords:
        if k.arg == "parent":
            par = k.value
    if par is None and len(gc.args) > 1:
        par = gc.args[1]
    ok = bool(loops) and par is not None and isinstance(loops[-1].target, ast.Name) and u(par) == loops[-1].target.id
    ctx.check(ok, "L1", "%s: the candidate of attachment point p grafts below p" % _short(cons), cons.where(gc), "the subtree is not grafted below the attachment point the loop ranges over", construct=cons.qualname, stmt="add_subtree(parent=loop variable)")
    ctx.analysed(prod, cons, drv)


# =========================================================================== L2
TREE_PARAMS = ("tree", "new_tree", "subtree", "pruned_tree")


class _TreeTyped:
    def __init__(self, prog):
        self.prog = prog
        self.memo = {}

    def fn_returns_tree(self, fi, stack=()):
        q = fi.qualname
        if q in self.memo:
            return self.memo[q]
        if q in stack:
            return (True, "")
        rets = [n for n in walk_no_nested(fi.node) if isinstance(n, ast.Return)]
        res = (True, "")
        falls = any(oc == "fall" for _, oc in enumerate_paths(fi.node.body))
        if falls:
            res = (False, "some path falls off the end of %s (returns None)" % _short(fi))
        elif not rets:
            res = (False, "%s has no return" % _short(fi))
        else:
            for r in rets:
                ok, why = self.expr(r.value, fi, stack + (q,))
                if not ok:
                    res = (False, "`return %s` in %s: %s" % (u(r.value), _short(fi), why))
                    break
        self.memo[q] = res
        return res

    def expr(self, e, fi, stack, depth=0):
        if e is None:
            return (False, "returns None")
        if depth > 6:
            return (False, "too deep")
        if isinstance(e, ast.Name):
            defs = [n for n in walk_no_nested(fi.node) if isinstance(n, (ast.Assign, ast.AugAssign)) and any(isinstance(x, ast.Name) and x.id == e.id and isinstance(x.ctx, ast.Store) for t in (n.targets if isinstance(n, ast.Assign) else [n.target]) for x in ast.walk(t))]
            if e.id in fi.params and e.id in TREE_PARAMS:
                for d in defs:
                    if not (isinstance(d, ast.Assign) and len(d.targets) == 1 and isinstance(d.targets[0], ast.Name)):
                        return (False, "%s is rebound by %s" % (e.id, u(d)))
                    ok, why = self.expr(d.value, fi, stack, depth + 1)
                    if not ok:
                        return (False, why)
                return (True, "")
            if not defs:
                return (False, "%s is not a tree-typed parameter or local" % e.id)
            for d in defs:
                if not (isinstance(d, ast.Assign) and len(d.targets) == 1 and isinstance(d.targets[0], ast.Name)):
                    return (False, "%s is bound by %s" % (e.id, u(d)))
                ok, why = self.expr(d.value, fi, stack, depth + 1)
                if not ok:
                    return (False, why)
            return (True, "")
        if isinstance(e, ast.Attribute):
            if e.attr == "tree" and self.prog.has_fn("Particle.tree@getter"):
                return (True, "")
            return (False, "attribute %s is not known to hold a tree" % e.attr)
        if isinstance(e, ast.Call):
            f = e.func
            ln = last_name(e)
            if isinstance(f, ast.Name) and ln == "Tree":
                return (True, "")
            if isinstance(f, ast.Attribute):
                if ln in ("copy", "get_subtree") and not (ln == "copy" and e.args):
                    return self.expr(f.value, fi, stack, depth + 1)
                if ln in ("from_dict", "get_single_node_tree") and u(f.value) == "Tree":
                    return (True, "")
                recv = f.value
                target = None
                if isinstance(recv, ast.Name) and recv.id == "self" and fi.cls is not None:
                    target = self.prog.method(fi.cls, ln)
                elif isinstance(recv, ast.Call) and u(recv) == "super()" and fi.cls is not None:
                    for c in self.prog.mro(fi.cls)[1:]:
                        if ln in c.methods:
                            target = c.methods[ln]
                            break
                if target is not None:
                    return self.fn_returns_tree(target, stack)
            return (False, "call %s is not known to return a tree" % u(e)[:60])
        if isinstance(e, ast.Subscript):
            base = e.value
            if isinstance(base, ast.Subscript) and isinstance(base.value, ast.Name) and isinstance(e.slice, ast.Constant):
                # trees[idx][1] where [a, tree] lists are appended
                lst, pos = base.value.id, e.slice.value
                apps = [c for c in calls(fi.node) if isinstance(c.func, ast.Attribute) and c.func.attr == "append" and u(c.func.value) == lst]
                prod = None
                if not apps:
                    # a list produced by a helper of the same class
                    defs = [n.value for n in walk_no_nested(fi.node) if isinstance(n, ast.Assign) and any(isinstance(t, ast.Name) and t.id == lst for t in n.targets)]
                    if len(defs) == 1 and isinstance(defs[0], ast.Call) and isinstance(defs[0].func, ast.Attribute) and u(defs[0].func.value) == "self" and fi.cls is not None:
                        prod = self.prog.method(fi.cls, defs[0].func.attr)
                        if prod is not None:
                            rets = [n for n in walk_no_nested(prod.node) if isinstance(n, ast.Return)]
                            if len(rets) == 1 and isinstance(rets[0].value, ast.Name):
                                lst2 = rets[0].value.id
                                apps = [c for c in calls(prod.node) if isinstance(c.func, ast.Attribute) and c.func.attr == "append" and u(c.func.value) == lst2]
                if not apps:
                    return (False, "cannot find what is appended to %s" % lst)
                for c in apps:
                    a = c.args[0] if c.args else None
                    if not isinstance(a, (ast.List, ast.Tuple)) or not isinstance(pos, int) or pos >= len(a.elts):
                        return (False, "%s holds %s" % (lst, u(a)))
                    ok, why = self.expr(a.elts[pos], prod or fi, stack, depth + 1)
                    if not ok:
                        return (False, why)
                return (True, "")
            if isinstance(base, ast.Name):
                apps = [c for c in calls(fi.node) if isinstance(c.func, ast.Attribute) and c.func.attr == "append" and u(c.func.value) == base.id]
                prod = None
                if not apps:
                    # a list produced by a helper of the same class / module, or by a comprehension
                    defs = [n.value for n in walk_no_nested(fi.node) if isinstance(n, ast.Assign) and any(isinstance(t, ast.Name) and t.id == base.id for t in n.targets)]
                    if len(defs) == 1 and isinstance(defs[0], ast.ListComp):
                        return self.expr(defs[0].elt, fi, stack, depth + 1)
                    if len(defs) == 1 and isinstance(defs[0], ast.Call) and isinstance(defs[0].func, ast.Name) and defs[0].func.id in ("list", "tuple") and len(defs[0].args) == 1 and isinstance(defs[0].args[0], ast.Call):
                        defs = [defs[0].args[0]]  # list(helper(...)): the elements the helper produces
                    if len(defs) == 1 and isinstance(defs[0], ast.Call):
                        d = defs[0]
                        if isinstance(d.func, ast.Attribute) and u(d.func.value) in ("self", "cls") and fi.cls is not None:
                            prod = self.prog.method(fi.cls, d.func.attr)
                        elif isinstance(d.func, ast.Name):
                            prod = self.prog.resolve_function(d.func.id, fi.module)
                        if prod is not None:
                            rets = [n for n in walk_no_nested(prod.node) if isinstance(n, ast.Return)]
                            if len(rets) == 1 and isinstance(rets[0].value, ast.Name):
                                lst2 = rets[0].value.id
                                apps = [c for c in calls(prod.node) if isinstance(c.func, ast.Attribute) and c.func.attr == "append" and u(c.func.value) == lst2]
                            elif len(rets) == 1 and isinstance(rets[0].value, ast.ListComp):
                                return self.expr(rets[0].value.elt, prod, stack, depth + 1)
                if not apps:
                    return (False, "cannot find what is appended to %s" % base.id)
                for c in apps:
                    ok, why = self.expr(c.args[0] if c.args else None, prod or fi, stack, depth + 1)
                    if not ok:
                        return (False, why)
                return (True, "")
            if isinstance(base, ast.Attribute) and base.attr == "particles":
                return (False, "a particle, not its tree")
        return (False, "%s is not recognised as a tree" % u(e)[:60])


def _tree_like(k, fi, depth=0):
    """Is the abstract value `k` (a TermFlow key / value) a tree?  True / False (definitely not: None, a particle) /
    None (undecided).  Works on the normalised term, so tuple unpacking, helper extraction, comprehensions and
    early returns do not matter."""
    from ..termflow import AList, ATuple, Poly, _is_polykey, poly_from_key, _const_of_key

    if depth > 40:
        return None
    if k is None:
        return False
    if isinstance(k, (AList, ATuple)):
        return None
    if isinstance(k, Poly):
        a = k.as_atom()
        if a is None:
            return False if k.is_const() else None
        return _tree_like(a, fi, depth + 1)
    if _is_polykey(k):
        return _tree_like(poly_from_key(k), fi, depth + 1)
    if not (isinstance(k, tuple) and k and isinstance(k[0], str)):
        return None
    tag = k[0]
    if tag == "anyof":
        rs = [_tree_like(x, fi, depth + 1) for x in k[1]]
        return False if any(r is False for r in rs) else (None if any(r is None for r in rs) else True)
    if tag == "cond":
        return _tree_like(("anyof", tuple(v for _, v in k[1])), fi, depth + 1)
    if tag == "v":
        if k[1].startswith("P") and k[1][1:].isdigit() and int(k[1][1:]) < len(fi.params):
            return True if fi.params[int(k[1][1:])] in TREE_PARAMS else None
        return None
    if tag == "const":
        return False if k[1] in ("None",) else None
    if tag == "upd":
        return _tree_like(k[2], fi, depth + 1)
    if tag == "mcall":
        if k[1] in ("copy", "get_subtree", "__copy__"):
            return _tree_like(k[2], fi, depth + 1)
        if k[1] == "sample_tree":
            return True
        hook = getattr(_tree_like, "self_method", None)
        if hook is not None:
            r = hook(k, fi)
            if r is not NotImplemented:
                return r
        if k[1].startswith("get_number_of") or k[1] in ("get_data_len", "get_subtree_data_len", "argmax", "sum"):
            return False  # a count
        return None
    if tag == "call":
        if k[1] in ("len", "sum", "max", "min", "log", "exp"):
            return False
        last = k[1].split(".")[-1].split(":")[-1]
        if last in ("Tree", "from_dict", "get_single_node_tree"):
            return True
        return None
    if tag == "attr":
        if k[2] == "tree":
            return True
        if k[2] in ("particles", "log_weights", "weights"):
            return False
        return None
    if tag == "sub":
        c = _container(k[1], depth + 1)
        if c is None:
            # an element of the particle list is a particle, not its tree
            ia = poly_from_key(k[1]).as_atom() if _is_polykey(k[1]) else k[1]
            if isinstance(ia, tuple) and ia and ia[0] == "attr" and ia[2] == "particles":
                return False
            return None
        idx = _const_of_key(k[2]) if _is_polykey(k[2]) else None
        items = c
        if idx is not None and idx.denominator == 1 and 0 <= int(idx) < len(items) and not any(isinstance(x, tuple) and x and x[0] == "anyof" for x in [items]):
            pass
        return _tree_like(("anyof", tuple(_pick(items, idx))), fi, depth + 1)
    return None


def _container(k, depth=0):
    """Items of a list / tuple valued key (through cond and anyof), or None."""
    from ..termflow import _is_polykey, poly_from_key

    if depth > 40:
        return None
    if _is_polykey(k):
        a = poly_from_key(k).as_atom()
        if a is None:
            return None
        return _container(a, depth + 1)
    if not (isinstance(k, tuple) and k and isinstance(k[0], str)):
        return None
    if k[0] in ("list", "tuple"):
        return [("items", tuple(k[1]))]
    if k[0] == "mcall" and getattr(_container, "self_method", None) is not None:
        r = _container.self_method(k, depth)
        if r is not NotImplemented:
            return r
    if k[0] == "cond":
        out = []
        for _, v in k[1]:
            c = _container(v, depth + 1)
            if c is None:
                return None
            out += c
        return out
    if k[0] == "sub":
        c = _container(k[1], depth + 1)
        if c is None:
            return None
        from ..termflow import _const_of_key

        idx = _const_of_key(k[2]) if _is_polykey(k[2]) else None
        out = []
        for x in _pick(c, idx):
            cc = _container(x, depth + 1)
            if cc is None:
                return None
            out += cc
        return out
    return None


def _pick(containers, idx):
    """Elements selected from [("items", (...)), ...] by a constant index, or all elements for a symbolic one."""
    out = []
    for tag, items in containers:
        if idx is not None and idx.denominator == 1 and -len(items) <= int(idx) < len(items):
            out.append(items[int(idx)])
        else:
            out += list(items)
    return out


def _fn_tree_like(prog, fi, memo):
    """(values, verdicts) per path of `fi`, its own class's methods kept opaque and judged recursively."""
    from ..termflow import Poly, _is_polykey, poly_from_key

    if fi.qualname in memo:
        return memo[fi.qualname]
    memo[fi.qualname] = ([], [True])  # recursion: assume, as for any inductive typing
    names = set(fi.cls.methods) if fi.cls is not None else set()
    for c in (prog.mro(fi.cls)[1:] if fi.cls is not None else []):
        names |= set(c.methods)
    exf = extract(prog, fi, opaque_self_methods=names - {fi.name} | ({fi.name} if False else set()))

    def hook(k, cur):
        recv = k[2]
        ra = poly_from_key(recv).as_atom() if _is_polykey(recv) else recv
        if ra == ("v", "P0") and cur.cls is not None:
            m = prog.method(cur.cls, k[1])
            if m is not None:
                vs, rs = _fn_tree_like(prog, m, memo)
                return False if any(r is False for r in rs) else (None if any(r is None for r in rs) else True)
        return NotImplemented

    def chook(k, depth):
        recv = k[2]
        ra = poly_from_key(recv).as_atom() if _is_polykey(recv) else recv
        if ra == ("v", "P0") and fi.cls is not None:
            m = prog.method(fi.cls, k[1])
            if m is not None and depth < 30:
                from ..termflow import vkey

                exm = extract(prog, m, opaque_self_methods=names)
                out = []
                for _, v in exm.paths:
                    c = _container(vkey(v) if v is not None else None, depth + 5) if v is not None else None
                    if c is None:
                        return None
                    out += c
                return out
        return NotImplemented

    old = getattr(_tree_like, "self_method", None)
    oldc = getattr(_container, "self_method", None)
    _tree_like.self_method = hook
    _container.self_method = chook
    try:
        vals = [v for _, v in exf.paths]
        verdicts = [_tree_like(v, fi) for v in vals]
    finally:
        _tree_like.self_method = old
        _container.self_method = oldc
    memo[fi.qualname] = (vals, verdicts)
    return memo[fi.qualname]


def rule_L2(ctx):
    prog = ctx.prog
    ctx.rule("L2", "every sampler returns a tree on every path; the SMC driver consumes one data point per update over len(data_points) steps and is handed the order drawn from the tree", 10)
    tt = _TreeTyped(prog)
    n = 0
    unrecognised = []
    memo_tl = {}
    for fi in prog.functions.values():
        if fi.name == "sample_tree" and fi.cls is not None and fi.parent is None:
            n += 1
            try:
                vals, verdicts = _fn_tree_like(prog, fi, memo_tl)
            except AnalysisError as e:
                verdicts, vals = [None], [None]
                unrecognised.append("%s: %s" % (_short(fi), str(e)[:120]))
                ctx.analysed(fi)
                continue
            if any(v is False for v in verdicts):
                bad = [show(x)[:120] if x is not None else "None (a path falls off the end or returns nothing)" for x, v in zip(vals, verdicts) if v is False]
                ctx.fail("L2", "%s returns a tree on every path" % _short(fi), fi.where(), "on some path %s returns %s, which is not a tree" % (_short(fi), bad[0]), construct=fi.qualname, stmt="returns a tree")
                ctx.analysed(fi)
                continue
            if all(v is True for v in verdicts):
                ctx.ok("L2", "%s returns a tree on every path" % _short(fi), fi.where(), "%d path(s)" % len(vals))
                ctx.analysed(fi)
                continue
            ok, why = tt.fn_returns_tree(fi)
            definite = any(m in why for m in ("returns None", "falls off the end", "has no return", "a particle, not its tree"))
            if not ok and not definite:
                # the value is built in a way this syntactic typing does not follow (tuple unpacking, a helper, a
                # comprehension …): undecided, never a violation
                unrecognised.append("%s: %s" % (_short(fi), why))
                ctx.analysed(fi)
                continue
            ctx.check(ok, "L2", "%s returns a tree on every path" % _short(fi), fi.where(), why, construct=fi.qualname, stmt="returns a tree")
            ctx.analysed(fi)
    if n < 5:
        raise AnalysisError("L2: only %d sample_tree methods found (5 confirmed)" % n)
    # SMC driver
    f = prog.fn("AbstractSMCSampler.sample")
    rets = [r for r in walk_no_nested(f.node) if isinstance(r, ast.Return)]
    falls = any(oc == "fall" for _, oc in enumerate_paths(f.node.body))
    ctx.check(bool(rets) and not falls and all(u(r.value) == "self.swarm" for r in rets), "L2", "AbstractSMCSampler.sample returns the swarm on every path", f.where(), "sample() does not return self.swarm on every path", construct=f.qualname, stmt="return self.swarm")
    wl = [w for w in walk_no_nested(f.node) if isinstance(w, ast.While)]
    ok = len(wl) == 1
    why = "expected one while loop driving the SMC steps"
    if ok:
        w = wl[0]
        ex_test = u(w.test)
        ok = ex_test in ("self.iteration < self.num_iterations", "self.num_iterations > self.iteration")
        why = "the SMC loop does not run while iteration < num_iterations"
        if ok:
            for steps, oc in enumerate_paths([w]):
                if not steps or steps[0].taken != 1:
                    continue
                body = steps[1:]
                ups = sum(1 for s in body if s.kind == "stmt" and any(isinstance(c, ast.Call) and u(c) == "self._update_swarm()" for c in walk_no_nested(s.node)))
                incs = [s for s in body if s.kind == "stmt" and isinstance(s.node, ast.AugAssign) and u(s.node.target) == "self.iteration"]
                good = ups == 1 and len(incs) == 1 and isinstance(incs[0].node.op, ast.Add) and u(incs[0].node.value) == "1"
                if good:
                    pos_u = [i for i, s in enumerate(body) if s.kind == "stmt" and any(isinstance(c, ast.Call) and u(c) == "self._update_swarm()" for c in walk_no_nested(s.node))][0]
                    good = body.index(incs[0]) > pos_u
                if not good or oc != "fall":
                    ok = False
                    why = "a pass of the SMC loop does not add exactly one data point (one _update_swarm, then iteration += 1)"
    ctx.check(ok, "L2", "AbstractSMCSampler.sample: one _update_swarm and iteration += 1 per pass while iteration < num_iterations", f.where(), why, construct=f.qualname, stmt="SMC loop consumes one data point per pass")
    init = prog.fn("AbstractSMCSampler.__init__")
    ex = extract(prog, init)
    sp = spec(prog, """
        def s(self, data_points, kernel, num_particles, resample_threshold=0.5):
            self.num_iterations = len(data_points)
            self.data_points = data_points
            self.iteration = 0
        """, init)
    for a in ("num_iterations", "data_points", "iteration"):
        g, w = ex.store(a), sp.store(a)
        ctx.check(_eq(g, w), "L2", "AbstractSMCSampler.__init__: %s" % a, init.where(), "self.%s is %s, not %s" % (a, show(g), show(w)), construct=init.qualname, stmt="self." + a)
    pp = prog.fn("AbstractSMCSampler._propose_particle")
    ex = extract(prog, pp)
    sp = spec(prog, """
        def s(self, parent_particle):
            return self.kernel.propose_particle(self.data_points[self.iteration], parent_particle)
        """, pp)
    ctx.check(_eq(ex.result, sp.result), "L2", "AbstractSMCSampler._propose_particle adds the data point of the current iteration", pp.where(), "the proposed particle is %s" % show(ex.result), construct=pp.qualname, stmt="data_points[iteration]")
    # the burn-in sampler hands the SMC sampler the order drawn from the tree it was given
    us = prog.fn("UnconditionalSMCSampler.sample_tree")
    ex = extract(prog, us)
    sp = spec(prog, """
        def s(self, tree):
            sigma = RootPermutationDistribution.sample(tree, self._rng)
            sampler = SMCSampler(sigma, self.kernel, num_particles=self.num_particles, resample_threshold=self.resample_threshold)
            swarm = sampler.sample()
            return swarm.particles[discrete_rvs(swarm.weights, self._rng)].tree
        """, us)
    ctx.check(_eq(ex.result, sp.result), "L2", "UnconditionalSMCSampler.sample_tree runs the SMC sampler over the order drawn from its tree", us.where(), "the returned tree is %s" % show(ex.result)[:300], construct=us.qualname, stmt="SMC over sample(tree)")
    ctx.analysed(f, init, pp, us)
    if unrecognised:
        raise AnalysisError("L2: cannot decide whether a tree is returned — %s" % "; ".join(unrecognised)[:400])


def rule_N0(ctx):
    """Clone labels are the integers 0, 1, 2, …: create_root_node names a new clone after the number of clones, which
    is a fresh label only while labels are dense (relabel_nodes restores 0..K-1 in every sweep) and while the two
    reserved names cannot be taken for a clone label."""
    prog = ctx.prog
    ctx.rule("N0", "label discipline: reserved names cannot collide with clone labels; relabelling starts at 0 and runs in every sweep before the next SMC pass", 5)
    tree = prog.cls("tree.tree.Tree")
    consts = {}
    for st in tree.node.body:
        if isinstance(st, ast.Assign) and len(st.targets) == 1 and isinstance(st.targets[0], ast.Name):
            try:
                consts[st.targets[0].id] = ast.literal_eval(st.value)
            except ValueError:
                consts[st.targets[0].id] = None
    o, r = consts.get("_OUTLIER_NODE_NAME", "missing"), consts.get("_ROOT_NODE_NAME", "missing")
    ok = (isinstance(o, int) and not isinstance(o, bool) and o < 0) or isinstance(o, str)
    ctx.check(ok, "N0", "Tree._OUTLIER_NODE_NAME is not a possible clone label (clone labels are 0, 1, 2, …)", tree.where(), "the outlier set is named %r, which a clone can also be named: the clone's data and the outliers share one entry of the data map" % (o,), construct=tree.qualname, stmt="_OUTLIER_NODE_NAME")
    ctx.check(isinstance(r, str), "N0", "Tree._ROOT_NODE_NAME is not a possible clone label", tree.where(), "the virtual root is named %r" % (r,), construct=tree.qualname, stmt="_ROOT_NODE_NAME")
    ctx.check(o != r, "N0", "the two reserved names differ", tree.where(), "root and outlier set share the name %r" % (o,), construct=tree.qualname, stmt="reserved names differ")
    from ..astutil import func_defaults

    vinit = prog.fn("PreOrderNodeRelabeller.__init__")
    d = func_defaults(vinit.node).get("start_idx")
    rl = prog.fn("Tree.relabel_nodes")
    passes = [c for c in calls(rl.node, name="PreOrderNodeRelabeller") if len(c.args) > 2 or any(k.arg == "start_idx" for k in c.keywords)]
    ctx.check(d is not None and u(d) == "0" and not passes, "N0", "relabel_nodes numbers the clones 0..K-1 (pre-order from 0)", vinit.where(), "relabelling starts at %s: the labels are no longer 0..K-1, so create_root_node's new label (= number of clones) can already be in use" % (u(d) if d is not None else "?"), construct=vinit.qualname, stmt="start_idx=0")
    cr = prog.fn("Tree.create_root_node")
    ex = extract(prog, cr, opaque_self_methods={"_add_node", "_add_list_of_data_points_to_node", "_update_path_to_root"})
    adds = ex.calls("._add_node")
    ok = len(adds) >= 1 and all(show(e.args[0]) == "P0._graph.num_nodes() - 1" for e in adds)
    ctx.check(ok, "N0", "create_root_node names the new clone after the number of clones (graph nodes minus the virtual root)", cr.where(), "the new clone is named %s" % ([show(e.args[0]) for e in adds] or "nothing"), construct=cr.qualname, stmt="new label")
    def _trace(stmts, mod, cond, depth):
        """Ordered (name, conditional) of the sample_tree / relabel_nodes calls a statement list performs, helpers of
        the same module expanded in place (depth <= 2)."""
        out = []
        for st_ in stmts:
            if isinstance(st_, ast.If):
                out += _trace(st_.body, mod, True, depth) + _trace(st_.orelse, mod, True, depth)
                continue
            if isinstance(st_, (ast.For, ast.While)):
                out += _trace(st_.body, mod, cond, depth)
                continue
            if isinstance(st_, ast.With):
                out += _trace(st_.body, mod, cond, depth)
                continue
            if isinstance(st_, (ast.FunctionDef, ast.ClassDef)):
                continue
            for c in sorted([x for x in ast.walk(st_) if isinstance(x, ast.Call)], key=lambda x: (x.lineno, x.col_offset)):
                ln = last_name(c)
                if ln in ("sample_tree", "relabel_nodes"):
                    out.append((ln, cond))
                elif isinstance(c.func, ast.Name) and depth < 2:
                    helper = prog.resolve_function(c.func.id, mod)
                    if helper is not None and helper.module is mod:
                        out += _trace(helper.node.body, mod, cond, depth + 1)
        return out

    for fname in ("run._run_main_sampler", "run._run_burnin"):
        f = prog.fn(fname)
        # the sweep loop may have moved into a helper newer than the rules (a generator of chain states, say)
        from ..astutil import new_helper_scope

        loops = [n for g_ in new_helper_scope(prog, f) for n in ast.walk(g_.node) if isinstance(n, ast.For)]
        outer = [l for l in loops if _trace(l.body, f.module, False, 0) and any(n == "sample_tree" for n, _ in _trace(l.body, f.module, False, 0))]
        ok = False
        if outer:
            tr = _trace(outer[0].body, f.module, False, 0)
            names = [n for n, _ in tr]
            ok = "relabel_nodes" in names and max(i for i, n in enumerate(names) if n == "relabel_nodes") > max(i for i, n in enumerate(names) if n == "sample_tree")
            if ok:
                last = max(i for i, n in enumerate(names) if n == "relabel_nodes")
                ok = not tr[last][1]  # not under a test (inside the loop body or inside the helper)
        ctx.check(ok, "N0", "%s relabels the tree once per sweep, after the moves, unconditionally" % f.name, f.where(), "the sweep does not end with tree.relabel_nodes(): labels drift away from 0..K-1 and the next SMC pass can give a new clone a label that is in use", construct=f.qualname, stmt="tree.relabel_nodes()")
        ctx.analysed(f)


def rule_Q1(ctx):
    """The tree hands its callers copies of what it keeps: a query that returns one of the tree's own containers (the
    outlier list, a clone's data list, an index map, the graph) lets a caller edit the tree by accident - the order
    sampler pops the lists it is given, the moves append to them."""
    prog = ctx.prog
    ctx.rule("Q1", "queries of Tree hand out fresh containers: no property / get_* method returns self._<container> or an element of it as it is", 6)
    tree = prog.cls("tree.tree.Tree")
    containers = {"_data", "_node_indices", "_node_indices_rev", "_graph"}
    n = 0
    items = [(nm, kinds["getter"]) for nm, kinds in tree.properties.items() if "getter" in kinds] + [(nm, m) for nm, m in tree.methods.items() if nm.startswith("get_") or nm in ("to_dict",)]
    for nm, g in sorted(items, key=lambda x: x[0]):
        me = g.params[0] if g.params else "self"
        local_live = set()
        for a in ast.walk(g.node):
            if isinstance(a, ast.Assign) and len(a.targets) == 1 and isinstance(a.targets[0], ast.Name):
                v = a.value
                base = v.value if isinstance(v, ast.Subscript) else v
                if isinstance(base, ast.Attribute) and isinstance(base.value, ast.Name) and base.value.id == me and base.attr in containers and not isinstance(v, ast.Call):
                    local_live.add(a.targets[0].id)
        bad = []
        for r in ast.walk(g.node):
            if not (isinstance(r, ast.Return) and r.value is not None):
                continue
            v = r.value
            base = v.value if isinstance(v, ast.Subscript) and not isinstance(v.slice, ast.Slice) else v
            live = (isinstance(base, ast.Attribute) and isinstance(base.value, ast.Name) and base.value.id == me and base.attr in containers) or (isinstance(v, ast.Name) and v.id in local_live)
            if live and not (isinstance(v, ast.Subscript) and base.attr in ("_node_indices", "_node_indices_rev") if isinstance(base, ast.Attribute) else False):
                bad.append(r)
        n += 1
        ctx.check(not bad, "Q1", "Tree.%s returns a container of its own making" % nm, g.where(bad[0]) if bad else g.where(), "`%s` hands out the tree's own %s: whatever the caller does to it (pop, append, shuffle) is done to the tree" % (u(bad[0])[:60] if bad else "", "list" if bad and "_data" in u(bad[0]) else "container"), construct=g.qualname, stmt="live container returned")
    if n < 6:
        raise AnalysisError("Q1: only %d queries of Tree found" % n)


def rule_R0(ctx):
    """An editing method that resets the whole tree (self.__init__) discards every data point, outliers
    included; it may do so only when the tree it removes equals the whole tree (Tree.__eq__: clades AND outliers)."""
    prog = ctx.prog
    ctx.rule("R0", "a whole-tree reset inside an edit is guarded by equality of the removed tree with the whole tree", 1)
    tree = prog.cls("tree.tree.Tree")
    from ..astutil import parents as _parents
    from ..paths import guards_of as _guards_of

    for m in tree.methods.values():
        if m.name in ("__init__", "copy", "from_dict", "get_single_node_tree", "get_subtree"):
            continue
        pm = _parents(m.node)
        for c in calls(m.node, name="self.__init__"):
            gs = [(u(t).replace(" ", ""), pol) for t, pol in _guards_of(c, pm)]
            param = m.params[1] if len(m.params) > 1 else "?"
            ok = any(pol and t in ("%s==self" % param, "self==%s" % param) for t, pol in gs)
            ctx.check(ok, "R0", "Tree.%s: self.__init__(…) only when %s == self" % (m.name, param), m.where(c),
                      "the tree is reset (all data points dropped, outliers included) under %s, which does not establish that the removed tree is the whole tree with the same outliers: data points outside the removed subtree are lost" % ([t for t, p in gs] or "no guard"),
                      construct=m.qualname, stmt="self.__init__ reset")
        ctx.analysed(m)


def run(ctx):
    ctx.assume("rustworkx: add_node returns the new index; compose returns the old->new index map; freed indices may be reused")
    ctx.assume("Tree.add_subtree grafts graph nodes and their data lists only (checked syntactically on every run: it never reads the subtree's outlier list)")
    ctx.note("not rules (removing them leaves behaviour unchanged while callers are right): membership assertions in Tree.add_data_point_to_node / TreeNode.add_data_point*, isomorphism assertion in ConditionalSMCSampler._get_constrained_path")
    fx = TreeFx(ctx.prog)
    ctx.soft(rule_V1, fx)
    ctx.soft(rule_V2)
    ctx.soft(rule_V3)
    ctx.soft(rule_L1, fx)
    ctx.soft(rule_L2)
    ctx.soft(rule_R0)
    ctx.soft(rule_Q1)
    ctx.soft(rule_N0)
    # a tree restored / copied from a stored form must own its data lists: the samplers edit trees in place
    # (outliers are stripped from the input of the subtree move), and a shared list silently loses the
    # points of the stored form (same rule object as C06.M4)
    from . import C06

    from ..formula import imported
    from ._treespec import rule_TS

    ctx.soft(rule_TS, owners=["tree.Tree", "tree_node.TreeNode", "visitors.PreOrderNodeRelabeller"])
    ctx._own_rules = set(ctx.rule_min)
    imported(ctx, C06.rule_M4, fx)
    # the SMC passes build every tree one proposal at a time: each arm must extend a copy of its parent's tree by
    # exactly the new data point (same rule objects as C08.A1 / A2 / X1)
    from . import C08

    imported(ctx, C08.rule_B)
    imported(ctx, C08.rule_A)
    imported(ctx, C08.rule_X)
    # the adapted proposals enumerate their candidates: every candidate extends the parent's tree (outliers included),
    # and the subtree move hands back the re-assembled whole tree (same rule objects as C08.S / F, C04.P1 / P2)
    imported(ctx, C08.rule_S)
    imported(ctx, C08.rule_F)
    from . import C04

    imported(ctx, C04.rule_P1)
    # remove_subtree decides "the subtree is the whole tree" by Tree equality (clades *and* outliers, C03.I1 / I2);
    # every SMC pass is handed the data order drawn from the tree, which must contain every data point (C09.P1-P4)
    from . import C03, C09

    imported(ctx, C03.rule_I1)
    imported(ctx, C03.rule_I2)
    imported(ctx, C09.rule_P)


# Self-test catalogue: one textual edit each, applied to a scratch copy (see selftest.py).
_T = "phyclone/tree/tree.py"
_V = "phyclone/tree/visitors.py"
_G = "phyclone/mcmc/gibbs_mh.py"
_PG = "phyclone/mcmc/particle_gibbs.py"
_SB = "phyclone/smc/samplers/base.py"
SELFTEST = [
    {"name": "Q1-outliers-query-hands-out-the-live-list", "kind": "break", "rule": "Q1", "file": "phyclone/tree/tree.py", "old": "        return list(self._data[self._OUTLIER_NODE_NAME])\n", "new": "        return self._data[self._OUTLIER_NODE_NAME]\n"},
    {"name": "benign-outliers-query-copies-by-slice", "kind": "benign", "file": "phyclone/tree/tree.py", "old": "        return list(self._data[self._OUTLIER_NODE_NAME])\n", "new": "        return self._data[self._OUTLIER_NODE_NAME][:]\n"},
    # ---- V1
    {"name": "V1-remove_subtree-keeps-rev-entry", "kind": "break", "rule": "V1", "file": _T, "old": "                    del self._node_indices[node_id]\n                    del self._node_indices_rev[curr_idx]\n", "new": "                    del self._node_indices[node_id]\n"},
    {"name": "V1-remove_subtree-keeps-data", "kind": "break", "rule": "V1", "file": _T, "old": "                    del self._data[node_id]\n                    curr_idx", "new": "                    curr_idx"},
    {"name": "V1-rev-map-not-swapped", "kind": "break", "rule": "V1", "file": _T, "old": "        self._node_indices_rev[node_idx] = node\n", "new": "        self._node_indices_rev[node] = node_idx\n"},
    {"name": "V1-add_node-not-registered", "kind": "break", "rule": "V1", "file": _T, "old": "        node_idx = self._graph.add_node(node_obj)\n        self._add_node_to_indices(node, node_idx)\n", "new": "        node_idx = self._graph.add_node(node_obj)\n        self._node_indices[node] = node_idx\n"},
    {"name": "V1-get_subtree-nodes-not-registered", "kind": "break", "rule": "V1", "file": _T, "old": "            new._data[node] = list(self._data[node])\n\n            new._add_node_to_indices(node, node_idx)\n", "new": "            new._data[node] = list(self._data[node])\n"},
    {"name": "V1-get_subtree-registration-swapped", "kind": "break", "rule": "V1", "file": _T, "old": "            new._add_node_to_indices(node, node_idx)\n", "new": "            new._add_node_to_indices(node_idx, node)\n"},
    {"name": "V1-remove-skips-outlier-list", "kind": "break", "rule": "V1", "file": _T, "old": "        self._data[node].remove(data_point)\n\n        if node != self._OUTLIER_NODE_NAME:\n            node_idx = self._node_indices[node]\n", "new": "        if node != self._OUTLIER_NODE_NAME:\n            self._data[node].remove(data_point)\n            node_idx = self._node_indices[node]\n"},
    {"name": "V1-payload-add-for-other-point", "kind": "break", "rule": "V1", "file": _T, "old": "            self._graph[node_idx].add_data_point(data_point)\n", "new": "            self._graph[node_idx].add_data_point(self._data[node][0])\n"},
    {"name": "V1-list-add-without-data-list", "kind": "break", "rule": "V1", "file": _T, "old": "            self._data[node].extend(data)\n            self._graph[node_idx].add_data_point_list(data)", "new": "            self._graph[node_idx].add_data_point_list(data)"},
    {"name": "V1-relabel-installs-one-map", "kind": "break", "rule": ["V1", "V2"], "file": _T, "old": "        self._node_indices = visitor.node_indices\n        self._node_indices_rev = visitor.node_indices_rev\n", "new": "        self._node_indices = visitor.node_indices\n"},
    # ---- V2
    {"name": "V2-visitor-forgets-rev-map", "kind": "break", "rule": "V2", "file": _V, "old": "        self.node_indices[node_id] = v\n        self.node_indices_rev[v] = node_id\n", "new": "        self.node_indices[node_id] = v\n"},
    {"name": "V2-outliers-not-carried-over", "kind": "break", "rule": "V2", "file": _T, "old": "        data[self._OUTLIER_NODE_NAME] = list(self._data[self._OUTLIER_NODE_NAME])\n\n        visitor", "new": "        visitor"},
    {"name": "V2-data-read-under-new-label", "kind": "break", "rule": "V2", "file": _V, "old": "            self.data[node_id] = self.orig_data[old_node_id]", "new": "            self.data[node_id] = self.orig_data[node_id]"},
    {"name": "V2-counter-not-advanced", "kind": "break", "rule": "V2", "file": _V, "old": "            node_id = self.curr_idx\n            self.curr_idx += 1\n", "new": "            node_id = self.curr_idx\n"},
    {"name": "V2-payload-id-not-written", "kind": "break", "rule": "V2", "file": _V, "old": "            self.graph[v].node_id = node_id\n", "new": ""},
    {"name": "V2-maps-from-a-second-visitor", "kind": "break", "rule": "V2", "file": _T, "old": "        self._node_indices_rev = visitor.node_indices_rev\n", "new": "        self._node_indices_rev = PreOrderNodeRelabeller(self, data).node_indices_rev\n"},
    # ---- V3
    {"name": "V3-first_label-not-incremented", "kind": "break", "rule": "V3", "file": _T, "old": "                first_label += 1\n                node_name = first_label\n", "new": "                node_name = first_label\n"},
    {"name": "V3-label-incremented-after-use", "kind": "break", "rule": "V3", "file": _T, "old": "                first_label += 1\n                node_name = first_label\n", "new": "                node_name = first_label\n                first_label += 1\n"},
    {"name": "V3-fresh-label-ignores-subtree-labels", "kind": "break", "rule": "V3", "file": _T, "old": "first_label = max(self.nodes + subtree.nodes + [-1])", "new": "first_label = max(self.nodes + [-1])"},
    {"name": "V3-dummy-root-registered", "kind": "break", "rule": "V3", "file": _T, "old": "            if old_idx == subtree_dummy_root:\n                continue\n", "new": ""},
    {"name": "V3-data-read-under-new-label", "kind": "break", "rule": "V3", "file": _T, "old": "            self._data[node_name] = subtree._data[old_node_name]", "new": "            self._data[node_name] = subtree._data[node_name]"},
    {"name": "V3-relabel-given-wrong-dummy", "kind": "break", "rule": "V3", "file": _T, "old": "self._relabel_grafted_subtree_nodes(node_map_idx, subtree, subtree_dummy_root)", "new": "self._relabel_grafted_subtree_nodes(node_map_idx, subtree, parent_idx)"},
    # ---- L1
    {"name": "L1-outliers-not-re-added", "kind": "break", "rule": "L1", "file": _PG, "old": "            for data_point in subtree.outliers:\n                new_tree.add_data_point_to_outliers(data_point)\n\n", "new": ""},
    {"name": "L1-arm-removes-without-adding", "kind": "break", "rule": "L1", "file": _G, "old": "            new_tree.add_data_point_to_outliers(data_point)\n\n            new_trees.append(new_tree)", "new": "            new_trees.append(new_tree)"},
    {"name": "L1-get-from-original-remove-from-copy", "kind": "break", "rule": "L1", "file": _G, "old": "        subtree = pruned_tree.get_subtree(subtree_root)", "new": "        subtree = tree.get_subtree(subtree_root)"},
    {"name": "L1-subtree-extracted-never-removed", "kind": "break", "rule": "L1", "file": _PG, "old": "        tree.remove_subtree(subtree)\n\n        for data_point in tree.outliers:", "new": "        for data_point in tree.outliers:"},
    {"name": "L1-re-add-to-the-uncopied-tree", "kind": "break", "rule": "L1", "file": _G, "old": "            new_tree.add_data_point_to_node(data_point, new_node)", "new": "            tree.add_data_point_to_node(data_point, new_node)"},
    {"name": "L1-outlier-copied-not-moved", "kind": "break", "rule": "L1", "file": _PG, "old": "            tree.remove_data_point_from_outliers(data_point)\n\n            subtree", "new": "            subtree"},
    {"name": "L1-candidates-share-one-tree", "kind": "break", "rule": "L1", "file": _G, "old": "            new_tree = pruned_tree.copy()\n\n            if parent is None:", "new": "            new_tree = pruned_tree\n\n            if parent is None:"},
    {"name": "L1-builder-args-swapped", "kind": "break", "rule": "L1", "file": _G, "old": "self._create_sampled_trees_array(remaining_nodes, pruned_tree, subtree)", "new": "self._create_sampled_trees_array(remaining_nodes, subtree, pruned_tree)"},
    {"name": "L1-graft-ignores-attachment-point", "kind": "break", "rule": "L1", "file": _G, "old": "new_tree.add_subtree(subtree, parent=parent)\n\n            new_tree.update()\n\n            trees", "new": "new_tree.add_subtree(subtree, parent=None)\n\n            new_tree.update()\n\n            trees"},
    {"name": "L1-point-added-twice", "kind": "break", "rule": "L1", "file": _G, "old": "            new_tree.add_data_point_to_node(data_point, new_node)\n", "new": "            new_tree.add_data_point_to_node(data_point, new_node)\n            if new_node == old_node:\n                new_tree.add_data_point_to_node(data_point, new_node)\n"},
    {"name": "L1-other-variable-re-added", "kind": "break", "rule": "L1", "file": _G, "old": "            new_tree.add_data_point_to_outliers(data_point)\n\n            new_trees.append(new_tree)", "new": "            new_tree.add_data_point_to_outliers(tree.data[0])\n\n            new_trees.append(new_tree)"},
    {"name": "L1-weights-graft-without-copy", "kind": "break", "rule": "L1", "file": _PG, "old": "            new_tree = tree.copy()\n\n            new_tree.add_subtree", "new": "            new_tree = tree\n\n            new_tree.add_subtree"},
    # ---- L2
    {"name": "L2-prune-regraft-returns-count", "kind": "break", "rule": "L2", "file": _G, "old": "        return trees[idx][1]", "new": "        return trees[idx][0]"},
    {"name": "L2-one-point-never-added", "kind": "break", "rule": "L2", "file": _SB, "old": "        self.num_iterations = len(data_points)", "new": "        self.num_iterations = len(data_points) - 1"},
    {"name": "L2-skip-point", "kind": "break", "rule": "L2", "file": _SB, "old": "            self.iteration += 1\n\n        return self.swarm", "new": "            self.iteration += 2\n\n        return self.swarm"},
    {"name": "L2-data-point-sampler-falls-off", "kind": "break", "rule": "L2", "file": _G, "old": "                tree_labels = tree.labels\n\n        return tree\n", "new": "                tree_labels = tree.labels\n\n        if len(data_idxs) > 0:\n            return tree\n"},
    {"name": "L2-burnin-order-from-other-tree", "kind": "break", "rule": "L2", "file": "phyclone/smc/samplers/unconditional.py", "old": "data_sigma = RootPermutationDistribution.sample(tree, self._rng)", "new": "data_sigma = RootPermutationDistribution.sample(tree, self._rng)[1:]"},
    # ---- benign
    {"name": "benign-registration-inlined-as-two-stores", "kind": "benign", "file": _T, "old": "        node_idx = self._graph.add_node(node_obj)\n        self._add_node_to_indices(node, node_idx)\n", "new": "        node_idx = self._graph.add_node(node_obj)\n        self._node_indices[node] = node_idx\n        self._node_indices_rev[node_idx] = node\n"},
    {"name": "benign-get_subtree-registration-inlined", "kind": "benign", "file": _T, "old": "            new._add_node_to_indices(node, node_idx)\n", "new": "            new._node_indices[node] = node_idx\n            new._node_indices_rev[node_idx] = node\n"},
    {"name": "benign-remove_subtree-renamed-locals", "kind": "benign", "file": _T, "old": "                    del self._data[node_id]\n                    curr_idx = self._node_indices[node_id]\n                    del self._node_indices[node_id]\n                    del self._node_indices_rev[curr_idx]\n", "new": "                    ix = self._node_indices[node_id]\n                    del self._node_indices_rev[ix]\n                    del self._node_indices[node_id]\n                    del self._data[node_id]\n"},
    {"name": "benign-visitor-if-else", "kind": "benign", "file": _V, "old": "        node_id = self.graph[v].node_id\n        if node_id != self.root_node_name:\n            old_node_id = node_id\n            node_id = self.curr_idx\n            self.curr_idx += 1\n            self.graph[v].node_id = node_id\n            self.data[node_id] = self.orig_data[old_node_id]\n", "new": "        payload = self.graph[v]\n        node_id = payload.node_id\n        if node_id == self.root_node_name:\n            pass\n        else:\n            fresh = self.curr_idx\n            self.data[fresh] = self.orig_data[node_id]\n            payload.node_id = fresh\n            node_id = fresh\n            self.curr_idx = fresh + 1\n"},
    {"name": "benign-graft-label-arith", "kind": "benign", "file": _T, "old": "                first_label += 1\n                node_name = first_label\n", "new": "                node_name = 1 + first_label\n                first_label = node_name\n"},
    {"name": "benign-outliers-carried-before-graft", "kind": "benign", "file": _PG, "old": "            new_tree.add_subtree(subtree, parent=parent)\n\n            for data_point in subtree.outliers:\n                new_tree.add_data_point_to_outliers(data_point)\n", "new": "            for data_point in subtree.outliers:\n                new_tree.add_data_point_to_outliers(data_point)\n\n            new_tree.add_subtree(subtree, parent=parent)\n"},
    {"name": "benign-rename-data-point-variable", "kind": "benign", "file": _PG, "old": "        for data_point in tree.outliers:\n            tree.remove_data_point_from_outliers(data_point)\n\n            subtree.add_data_point_to_outliers(data_point)\n", "new": "        for dp in tree.outliers:\n            subtree.add_data_point_to_outliers(dp)\n            tree.remove_data_point_from_outliers(dp)\n"},
    {"name": "benign-candidate-builder-print", "kind": "benign", "file": _G, "old": "            new_tree.add_subtree(subtree, parent=parent)\n\n            new_tree.update()\n\n            trees", "new": "            print(\"graft below\", parent)\n            new_tree.add_subtree(subtree, parent)\n\n            new_tree.update()\n\n            trees"},
    {"name": "benign-sample-loop-reformatted", "kind": "benign", "file": _SB, "old": "            self.iteration += 1\n\n        return self.swarm", "new": "            self.iteration += 1\n            pass\n\n        result = self.swarm\n        return self.swarm"},
    {"name": "N0-outlier-name-collides", "kind": "break", "rule": "N0", "file": "phyclone/tree/tree.py", "old": "    _OUTLIER_NODE_NAME = -1\n", "new": "    _OUTLIER_NODE_NAME = 1\n"},
    {"name": "N0-relabel-from-one", "kind": "break", "rule": "N0", "file": "phyclone/tree/visitors.py", "old": "def __init__(self, tree, data, start_idx=0):", "new": "def __init__(self, tree, data, start_idx=1):"},
    {"name": "N0-main-loop-no-relabel", "kind": "break", "rule": "N0", "file": "phyclone/run.py", "old": "            tree.relabel_nodes()\n\n            if concentration_update:", "new": "            if concentration_update:"},
    {"name": "R0-reset-on-equal-clone-count", "kind": "break", "rule": "R0", "file": "phyclone/tree/tree.py", "old": "        if subtree == self:\n            self.__init__(self.grid_size)", "new": "        if subtree.get_number_of_nodes() == self.get_number_of_nodes():\n            self.__init__(self.grid_size)"},
    {"name": "TS-outlier-add-does-nothing", "kind": "break", "rule": "TS", "file": "phyclone/tree/tree.py", "old": "        self.add_data_point_to_node(data_point, self._OUTLIER_NODE_NAME)", "new": "        assert self._is_data_point_in_tree(data_point) == False"},
    {"name": "TS-new-clone-keeps-children-under-root", "kind": "break", "rule": "TS", "file": "phyclone/tree/tree.py", "old": "            self._graph.remove_edge(root_idx, child_idx)\n\n", "new": ""},
    {"name": "TS-outlier-removal-does-nothing", "kind": "break", "rule": "TS", "file": "phyclone/tree/tree.py", "old": "    def remove_data_point_from_outliers(self, data_point):\n        self._data[self._OUTLIER_NODE_NAME].remove(data_point)", "new": "    def remove_data_point_from_outliers(self, data_point):\n        assert data_point in self._data[self._OUTLIER_NODE_NAME]"},
    {"name": "TS-get_parent-second-predecessor", "kind": "break", "rule": "TS", "file": "phyclone/tree/tree.py", "old": "return [pred.node_id for pred in self._graph.predecessors(node_idx)][0]", "new": "return [pred.node_id for pred in self._graph.predecessors(node_idx)][-1:][0] if node_idx else None"},
    {"name": "benign-TS-extra-refresh-and-print", "kind": "benign", "file": "phyclone/tree/tree.py", "old": "        self._last_node_added_to = node\n\n        self._update_path_to_root(node)\n\n        return node", "new": "        self._last_node_added_to = node\n\n        self._update_path_to_root(node)\n        self.update()\n        print(node)\n\n        return node"},
]
