"""C18 — a seeded run is reproducible regardless of scheduling and hash seed.

Determinism is a provenance property, decided here by four small whole-program analyses over the
product package (tests excluded; nothing is imported or executed):

R1   every random draw (`.random(`, `.choice(`, `.integers(`, `.multinomial(`, `.shuffle(`, `.spawn(`,
     scipy `.rvs(random_state=…)`, …) uses a generator whose value data-flows — attribute -> the
     assignment that stores it -> the constructor parameter -> the constructor's call sites -> … —
     back to `run.instantiate_and_seed_RNG(seed)` or to an element of `<that generator>.spawn(n)`.
     The walk is an explicit interprocedural def-use walk with a visited set; names play no role.
R1f  forbidden entropy sources anywhere outside `instantiate_and_seed_RNG` (numpy legacy global
     functions, `default_rng`, stdlib `random`, `secrets`, `os.urandom`, `uuid`, `.rvs(` without
     `random_state=`, seeds built from clock / pid).  Expected count zero -> an embedded positive
     fixture must be flagged on every run.
R2   chain isolation in `run.run`.
R3   no hash-order dependence: every set/frozenset-typed value created in code reachable from
     `run.run`, with every order-sensitive use; plus confinement of `hash()` values to `__hash__`.
R4   completion order (`as_completed`) feeds only keyed storage and printing; wall-clock values flow
     only into the "time" field, prints and the `max_time` break.

NOT decided: bitwise determinism of numpy / scipy / numba / rustworkx across machines and thread counts.
"""
import ast

from ..astutil import call_name, calls, dotted, func_defaults, kwarg, last_name, parents, u
from ..model import AnalysisError

SEED_FN = "run.instantiate_and_seed_RNG"
ENTRY = "run.run"
CHAIN_FN = "run.run_phyclone_chain"


# =====================================================================================================
# Shared infrastructure: scopes, bindings, call resolution, call sites, reachability
# =====================================================================================================

def own_nodes(root):
    """Nodes of a function body without descending into nested defs / classes (lambdas are descended)."""
    stack = list(ast.iter_child_nodes(root))
    while stack:
        n = stack.pop()
        yield n
        if isinstance(n, (ast.FunctionDef, ast.AsyncFunctionDef, ast.ClassDef)):
            continue
        stack.extend(ast.iter_child_nodes(n))


class World:
    """Per-run caches over the program model."""

    def __init__(self, prog):
        self.prog = prog
        self._pmap = {}
        self._own = {}
        self._callsites = None
        self._calls_of = {}
        self.modfn = {}
        # module-level pseudo functions, so that module-level statements are analysed like bodies
        for m in prog.modules.values():
            self.modfn[m.name] = ModuleScope(m)

    # ---- scopes -------------------------------------------------------------------------------
    def scopes(self):
        for fi in self.prog.functions.values():
            yield fi
        for ms in self.modfn.values():
            yield ms

    def own(self, fi):
        k = id(fi)
        if k not in self._own:
            self._own[k] = list(own_nodes(fi.node))
        return self._own[k]

    def pmap(self, fi):
        k = id(fi)
        if k not in self._pmap:
            m = {}
            for p in [fi.node] + self.own(fi):
                for c in ast.iter_child_nodes(p):
                    m[id(c)] = p
            self._pmap[k] = m
        return self._pmap[k]

    def parent(self, fi, node):
        return self.pmap(fi).get(id(node))

    def ancestors(self, fi, node):
        cur = self.parent(fi, node)
        while cur is not None:
            yield cur
            cur = self.parent(fi, cur)

    # ---- name resolution ------------------------------------------------------------------------
    def qualify(self, expr, module):
        """Dotted expression -> fully qualified dotted name through the module's imports, or None."""
        d = dotted(expr)
        if d is None or "()" in d:
            return None
        head, _, rest = d.partition(".")
        tgt = module.imports.get(head)
        if tgt is None:
            return None
        return tgt + ("." + rest if rest else "")

    def is_staticmethod(self, fi):
        return any(d.split(".")[-1] == "staticmethod" for d in getattr(fi, "decorators", []))

    def is_classmethod(self, fi):
        return any(d.split(".")[-1] == "classmethod" for d in getattr(fi, "decorators", []))

    def bound_offset(self, fi):
        """Number of leading parameters bound implicitly when the function is called as a method."""
        if getattr(fi, "cls", None) is None and not self._is_method(fi):
            return 0
        return 0 if self.is_staticmethod(fi) else 1

    def _is_method(self, fi):
        return self.owner_class(fi) is not None

    def owner_class(self, fi):
        if isinstance(fi, ModuleScope):
            return None
        if fi.cls is not None:
            return fi.cls
        # property accessors are indexed with cls set too; nested defs have parent
        return None

    def local_class_aliases(self, fi):
        """name -> [ClassInfo] for `x = SomeClass` assignments in the scope."""
        out = {}

        def classes_of(v, depth=0):
            """Classes an expression can denote: a class name, `A if c else B`, `TABLE[k]` / `TABLE.get(k, Default)` over
            a module-level dict display whose values are class names."""
            if depth > 3:
                return []
            if isinstance(v, ast.Name):
                ci = self.prog.resolve_class(v.id, fi.module)
                if ci is not None:
                    return [ci]
                # a module-level constant bound once to such an expression
                binds = [st.value for st in fi.module.tree.body if isinstance(st, ast.Assign) and len(st.targets) == 1 and isinstance(st.targets[0], ast.Name) and st.targets[0].id == v.id]
                if len(binds) == 1:
                    return classes_of(binds[0], depth + 1)
                return []
            if isinstance(v, ast.IfExp):
                a, b = classes_of(v.body, depth + 1), classes_of(v.orelse, depth + 1)
                return a + b if a and b else []
            if isinstance(v, ast.Dict) and v.values and all(k is not None for k in v.keys):
                vals = [classes_of(x, depth + 1) for x in v.values]
                return [c for cs in vals for c in cs] if all(vals) else []
            if isinstance(v, ast.Subscript):
                return classes_of(v.value, depth + 1)
            if isinstance(v, ast.Call) and isinstance(v.func, ast.Attribute) and v.func.attr == "get" and 1 <= len(v.args) <= 2 and not v.keywords:
                table = classes_of(v.func.value, depth + 1)
                dflt = classes_of(v.args[1], depth + 1) if len(v.args) == 2 else []
                return table + dflt if table and (dflt or len(v.args) == 1) else []
            return []

        for n in self.own(fi):
            if isinstance(n, ast.Assign):
                cs = classes_of(n.value)
                for ci in cs:
                    for t in n.targets:
                        if isinstance(t, ast.Name) and ci not in out.setdefault(t.id, []):
                            out[t.id].append(ci)
        return out

    def resolve_call(self, call, fi):
        """-> list of (callee FunctionInfo, shift, bound) ; shift = positional args consumed before the
        callee's own (indirect calls), bound = number of callee parameters bound implicitly."""
        prog = self.prog
        out = []
        f = call.func
        mod = fi.module

        def add_class(ci):
            init = prog.method(ci, "__init__")
            if init is not None:
                out.append((init, 0, 1))

        if isinstance(f, ast.Name):
            nm = f.id
            # nested function visible from this scope
            cur = fi
            while cur is not None and not isinstance(cur, ModuleScope):
                q = cur.qualname.split("@")[0] + "." + nm
                if q in prog.functions:
                    out.append((prog.functions[q], 0, 0))
                    break
                cur = cur.parent
            if not out:
                g = prog.resolve_function(nm, mod)
                if g is not None:
                    out.append((g, 0, 0))
                else:
                    ci = prog.resolve_class(nm, mod)
                    if ci is not None:
                        add_class(ci)
                    else:
                        for ci in self.local_class_aliases(fi).get(nm, []):
                            add_class(ci)
        elif isinstance(f, ast.Attribute):
            m = f.attr
            recv = f.value
            cls = self.owner_class(fi)
            if isinstance(recv, ast.Call) and isinstance(recv.func, ast.Name) and recv.func.id == "super" and cls is not None:
                for c in prog.mro(cls)[1:]:
                    if m in c.methods:
                        out.append((c.methods[m], 0, 1))
                        break
            else:
                q = self.qualify(f, mod)
                hit = False
                if q is not None:
                    if q in prog.functions:
                        out.append((prog.functions[q], 0, 0))
                        hit = True
                    elif q in prog.classes:
                        add_class(prog.classes[q])
                        hit = True
                    else:
                        g = prog._resolve_dotted_fn(q)
                        if g is not None:
                            out.append((g, 0, 0))
                            hit = True
                        else:
                            ci = prog._resolve_dotted_class(q)
                            if ci is not None:
                                add_class(ci)
                                hit = True
                if not hit and isinstance(recv, ast.Name):
                    ci = prog.resolve_class(recv.id, mod)
                    if ci is not None:  # Class.method(...)
                        g = prog.method(ci, m)
                        if g is not None:
                            out.append((g, 0, 0 if self.is_staticmethod(g) else (1 if self.is_classmethod(g) else 0)))
                            hit = True
                if not hit and isinstance(recv, ast.Name) and recv.id in ("self", "cls") and cls is not None:
                    seen = set()
                    for c in prog.mro(cls):
                        if m in c.methods:
                            out.append((c.methods[m], 0, self.bound_offset(c.methods[m])))
                            seen.add(c.qualname)
                            break
                    for c in prog.subclasses(cls):
                        if m in c.methods and c.qualname not in seen:
                            out.append((c.methods[m], 0, self.bound_offset(c.methods[m])))
                    hit = bool(out)
                if not hit:
                    for c in prog.classes.values():
                        if m in c.methods:
                            g = c.methods[m]
                            out.append((g, 0, self.bound_offset(g)))
        # indirect invocation: pool.submit(f, *args), partial(f, *args)
        ln = last_name(call)
        if ln in ("submit", "partial", "apply_async", "apply") and call.args and isinstance(call.args[0], ast.Name):
            g = prog.resolve_function(call.args[0].id, mod)
            if g is not None:
                out.append((g, 1, 0))
        return out

    def callsites(self):
        """callee qualname -> list of (caller scope, call node, shift, bound)."""
        if self._callsites is None:
            idx = {}
            for fi in self.scopes():
                for n in self.own(fi):
                    if isinstance(n, ast.Call):
                        tg = self.resolve_call(n, fi)
                        self._calls_of.setdefault(id(fi), []).append((n, tg))
                        for g, shift, bound in tg:
                            idx.setdefault(g.qualname, []).append((fi, n, shift, bound))
            self._callsites = idx
        return self._callsites

    def calls_of(self, fi):
        self.callsites()
        return self._calls_of.get(id(fi), [])

    def _kwargs_literal(self, call):
        """{name: expression} when every `**x` of the call is a local bound once, in the enclosing function, to a
        dict(...) / {...} with literal keys and never edited afterwards (a shared keyword table); None otherwise."""
        stars = [k.value for k in call.keywords if k.arg is None]
        if not stars or not all(isinstance(x, ast.Name) for x in stars):
            return None
        owner = None
        for fi in self.prog.functions.values():
            if any(n is call for n in ast.walk(fi.node)):
                if owner is None or any(n is fi.node for n in ast.walk(owner.node)):
                    owner = fi  # the innermost function containing the call
        if owner is None:
            return None
        out = {}
        for x in stars:
            binds = [n for n in ast.walk(owner.node) if isinstance(n, (ast.Assign, ast.AnnAssign, ast.AugAssign, ast.For, ast.comprehension, ast.NamedExpr, ast.With)) and any(isinstance(t, ast.Name) and t.id == x.id and isinstance(t.ctx, ast.Store) for t in ast.walk(n) if not isinstance(t, ast.Call))]
            binds = [n for n in binds if isinstance(n, (ast.Assign, ast.AnnAssign)) and any(isinstance(t, ast.Name) and t.id == x.id for t in (n.targets if isinstance(n, ast.Assign) else [n.target]))] if all(isinstance(n, (ast.Assign, ast.AnnAssign)) for n in binds) else None
            if not binds or len(binds) != 1 or x.id in owner.params:
                return None
            v = binds[0].value
            if isinstance(v, ast.Call) and isinstance(v.func, ast.Name) and v.func.id == "dict" and not v.args and all(k.arg is not None for k in v.keywords):
                table = {k.arg: k.value for k in v.keywords}
            elif isinstance(v, ast.Dict) and all(isinstance(k, ast.Constant) and isinstance(k.value, str) for k in v.keys):
                table = {k.value: val for k, val in zip(v.keys, v.values)}
            else:
                return None
            for n in ast.walk(owner.node):
                if isinstance(n, ast.Subscript) and isinstance(n.value, ast.Name) and n.value.id == x.id and isinstance(n.ctx, (ast.Store, ast.Del)):
                    return None
                if isinstance(n, ast.Call) and isinstance(n.func, ast.Attribute) and isinstance(n.func.value, ast.Name) and n.func.value.id == x.id and n.func.attr in ("update", "pop", "popitem", "clear", "setdefault", "__setitem__", "__delitem__"):
                    return None
            dup = set(out) & set(table)
            if dup:
                return None
            out.update(table)
        return out

    def arg_for(self, call, callee, pname, shift, bound):
        """Expression bound to parameter `pname` at this call; ('default', node) / ('missing', None) /
        ('opaque', None) when the call uses *args / **kwargs."""
        a = callee.node.args
        pos = [x.arg for x in a.posonlyargs + a.args][bound:]
        kwonly = [x.arg for x in a.kwonlyargs]
        args = call.args[shift:]
        if pname in pos:
            i = pos.index(pname)
            if any(isinstance(x, ast.Starred) for x in args[: i + 1]):
                return ("opaque", None)
            if i < len(args):
                return ("arg", args[i])
        if pname in pos or pname in kwonly:
            v = kwarg(call, pname)
            if v is not None:
                return ("arg", v)
            if any(k.arg is None for k in call.keywords):
                lit = self._kwargs_literal(call)
                if lit is not None:
                    if pname in lit:
                        return ("arg", lit[pname])
                else:
                    return ("opaque", None)
            d = func_defaults(callee.node).get(pname)
            if d is not None:
                return ("default", d)
        return ("missing", None)

    # ---- reachability ---------------------------------------------------------------------------
    def reachable(self, entry):
        """Over-approximate set of function qualnames reachable from `entry` (calls, function names
        passed as values, property reads by attribute name, dunder methods of touched classes)."""
        prog = self.prog
        props = {}
        for c in prog.classes.values():
            for pn, d in c.properties.items():
                for kind, g in d.items():
                    props.setdefault(pn, []).append((kind, g))
        seen = {}
        work = [entry]
        touched = set()
        while work:
            fi = work.pop()
            if fi.qualname in seen:
                continue
            seen[fi.qualname] = fi
            nxt = []
            cls = self.owner_class(fi)
            if cls is not None:
                touched.add(cls.qualname)
            for n, tg in self.calls_of(fi):
                for g, _, _ in tg:
                    nxt.append(g)
            for n in self.own(fi):
                if isinstance(n, ast.Name) and isinstance(n.ctx, ast.Load):
                    g = prog.resolve_function(n.id, fi.module)
                    if g is not None:
                        nxt.append(g)
                    ci = prog.resolve_class(n.id, fi.module)
                    if ci is not None:
                        touched.add(ci.qualname)
                elif isinstance(n, ast.Attribute) and n.attr in props:
                    want = "getter" if isinstance(n.ctx, ast.Load) else "setter"
                    for kind, g in props[n.attr]:
                        if kind == want:
                            nxt.append(g)
            # nested defs run when their parent does (decorator factories, closures)
            for g in prog.functions.values():
                if g.parent is fi:
                    nxt.append(g)
            for q in list(touched):
                ci = prog.classes[q]
                # a class with a base outside the product (e.g. rustworkx DFSVisitor) is driven by
                # external callbacks: all of its methods may run
                external = any(b not in ("object",) and prog.resolve_class(b.split(".")[-1], ci.module) is None for b in ci.bases)
                for c in prog.mro(ci):
                    for mn, g in c.methods.items():
                        if (external or (mn.startswith("__") and mn.endswith("__"))) and g.qualname not in seen:
                            nxt.append(g)
            work.extend(g for g in nxt if g.qualname not in seen)
        return seen


class ModuleScope:
    """Module-level statements presented with the FunctionInfo interface."""

    def __init__(self, module):
        self.module = module
        self.node = module.tree
        self.qualname = module.name + ".<module>"
        self.cls = None
        self.parent = None
        self.name = "<module>"
        self.params = []
        self.decorators = []

    def where(self, node=None):
        import os

        from .. import model

        return "%s:%s" % (os.path.relpath(self.module.path, model.REPO), getattr(node, "lineno", 1) if node is not None else 1)


# =====================================================================================================
# R1 — generator provenance: interprocedural def-use walk
# =====================================================================================================

CORE_DRAWS = {"random", "choice", "integers", "multinomial", "shuffle", "spawn", "rvs"}
MORE_DRAWS = {
    "permutation", "permuted", "bytes", "normal", "standard_normal", "uniform", "dirichlet", "binomial",
    "poisson", "exponential", "beta", "gamma", "multivariate_normal", "standard_gamma", "geometric",
    "hypergeometric", "standard_exponential", "laplace", "lognormal", "negative_binomial", "randint",
    "rand", "randn", "random_sample", "sample", "randrange", "getrandbits", "triangular", "vonmises",
}
NP_RANDOM_TYPES = {"Generator", "BitGenerator", "SeedSequence", "PCG64", "PCG64DXSM", "Philox", "SFC64", "MT19937", "RandomState"}
PASS_THROUGH = {"copy.deepcopy", "copy.copy"}
ELEM_PASS = {"list", "tuple", "sorted", "reversed", "iter"}

GOOD = ("SEED", "SPAWN")


class Origin:
    __slots__ = ("kind", "detail", "chain", "gen")

    def __init__(self, kind, detail, chain, gen=False):
        self.kind, self.detail, self.chain, self.gen = kind, detail, chain, gen  # gen: a (wrong) generator

    def __repr__(self):
        return "%s(%s)" % (self.kind, self.detail)


class Tracer:
    """Backward value walk.  trace(expr, scope, elem) -> [Origin]; `elem` means "an element of"."""

    def __init__(self, world):
        self.w = world
        self.prog = world.prog
        self.seed_fn = self.prog.fn(SEED_FN)
        self.dropped = []  # weak (name-matched) call sites whose argument is not generator-like
        self._attr_stores = None
        self._dataclasses = None
        self._ctor_calls = None

    # ---- indices -------------------------------------------------------------------------------
    def attr_stores(self):
        """attr -> [(scope, value expr or None, receiver expr, stmt)] for every `<x>.attr = v`."""
        if self._attr_stores is None:
            idx = {}
            for fi in self.w.scopes():
                for n in self.w.own(fi):
                    tgts, val = [], None
                    if isinstance(n, ast.Assign):
                        tgts, val = n.targets, n.value
                    elif isinstance(n, ast.AnnAssign) and n.value is not None:
                        tgts, val = [n.target], n.value
                    elif isinstance(n, ast.AugAssign):
                        tgts, val = [n.target], None
                    for t in tgts:
                        if isinstance(t, ast.Attribute):
                            idx.setdefault(t.attr, []).append((fi, val, t.value, n))
                        elif isinstance(t, (ast.Tuple, ast.List)):
                            for i, e in enumerate(t.elts):
                                if isinstance(e, ast.Attribute):
                                    v = val.elts[i] if isinstance(val, (ast.Tuple, ast.List)) and len(val.elts) == len(t.elts) else None
                                    idx.setdefault(e.attr, []).append((fi, v, e.value, n))
            self._attr_stores = idx
        return self._attr_stores

    def dataclass_fields(self):
        """field name -> [(ClassInfo, index)] for @dataclass classes."""
        if self._dataclasses is None:
            idx = {}
            for c in self.prog.classes.values():
                if any(ast.unparse(d).split("(")[0].split(".")[-1] == "dataclass" for d in c.node.decorator_list):
                    i = 0
                    for st in c.node.body:
                        if isinstance(st, ast.AnnAssign) and isinstance(st.target, ast.Name):
                            idx.setdefault(st.target.id, []).append((c, i))
                            i += 1
            self._dataclasses = idx
        return self._dataclasses

    def ctor_calls(self):
        if self._ctor_calls is None:
            idx = {}
            for fi in self.w.scopes():
                for n in self.w.own(fi):
                    if isinstance(n, ast.Call):
                        ci = None
                        if isinstance(n.func, ast.Name):
                            ci = self.prog.resolve_class(n.func.id, fi.module)
                        else:
                            q = self.w.qualify(n.func, fi.module)
                            if q:
                                ci = self.prog._resolve_dotted_class(q)
                        if ci is not None:
                            idx.setdefault(ci.qualname, []).append((fi, n))
            self._ctor_calls = idx
        return self._ctor_calls

    # ---- bindings of a name ----------------------------------------------------------------------
    def bindings(self, name, fi, at):
        """[(binding, scope)] with binding = ('value', expr) | ('iter', target, iter_expr) |
        ('unpack', value, index) | ('param', scope) | ('import', dotted) | ('opaque', text).
        The innermost scope that binds the name wins (comprehension, function, enclosing function,
        module, imports)."""
        w = self.w
        cur, node = fi, at
        while cur is not None:
            got = self._bindings_local(name, cur, node)
            if got:
                return [(b, cur) for b in got]
            if isinstance(cur, ModuleScope):
                break
            cur, node = (cur.parent if cur.parent is not None else w.modfn[cur.module.name]), None
        tgt = fi.module.imports.get(name)
        if tgt:
            return [(("import", tgt), w.modfn[fi.module.name])]
        return []

    def _bindings_local(self, name, fi, at):
        w = self.w
        out = []
        if at is not None:
            for a in w.ancestors(fi, at):
                if isinstance(a, (ast.ListComp, ast.SetComp, ast.DictComp, ast.GeneratorExp)):
                    for g in a.generators:
                        if any(isinstance(x, ast.Name) and x.id == name for x in ast.walk(g.target)):
                            out.append(("iter", g.target, g.iter))
                    if out:
                        return out
                if isinstance(a, ast.Lambda) and any(x.arg == name for x in a.args.args):
                    return [("opaque", "lambda parameter")]
        for n in w.own(fi):
            if isinstance(n, ast.Assign):
                for t in n.targets:
                    self._bind_target(t, n.value, name, out)
            elif isinstance(n, ast.AnnAssign) and n.value is not None:
                self._bind_target(n.target, n.value, name, out)
            elif isinstance(n, ast.AugAssign):
                if isinstance(n.target, ast.Name) and n.target.id == name:
                    out.append(("opaque", "augmented assignment"))
            elif isinstance(n, ast.NamedExpr):
                if n.target.id == name:
                    out.append(("value", n.value))
            elif isinstance(n, (ast.For, ast.AsyncFor)):
                if any(isinstance(x, ast.Name) and x.id == name for x in ast.walk(n.target)):
                    out.append(("iter", n.target, n.iter))
            elif isinstance(n, (ast.With, ast.AsyncWith)):
                for it in n.items:
                    if it.optional_vars is not None and any(isinstance(x, ast.Name) and x.id == name for x in ast.walk(it.optional_vars)):
                        out.append(("opaque", "with ... as"))
            elif isinstance(n, ast.ExceptHandler) and n.name == name:
                out.append(("opaque", "exception"))
            elif isinstance(n, (ast.Import, ast.ImportFrom)) and not isinstance(fi, ModuleScope):
                for al in n.names:
                    if (al.asname or al.name.split(".")[0]) == name:
                        out.append(("import", (n.module + "." if isinstance(n, ast.ImportFrom) and n.module else "") + al.name))
        if not isinstance(fi, ModuleScope) and name in fi.params:
            out.append(("param", fi))
        return out

    @staticmethod
    def _bind_target(t, value, name, out):
        if isinstance(t, ast.Name):
            if t.id == name:
                out.append(("value", value))
        elif isinstance(t, (ast.Tuple, ast.List)):
            for i, e in enumerate(t.elts):
                if isinstance(e, ast.Name) and e.id == name:
                    if isinstance(value, (ast.Tuple, ast.List)) and len(value.elts) == len(t.elts):
                        out.append(("value", value.elts[i]))
                    else:
                        out.append(("unpack", value, i))
                elif isinstance(e, (ast.Tuple, ast.List, ast.Starred)) and any(isinstance(x, ast.Name) and x.id == name for x in ast.walk(e)):
                    out.append(("opaque", "nested unpacking"))

    # ---- the walk -----------------------------------------------------------------------------------
    def trace(self, expr, fi, elem=False, chain=(), seen=None, weak=False):
        """`seen` maps (scope, node, elem) -> origins (None while the node is being expanded), so a
        cycle (recursive calls) contributes nothing and a second route to a node reuses its result."""
        if seen is None:
            seen = {}
        key = (fi.qualname, id(expr), elem, weak)
        if key in seen:
            return list(seen[key] or [])
        seen[key] = None
        here = "%s%s  [%s]" % ("element of " if elem else "", u(expr)[:70], fi.qualname)
        res = self._trace(expr, fi, elem, chain + (here,), seen, weak)
        seen[key] = res
        return res

    def _unknown(self, why, chain):
        return [Origin("UNKNOWN", why, chain)]

    def _trace(self, e, fi, elem, chain, seen, weak):
        w, prog = self.w, self.prog
        T = lambda x, f=fi, el=elem, wk=weak: self.trace(x, f, el, chain, seen, wk)
        if isinstance(e, ast.IfExp):
            return T(e.body) + T(e.orelse)
        if isinstance(e, ast.BoolOp):
            return [o for v in e.values for o in T(v)]
        if isinstance(e, ast.NamedExpr):
            return T(e.value)
        if isinstance(e, ast.Starred):
            return T(e.value, fi, True)
        if isinstance(e, ast.Constant):
            return [Origin("BAD", "constant %r is not the run's seeded generator" % (e.value,), chain)]
        if isinstance(e, ast.Name):
            return self._trace_name(e, fi, elem, chain, seen, weak)
        if isinstance(e, ast.Subscript):
            if isinstance(e.slice, ast.Slice):
                return T(e.value)
            if elem:
                return self._unknown("element of an element: %s" % u(e), chain)
            return T(e.value, fi, True)
        if isinstance(e, (ast.List, ast.Tuple, ast.Set)):
            if not elem:
                return self._unknown("a %s display used as a generator" % type(e).__name__.lower(), chain)
            return [o for x in e.elts for o in T(x, fi, False)]
        if isinstance(e, (ast.ListComp, ast.GeneratorExp, ast.SetComp)):
            if not elem:
                return self._unknown("a comprehension used as a generator", chain)
            return T(e.elt, fi, False)
        if isinstance(e, ast.DictComp):
            if not elem:
                return self._unknown("a dict used as a generator", chain)
            return T(e.value, fi, False)
        if isinstance(e, ast.Dict):
            if not elem:
                return self._unknown("a dict used as a generator", chain)
            return [o for x in e.values for o in T(x, fi, False)]
        if isinstance(e, ast.Attribute):
            return self._trace_attr(e, fi, elem, chain, seen, weak)
        if isinstance(e, ast.Call):
            return self._trace_call(e, fi, elem, chain, seen, weak)
        return self._unknown("unsupported expression %s" % type(e).__name__, chain)

    def _trace_name(self, e, fi, elem, chain, seen, weak):
        bs = self.bindings(e.id, fi, e)
        if not bs:
            return self._unknown("name %s has no visible binding" % e.id, chain)
        out = []
        for b, sc in bs:
            k = b[0]
            if k == "value":
                out += self.trace(b[1], sc, elem, chain, seen, weak)
            elif k == "iter":
                if elem:
                    out += self._unknown("element of a loop variable", chain)
                else:
                    out += self._trace_iter_target(b[1], b[2], e.id, sc, chain, seen, weak)
            elif k == "unpack":
                out += self._unknown("%s is item %d of an unpacked %s" % (e.id, b[2], u(b[1])[:50]), chain)
            elif k == "param":
                out += self._trace_param(e.id, b[1], elem, chain, seen, weak)
            elif k == "import":
                d = b[1]
                if d == "numpy.random" or d.startswith("numpy.random.") or d == "random" or d.startswith("random."):
                    out.append(Origin("BAD", "%s is the process-global generator %s" % (e.id, d), chain, True))
                else:
                    out += self._unknown("%s is the imported object %s" % (e.id, d), chain)
            else:
                out += self._unknown("%s bound by %s" % (e.id, b[1]), chain)
        return out

    def _trace_iter_target(self, target, it, name, fi, chain, seen, weak):
        T = lambda x, el: self.trace(x, fi, el, chain, seen, weak)
        if isinstance(target, ast.Name):
            return T(it, True)
        if isinstance(target, (ast.Tuple, ast.List)):
            idx = [i for i, x in enumerate(target.elts) if isinstance(x, ast.Name) and x.id == name]
            if len(idx) == 1 and isinstance(it, ast.Call):
                i = idx[0]
                fn = call_name(it)
                if fn == "enumerate" and it.args and len(target.elts) == 2:
                    if i == 1:
                        return T(it.args[0], True)
                    return [Origin("BAD", "%s is an enumerate() counter, not a generator" % name, chain)]
                if fn == "zip" and len(it.args) == len(target.elts) and not any(isinstance(a, ast.Starred) for a in it.args):
                    return T(it.args[i], True)
                if last_name(it) == "items" and isinstance(it.func, ast.Attribute) and not it.args and len(target.elts) == 2 and i == 1:
                    return T(it.func.value, True)
        return self._unknown("loop target %s over %s" % (u(target), u(it)[:60]), chain)

    def _shadowed(self, name, fi, at):
        return bool(self.bindings(name, fi, at))

    def _compatible(self, call, callee, shift, bound):
        a = callee.node.args
        pos = [x.arg for x in a.posonlyargs + a.args][bound:]
        npos = len(call.args) - shift
        if any(isinstance(x, ast.Starred) for x in call.args) or any(k.arg is None for k in call.keywords):
            return True
        if npos > len(pos) and a.vararg is None:
            return False
        names = set(pos) | {x.arg for x in a.kwonlyargs}
        if a.kwarg is None and any(k.arg not in names for k in call.keywords):
            return False
        given = set(pos[:npos]) | {k.arg for k in call.keywords}
        ndef = len(a.defaults)
        required = pos[: len(pos) - ndef] if ndef else pos
        return all(p in given for p in required)

    def _is_weak(self, call, fi):
        """True when the callee was matched by method name only (receiver class not resolved)."""
        f = call.func
        if not isinstance(f, ast.Attribute):
            return False
        if last_name(call) in ("submit", "partial", "apply_async", "apply") and call.args and isinstance(call.args[0], ast.Name) and self.prog.resolve_function(call.args[0].id, fi.module):
            return False
        r = f.value
        if isinstance(r, ast.Call) and isinstance(r.func, ast.Name) and r.func.id == "super":
            return False
        if isinstance(r, ast.Name) and (r.id in ("self", "cls") or self.prog.resolve_class(r.id, fi.module) is not None):
            return False
        if self.w.qualify(f, fi.module) is not None:
            return False
        return True

    def _trace_param(self, pname, fi, elem, chain, seen, weak):
        sites = self.w.callsites().get(fi.qualname, [])
        if fi.name == "__init__" and fi.cls is not None:
            pass
        out = []
        n_used = 0
        for caller, call, shift, bound in sites:
            if not self._compatible(call, fi, shift, bound):
                continue
            kind, ex = self.w.arg_for(call, fi, pname, shift, bound)
            wk = weak or self._is_weak(call, caller)
            step = chain + ("parameter %s of %s <- call at %s" % (pname, fi.qualname, caller.where(call)),)
            if kind == "arg":
                got = self.trace(ex, caller, elem, step, seen, wk)
            elif kind == "default":
                got = self.trace(ex, fi, elem, step + ("default value",), seen, wk)
            elif kind == "opaque":
                got = [Origin("UNKNOWN", "call %s passes *args/**kwargs" % u(call)[:60], step)]
            else:
                got = [Origin("UNKNOWN", "call %s does not bind %s" % (u(call)[:60], pname), step)]
            if self._is_weak(call, caller):
                keep = [o for o in got if o.kind != "UNKNOWN"]
                if len(keep) != len(got):
                    self.dropped.append("%s: %s (matched %s by method name only; argument is not generator-like)" % (caller.where(call), u(call)[:60], fi.qualname))
                got = keep
            n_used += 1
            out += got
        if not sites or n_used == 0:
            return [Origin("OPEN", "parameter %s of %s: no call site in product code" % (pname, fi.qualname), chain)]
        return out

    def _trace_attr(self, e, fi, elem, chain, seen, weak):
        w, prog = self.w, self.prog
        q = w.qualify(e, fi.module)
        if q is not None:
            if q == "numpy.random" or q.startswith("numpy.random.") or q == "random" or q.startswith("random."):
                return [Origin("BAD", "%s is the process-global generator / module %s" % (u(e), q), chain, True)]
            return self._unknown("%s is the imported object %s" % (u(e), q), chain)
        a = e.attr
        recv = e.value
        cls = w.owner_class(fi)
        is_self = isinstance(recv, ast.Name) and recv.id == "self" and cls is not None
        fam = None
        if is_self:
            fam = {c.qualname for c in prog.mro(cls)} | {c.qualname for c in prog.subclasses(cls)}
        out = []
        found = False
        # property getters
        for c in prog.classes.values():
            if fam is not None and c.qualname not in fam:
                continue
            g = c.properties.get(a, {}).get("getter")
            if g is not None:
                found = True
                step = chain + ("property %s" % g.qualname,)
                rets = [n for n in w.own(g) if isinstance(n, ast.Return) and n.value is not None]
                if not rets:
                    out += self._unknown("property %s returns nothing" % g.qualname, step)
                for r in rets:
                    out += self.trace(r.value, g, elem, step, seen, weak)
        # attribute stores
        for sfi, val, srecv, stmt in self.attr_stores().get(a, []):
            scls = w.owner_class(sfi)
            s_self = isinstance(srecv, ast.Name) and srecv.id == "self" and scls is not None
            if fam is not None and s_self and scls.qualname not in fam:
                continue
            found = True
            step = chain + ("stored by `%s` at %s" % (u(stmt)[:60], sfi.where(stmt)),)
            if val is None:
                out += self._unknown("attribute %s updated in place / by unpacking" % a, step)
            else:
                out += self.trace(val, sfi, elem, step, seen, weak)
        # dataclass fields
        for c, i in self.dataclass_fields().get(a, []):
            for cfi, call in self.ctor_calls().get(c.qualname, []):
                found = True
                step = chain + ("dataclass field %s.%s <- %s" % (c.name, a, cfi.where(call)),)
                v = call.args[i] if i < len(call.args) and not any(isinstance(x, ast.Starred) for x in call.args) else kwarg(call, a)
                if v is None:
                    out += self._unknown("field %s not bound at %s" % (a, u(call)[:50]), step)
                else:
                    out += self.trace(v, cfi, elem, step, seen, weak)
        if not found:
            return self._unknown("no assignment to attribute .%s found in product code" % a, chain)
        return out

    def _trace_call(self, e, fi, elem, chain, seen, weak):
        w, prog = self.w, self.prog
        T = lambda x, el=elem, f=fi: self.trace(x, f, el, chain, seen, weak)
        ln = last_name(e)
        cn = call_name(e)
        q = w.qualify(e.func, fi.module)
        if ln == "spawn" and isinstance(e.func, ast.Attribute):
            if not elem:
                return self._unknown("the list returned by spawn() used as one generator", chain)
            parents = self.trace(e.func.value, fi, False, chain + ("receiver of spawn",), seen, weak)
            bad = [o for o in parents if o.kind not in GOOD]
            if bad:
                return bad
            if not parents:
                return []
            return [Origin("SPAWN", "element of %s" % u(e), parents[0].chain)]
        targets = w.resolve_call(e, fi)
        if any(g is self.seed_fn for g, _, _ in targets):
            if elem:
                return self._unknown("element of the seeded generator", chain)
            return [Origin("SEED", "%s at %s" % (u(e), fi.where(e)), chain)]
        if q is not None and (q.startswith("numpy.random.") or q.startswith("random.") or q.startswith("secrets.")):
            return [Origin("BAD", "%s creates / uses a generator that is not derived from the run's seed" % u(e)[:60], chain, True)]
        if q in PASS_THROUGH and e.args:
            return T(e.args[0])
        if isinstance(e.func, ast.Name) and e.func.id in ELEM_PASS and len(e.args) >= 1 and not self._shadowed(e.func.id, fi, e):
            if elem:
                return T(e.args[0], True)
            return self._unknown("%s(...) used as a generator" % e.func.id, chain)
        if isinstance(e.func, ast.Name) and e.func.id == "next" and e.args and not elem:
            return T(e.args[0], True)
        if isinstance(e.func, ast.Name) and e.func.id == "dict" and elem and len(e.args) == 1 and isinstance(e.args[0], ast.Call):
            inner = e.args[0]
            if call_name(inner) == "enumerate" and inner.args:
                return T(inner.args[0], True)
            if call_name(inner) == "zip" and len(inner.args) == 2:
                return T(inner.args[1], True)
        if isinstance(e.func, ast.Attribute) and ln in ("values", "copy") and not e.args:
            return T(e.func.value)
        if isinstance(e.func, ast.Attribute) and ln in ("pop", "get", "popitem") and not elem:
            return T(e.func.value, True)
        # product function: follow its return values
        fns = [(g, s, b) for g, s, b in targets if not (g.name == "__init__" and g.cls is not None)]
        ctors = [g for g, s, b in targets if g.name == "__init__" and g.cls is not None]
        if ctors and not fns:
            return [Origin("BAD", "an instance of %s is not a numpy Generator" % ctors[0].cls.name, chain)]
        if fns and not self._is_weak(e, fi):
            out = []
            for g, s, b in fns:
                step = chain + ("value returned by %s" % g.qualname,)
                rets = [n for n in w.own(g) if isinstance(n, ast.Return) and n.value is not None]
                if not rets:
                    out += self._unknown("%s returns nothing" % g.qualname, step)
                for r in rets:
                    out += self.trace(r.value, g, elem, step, seen, weak)
            return out
        return self._unknown("value of the call %s" % u(e)[:60], chain)


# ---- draw sites ------------------------------------------------------------------------------------

def draw_sites(world):
    """[(scope, call, generator expression or None, method)] for every random draw in product code."""
    out = []
    for fi in world.scopes():
        for n in world.own(fi):
            if not (isinstance(n, ast.Call) and isinstance(n.func, ast.Attribute)):
                continue
            m = n.func.attr
            if m == "rvs":
                out.append((fi, n, kwarg(n, "random_state"), m))
            elif m in CORE_DRAWS:
                q = world.qualify(n.func, fi.module)
                if q is not None and not (q.startswith("numpy.random") or q.startswith("random.")):
                    continue  # a function of some other imported module that happens to share the name
                out.append((fi, n, n.func.value, m))
            elif m in MORE_DRAWS:
                # secondary method names (normal, uniform, permutation, …): a candidate; rule_R1 keeps it
                # only if the receiver's provenance walk reaches a generator (good or bad)
                q = world.qualify(n.func, fi.module)
                if q is not None and not (q.startswith("numpy.random") or q.startswith("random.")):
                    continue
                if any(m in c.methods for c in world.prog.classes.values()):
                    continue
                out.append((fi, n, n.func.value, "?" + m))
    out.sort(key=lambda t: (t[0].module.path, t[1].lineno, t[1].col_offset))
    return out


def rule_R1(ctx, world, tracer, reach):
    prog = ctx.prog
    ctx.rule("R1", "every random draw uses a generator that data-flows from run.instantiate_and_seed_RNG(seed) or an element of <it>.spawn(n)", 26)
    sites = draw_sites(world)
    listing = []
    n_sites = 0
    for fi, call, gen, m in sites:
        inst = "%s: %s" % (fi.qualname, u(call)[:90])
        if gen is None:
            n_sites += 1
            ctx.fail("R1", inst, fi.where(call), "scipy .rvs(...) without random_state= draws from numpy's process-global generator, which the run's seed does not control", construct=fi.qualname, stmt=u(call))
            continue
        origins = tracer.trace(gen, fi)
        if m.startswith("?") and not any(o.kind in GOOD or (o.kind == "BAD" and o.gen) for o in origins):
            continue  # receiver is not a random generator
        n_sites += 1
        bad = [o for o in origins if o.kind == "BAD"]
        unk = [o for o in origins if o.kind == "UNKNOWN"]
        opn = [o for o in origins if o.kind == "OPEN"]
        good = [o for o in origins if o.kind in GOOD]
        rec = {"site": inst, "where": fi.where(call), "generator": u(gen), "origins": sorted({"%s: %s" % (o.kind, o.detail) for o in origins}),
               "chain": list((good or origins or [Origin("?", "", ())])[0].chain)}
        listing.append(rec)
        ctx.sample(rec)
        if bad:
            o = bad[0]
            ctx.fail("R1", inst, fi.where(call), "generator %s does not descend from the seeded generator: %s  (via %s)" % (u(gen), o.detail, " <- ".join(o.chain[-4:])), construct=fi.qualname, stmt=u(call))
            continue
        if unk:
            o = unk[0]
            raise AnalysisError("R1: cannot decide the provenance of %s at %s: %s (walk: %s)" % (u(gen), fi.where(call), o.detail, " <- ".join(o.chain)))
        if opn and not good:
            if fi.qualname in reach:
                raise AnalysisError("R1: %s at %s is reachable from run.run but its generator parameter has no product call site" % (u(call), fi.where(call)))
            ctx.ok("R1", inst, fi.where(call), "not reachable from run.run; generator supplied by an external caller (%s)" % opn[0].detail)
            continue
        if not good:
            raise AnalysisError("R1: provenance walk for %s at %s found no origin" % (u(gen), fi.where(call)))
        ctx.ok("R1", inst, fi.where(call), "origins: %s" % ", ".join(sorted({o.kind for o in good})))
        ctx.analysed(fi)
    ctx.extra["R1_sites"] = listing
    ctx.extra["R1_draw_sites"] = n_sites
    if n_sites < 26:
        raise AnalysisError("R1 found %d random draw sites, fewer than the 26 confirmed by hand" % n_sites)
    if tracer.dropped:
        ctx.extra["R1_name_matched_call_sites_ignored"] = sorted(set(tracer.dropped))
    # the seeding function itself, and what is handed to it
    sf = prog.fn(SEED_FN)
    if len(sf.params) != 1:
        raise AnalysisError("instantiate_and_seed_RNG no longer takes exactly one parameter")
    p = sf.params[0]
    made = [n for n in world.own(sf) if isinstance(n, ast.Call) and (world.qualify(n.func, sf.module) or "").startswith("numpy.random.")]
    if not made:
        raise AnalysisError("instantiate_and_seed_RNG constructs no numpy generator")
    seeded = 0
    for c in made:
        inst = "instantiate_and_seed_RNG: %s" % u(c)
        args = list(c.args) + [k.value for k in c.keywords]
        if args:
            names = {x.id for a in args for x in ast.walk(a) if isinstance(x, ast.Name)}
            calls_in = [x for a in args for x in ast.walk(a) if isinstance(x, ast.Call)]
            ok = names == {p} and not calls_in and not _rebinds(world, sf, p)
            seeded += ok
            ctx.check(ok, "R1", inst, sf.where(c), "the generator is not seeded with the function's seed parameter alone", construct=sf.qualname, stmt=u(c))
        else:
            ok = False
            for a in world.ancestors(sf, c):
                if isinstance(a, ast.If):
                    t = u(a.test)
                    in_body = any(c is x for s in a.body for x in ast.walk(s))
                    if (t == "%s is None" % p and in_body) or (t in ("%s is not None" % p, "%s != None" % p) and not in_body):
                        ok = True
                elif isinstance(a, ast.IfExp):
                    t = u(a.test)
                    in_body = any(c is x for x in ast.walk(a.body))
                    in_else = any(c is x for x in ast.walk(a.orelse))
                    if (t in ("%s is None" % p, "%s == None" % p) and in_body) or (t in ("%s is not None" % p, "%s != None" % p) and in_else):
                        ok = True
            ctx.check(ok, "R1", inst, sf.where(c), "an unseeded generator is created on a path where a seed was given", construct=sf.qualname, stmt=u(c))
    rets = [n for n in world.own(sf) if isinstance(n, ast.Return)]
    okret = bool(rets)
    for r in rets:
        if r.value is None:
            okret = False
            continue
        os_ = tracer.trace(r.value, sf)
        okret = okret and bool(os_) and all(o.kind == "BAD" and "default_rng" in o.detail for o in os_)
    ctx.check(seeded >= 1 and okret, "R1", "instantiate_and_seed_RNG returns the generator built from the seed", sf.where(), "no default_rng(seed) result is returned", construct=sf.qualname, stmt="return")
    # seed expressions at the call sites
    for caller, call, shift, bound in world.callsites().get(sf.qualname, []):
        kind, ex = world.arg_for(call, sf, p, shift, bound)
        inst = "%s: %s" % (caller.qualname, u(call))
        if kind != "arg":
            ctx.fail("R1", inst, caller.where(call), "the seed is not passed to instantiate_and_seed_RNG", construct=caller.qualname, stmt=u(call))
            continue
        taint = seed_taint(world, tracer, ex, caller)
        ctx.check(not taint, "R1", inst, caller.where(call), "the seed expression depends on %s" % ", ".join(taint), construct=caller.qualname, stmt=u(call))
    ctx.analysed(sf)


def _rebinds(world, fi, name):
    return any(isinstance(n, ast.Name) and n.id == name and isinstance(n.ctx, (ast.Store, ast.Del)) for n in world.own(fi))


NONDET_MODULES = ("time", "datetime", "os", "random", "secrets", "uuid", "numpy.random", "socket", "threading", "multiprocessing")


def seed_taint(world, tracer, expr, fi, depth=0, seen=None):
    """Names of non-reproducible sources an expression depends on (through local definitions)."""
    seen = set() if seen is None else seen
    out = []
    for n in ast.walk(expr):
        if isinstance(n, ast.Call):
            q = world.qualify(n.func, fi.module)
            if q is not None and any(q == m or q.startswith(m + ".") for m in NONDET_MODULES):
                out.append(q + "()")
            if isinstance(n.func, ast.Name) and n.func.id in ("id", "hash", "object") and not tracer.bindings(n.func.id, fi, n):
                out.append(n.func.id + "()")
        elif isinstance(n, ast.Attribute) and n.attr == "elapsed":
            out.append("the timer")
        elif isinstance(n, ast.Name) and isinstance(n.ctx, ast.Load) and (fi.qualname, n.id) not in seen and depth < 6:
            seen.add((fi.qualname, n.id))
            for b, sc in tracer.bindings(n.id, fi, n):
                if b[0] == "value":
                    out += seed_taint(world, tracer, b[1], sc, depth + 1, seen)
                elif b[0] in ("iter",):
                    out += seed_taint(world, tracer, b[2], sc, depth + 1, seen)
                elif b[0] == "unpack":
                    out += seed_taint(world, tracer, b[1], sc, depth + 1, seen)
    return sorted(set(out))


# ---- R1f: forbidden entropy sources + positive fixture ---------------------------------------------

def scan_forbidden(tree, module, allowed_node_ids=()):
    """[(node, kind, text)] of forbidden entropy sources in one module's AST."""
    imports = module.imports
    hits = []

    def qual(e):
        d = dotted(e)
        if d is None or "()" in d:
            return None
        head, _, rest = d.partition(".")
        tgt = imports.get(head)
        if tgt is None:
            return None
        return tgt + ("." + rest if rest else "")

    def visit(n, parent):
        if isinstance(n, (ast.Import, ast.ImportFrom)):
            return
        if isinstance(n, (ast.Attribute, ast.Name)) and not (isinstance(parent, ast.Attribute) and parent.value is n):
            if isinstance(getattr(n, "ctx", None), ast.Load):
                q = qual(n)
                if q is not None:
                    is_call = isinstance(parent, ast.Call) and parent.func is n
                    kind = None
                    if q == "numpy.random":
                        kind = "numpy-legacy"
                    elif q.startswith("numpy.random."):
                        leaf = q.split(".")[2]
                        if leaf == "default_rng" or (leaf in NP_RANDOM_TYPES and is_call):
                            kind = "fresh-generator"
                        elif leaf not in NP_RANDOM_TYPES:
                            kind = "numpy-legacy"
                    elif q == "random" or q.startswith("random."):
                        kind = "stdlib-random"
                    elif q == "secrets" or q.startswith("secrets."):
                        kind = "secrets"
                    elif q == "uuid" or q.startswith("uuid."):
                        kind = "uuid"
                    elif q in ("os.urandom", "os.getrandom"):
                        kind = "os-urandom"
                    if kind and id(n) not in allowed_node_ids:
                        hits.append((n, kind, u(parent if is_call else n)[:80]))
                if q is not None:
                    return  # do not descend into the pieces of a resolved dotted name
        if isinstance(n, ast.Call) and isinstance(n.func, ast.Attribute) and n.func.attr == "rvs" and kwarg(n, "random_state") is None and not any(k.arg is None for k in n.keywords):
            hits.append((n, "rvs-unseeded", u(n)[:80]))
        if isinstance(n, ast.Call) and (last_name(n) in ("default_rng", "seed", "SeedSequence", "RandomState", "instantiate_and_seed_RNG")):
            for a in list(n.args) + [k.value for k in n.keywords]:
                for x in ast.walk(a):
                    if isinstance(x, ast.Call):
                        qx = qual(x.func)
                        if qx and any(qx == m or qx.startswith(m + ".") for m in ("time", "datetime", "os")):
                            hits.append((n, "clock-seed", u(n)[:80]))
        for c in ast.iter_child_nodes(n):
            visit(c, n)

    visit(tree, None)
    return hits


FIXTURE = '''
import os, random, secrets, time, uuid
import numpy as np
from numpy.random import default_rng
from random import shuffle as shf
from scipy.stats import beta

def f(xs, n):
    np.random.shuffle(xs)                       # numpy-legacy
    np.random.seed(3)                           # numpy-legacy
    g = np.random.default_rng()                 # fresh-generator
    h = default_rng(int(time.time()))           # fresh-generator + clock-seed
    r = np.random.RandomState(os.getpid())      # fresh-generator + clock-seed
    shf(xs)                                     # stdlib-random
    a = random.random()                         # stdlib-random
    t = secrets.token_bytes(4)                  # secrets
    k = uuid.uuid4()                            # uuid
    b = os.urandom(8)                           # os-urandom
    e = beta.rvs(a=1, b=n)                      # rvs-unseeded
    ok = beta.rvs(a=1, b=n, random_state=g)     # allowed
    ann: np.random.Generator = g                # allowed (type reference)
    return a, t, k, b, e, ok, h, r
'''
FIXTURE_EXPECT = {"numpy-legacy": 2, "fresh-generator": 3, "clock-seed": 2, "stdlib-random": 2, "secrets": 1, "uuid": 1, "os-urandom": 1, "rvs-unseeded": 1}


def rule_R1f(ctx, world):
    from ..model import Module

    prog = ctx.prog
    ctx.rule("R1f", "no entropy source outside instantiate_and_seed_RNG (numpy legacy/global, default_rng, stdlib random, secrets, uuid, os.urandom, unseeded .rvs, clock/pid seeds); detector proven live on an embedded fixture", len(FIXTURE_EXPECT) + 10)
    fx = Module("c18_fixture", "<c18-fixture>", FIXTURE)
    got = {}
    for n, kind, text in scan_forbidden(fx.tree, fx):
        got[kind] = got.get(kind, 0) + 1
    for kind, want in sorted(FIXTURE_EXPECT.items()):
        if got.get(kind, 0) != want:
            raise AnalysisError("R1f positive fixture: detector found %d '%s' sites, expected %d — the detector is broken" % (got.get(kind, 0), kind, want))
        ctx.ok("R1f", "fixture: %d x %s flagged" % (want, kind), "<embedded fixture>", "detector live")
    if sum(got.values()) != sum(FIXTURE_EXPECT.values()):
        raise AnalysisError("R1f positive fixture: unexpected extra hits %r" % got)
    sf = prog.fn(SEED_FN)
    allowed = set()
    for n in ast.walk(sf.node):
        if isinstance(n, ast.Call) and (world.qualify(n.func, sf.module) or "") == "numpy.random.default_rng":
            allowed.add(id(n.func))
    for m in prog.modules.values():
        hits = scan_forbidden(m.tree, m, allowed)
        ms = world.modfn[m.name]
        if not hits:
            ctx.ok("R1f", "module %s" % m.name, ms.where(), "no forbidden entropy source")
        for n, kind, text in hits:
            owner = _enclosing_fn(prog, m, n)
            ctx.fail("R1f", "%s: %s" % (owner, text), ms.where(n), "forbidden entropy source (%s): the value is not a function of the run's seed" % kind, construct=owner, stmt=text)


def _enclosing_fn(prog, module, node):
    best = None
    for fi in prog.functions.values():
        if fi.module is module and fi.node.lineno <= node.lineno <= (fi.node.end_lineno or fi.node.lineno):
            if best is None or fi.node.lineno >= best.node.lineno:
                best = fi
    return best.qualname if best else module.name + ".<module>"



# =====================================================================================================
# R2 — chain isolation in run.run
# =====================================================================================================

def expand(tracer, expr, fi, depth=0):
    """Text of `expr` with every local that has exactly one plain assignment replaced by its value."""
    if depth > 6:
        return u(expr)

    class Sub(ast.NodeTransformer):
        def visit_Name(self, n):
            if isinstance(n.ctx, ast.Load):
                bs = tracer.bindings(n.id, fi, None)
                if len(bs) == 1 and bs[0][0][0] == "value" and bs[0][1] is fi:
                    return ast.parse("(" + expand(tracer, bs[0][0][1], fi, depth + 1) + ")", mode="eval").body
            return n

    import copy

    return u(Sub().visit(copy.deepcopy(expr)))


def carried_key(world, tracer, chain_fn):
    """(key constant, parameter of the chain function) such that the chain's result dict carries
    result[key] = that parameter."""
    found = []
    reach = world.reachable(chain_fn)
    for fi in reach.values():
        for n in world.own(fi):
            if isinstance(n, ast.Dict):
                for k, v in zip(n.keys, n.values):
                    if isinstance(k, ast.Constant) and isinstance(k.value, str) and "chain" in k.value:
                        found.append((fi, n, k.value, v))
    out = []
    for fi, d, key, v in found:
        ps = _param_of(world, tracer, v, fi, chain_fn, set())
        out.append((fi, d, key, v, ps))
    return out


def _param_of(world, tracer, expr, fi, target, seen):
    """Parameters of `target` that `expr` is a plain copy of (None in the set = something else)."""
    if not isinstance(expr, ast.Name):
        return {None}
    if (fi.qualname, expr.id) in seen:
        return set()
    seen.add((fi.qualname, expr.id))
    res = set()
    for b, sc in tracer.bindings(expr.id, fi, expr):
        if b[0] == "value":
            res |= _param_of(world, tracer, b[1], sc, target, seen)
        elif b[0] == "param":
            if sc is target:
                res.add(expr.id)
            else:
                sites = world.callsites().get(sc.qualname, [])
                if not sites:
                    res.add(None)
                for caller, call, shift, bound in sites:
                    kind, ex = world.arg_for(call, sc, expr.id, shift, bound)
                    res |= _param_of(world, tracer, ex, caller, target, seen) if kind == "arg" else {None}
        else:
            res.add(None)
    return res


def rule_R2(ctx, world, tracer):
    prog = ctx.prog
    ctx.rule("R2", "chain isolation: chain k runs on the k-th child of rng_main.spawn, results are stored under the chain number carried in the result, data are loaded once in the parent, the single-chain path uses rng_main", 4)
    entry = prog.fn(ENTRY)
    chain = prog.fn(CHAIN_FN)
    sites = [(call, shift, bound) for caller, call, shift, bound in world.callsites().get(chain.qualname, []) if caller is entry]
    others = [caller.qualname for caller, call, shift, bound in world.callsites().get(chain.qualname, []) if caller is not entry]
    if not sites:
        raise AnalysisError("run.run no longer invokes run_phyclone_chain")
    if others:
        raise AnalysisError("run_phyclone_chain is also invoked from %s; R2 only understands run.run" % others)
    # one worker process per chain: the memoisation caches are module state of the worker, and which entry a cache
    # serves depends on what ran in that process before; a pool smaller than the number of chains makes a chain's
    # trace depend on how chains were packed onto workers
    pools = [c for c in calls(entry.node) if call_name(c).split(".")[-1] == "ProcessPoolExecutor"]
    spawns = [c for c in calls(entry.node) if isinstance(c.func, ast.Attribute) and c.func.attr == "spawn" and c.args]
    if len(pools) != 1 or len(spawns) != 1:
        raise AnalysisError("run.run: expected one ProcessPoolExecutor(...) and one <rng>.spawn(n), found %d / %d" % (len(pools), len(spawns)))
    mw = kwarg(pools[0], "max_workers") if kwarg(pools[0], "max_workers") is not None else (pools[0].args[0] if pools[0].args else None)
    ok = mw is not None and u(mw) == u(spawns[0].args[0])
    ctx.check(ok, "R2", "the pool has one worker process per chain (max_workers is the number of spawned generators)", entry.where(pools[0]), "the pool is created with max_workers=%s while %s chains are started: chains share a worker process and its memoisation caches, so a chain's trace depends on which chains ran before it in that process" % (u(mw) if mw is not None else "<default: number of CPUs>", u(spawns[0].args[0])), construct=entry.qualname, stmt="ProcessPoolExecutor(max_workers=...)")
    # which parameter is the chain number: the one the result carries
    ck = [(fi, d, key, v, ps) for fi, d, key, v, ps in carried_key(world, tracer, chain)]
    if len(ck) != 1:
        raise AnalysisError("expected exactly one result mapping with a chain-number key under run_phyclone_chain, found %d" % len(ck))
    kfi, kd, key, kv, kps = ck[0]
    ok = len(kps) == 1 and None not in kps
    ctx.check(ok, "R2", "the chain's result carries its own chain number under %r" % key, kfi.where(kd), "result[%r] is %s, not the chain number handed to run_phyclone_chain" % (key, u(kv)), construct=kfi.qualname, stmt="%r: %s" % (key, u(kv)))
    rets = [n for n in world.own(chain) if isinstance(n, ast.Return) and n.value is not None]
    if not ok:
        return
    cn_param = next(iter(kps))
    # which parameter(s) carry a generator
    def gen_params(call, shift, bound):
        out = {}
        for pname in chain.params:
            kind, ex = world.arg_for(call, chain, pname, shift, bound)
            if kind == "arg" and not isinstance(ex, ast.Constant):
                os_ = tracer.trace(ex, entry)
                if any(o.kind in GOOD or (o.kind == "BAD" and o.gen) for o in os_):
                    out[pname] = (ex, os_)
        return out
    # data: loaded once, in the parent, same object to every chain
    ld = prog.fn("data.pyclone.load_data")
    ld_sites = world.callsites().get(ld.qualname, [])
    ok = len(ld_sites) == 1 and ld_sites[0][0] is entry
    loops = (ast.For, ast.While, ast.ListComp, ast.SetComp, ast.DictComp, ast.GeneratorExp, ast.AsyncFor)
    if ok:
        ok = not any(isinstance(a, loops) for a in world.ancestors(entry, ld_sites[0][1]))
    ctx.check(ok, "R2", "input data are loaded exactly once, by run.run, outside any loop", entry.where(ld_sites[0][1]) if ld_sites else entry.where(), "load_data is called %d times (%s): chains would not share one data set drawn with the parent generator" % (len(ld_sites), ", ".join(sorted({c[0].qualname for c in ld_sites}))), construct=entry.qualname, stmt="load_data(...)")
    ld_call = ld_sites[0][1] if ld_sites else None
    for call, shift, bound in sites:
        multi = shift == 1
        label = "submitted chain" if multi else "in-process chain"
        gp = gen_params(call, shift, bound)
        if len(gp) != 1:
            raise AnalysisError("R2: expected exactly one generator argument at %s, found %s" % (entry.where(call), sorted(gp)))
        rng_param, (rng_arg, origins) = next(iter(gp.items()))
        kinds = {o.kind for o in origins}
        if any(k == "UNKNOWN" for k in kinds):
            raise AnalysisError("R2: provenance of %s at %s undecided" % (u(rng_arg), entry.where(call)))
        if multi:
            ctx.check(kinds == {"SPAWN"}, "R2", "%s: generator is a child of rng_main.spawn(...)" % label, entry.where(call), "a worker chain runs on %s (%s) instead of its own spawned child stream" % (u(rng_arg), ", ".join(sorted("%s %s" % (o.kind, o.detail) for o in origins))[:200]), construct=entry.qualname, stmt="submit: rng=%s" % u(rng_arg))
        else:
            # one chain only: a loop around the in-process call runs several chains on the one seeded generator, each
            # continuing where the previous one stopped (chain k then depends on chains 0..k-1 and on the machine-
            # dependent choice between this path and the pool)
            in_loop = [a for a in world.ancestors(entry, call) if isinstance(a, loops)]
            ctx.check(not in_loop, "R2", "%s: runs once (not in a loop over chains sharing rng_main)" % label, entry.where(call), "the in-process call of %s sits in a loop: every chain of that loop draws from the same generator rng_main instead of its own spawned child" % chain.name, construct=entry.qualname, stmt="direct: one chain")
            ctx.check(kinds == {"SEED"}, "R2", "%s: generator is rng_main" % label, entry.where(call), "the single-chain path runs on %s (%s), not on the seeded main generator" % (u(rng_arg), ", ".join(sorted("%s %s" % (o.kind, o.detail) for o in origins))[:200]), construct=entry.qualname, stmt="direct: rng=%s" % u(rng_arg))
        kind, cn_arg = world.arg_for(call, chain, cn_param, shift, bound)
        if kind != "arg":
            raise AnalysisError("R2: chain number not passed at %s" % entry.where(call))
        # data argument
        dps = []
        for pname in chain.params:
            k2, ex = world.arg_for(call, chain, pname, shift, bound)
            if k2 == "arg" and isinstance(ex, ast.Name):
                bs = tracer.bindings(ex.id, entry, ex)
                if len(bs) == 1 and bs[0][0][0] == "unpack" and bs[0][0][1] is ld_call:
                    dps.append((pname, bs[0][0][2]))
        ctx.check(sorted(i for _, i in dps) == [0, 1] or sorted(i for _, i in dps) == [0], "R2", "%s: receives the data loaded by the parent" % label, entry.where(call), "the chain does not receive the (data, samples) pair returned by the single load_data call", construct=entry.qualname, stmt="%s: data" % label)
        if multi:
            _pairing(ctx, world, tracer, entry, call, rng_arg, cn_arg, label)
        else:
            # result stored under the number handed to the chain
            par = world.parent(entry, call)
            tk = None
            if isinstance(par, ast.Assign) and len(par.targets) == 1 and isinstance(par.targets[0], ast.Subscript):
                tk = par.targets[0].slice
            if tk is None:
                raise AnalysisError("R2: the in-process chain's result is not stored by a subscript assignment at %s" % entry.where(call))
            ctx.check(expand(tracer, tk, entry) == expand(tracer, cn_arg, entry), "R2", "%s: result stored under the chain number it was given" % label, entry.where(call), "result stored under %s but the chain was numbered %s" % (u(tk), u(cn_arg)), construct=entry.qualname, stmt="direct: results[%s]" % u(tk))
    # keyed storage of worker results
    n_st = 0
    for n in world.own(entry):
        if isinstance(n, ast.Assign) and len(n.targets) == 1 and isinstance(n.targets[0], ast.Subscript):
            v = expand(tracer, n.value, entry)
            if ".result()" not in v:
                continue
            n_st += 1
            k = expand(tracer, n.targets[0].slice, entry)
            want = "%s[%r]" % (v, key)
            ctx.check(k.replace("(", "").replace(")", "") == want.replace("(", "").replace(")", ""), "R2", "worker results are stored under result[%r]" % key, entry.where(n), "a worker's result is stored under %s, which depends on completion order or position, not on the chain number carried in the result" % u(n.targets[0].slice), construct=entry.qualname, stmt="results[...] = future.result()")
    if any(shift == 1 for _, shift, _ in sites) and n_st == 0:
        raise AnalysisError("R2: no `mapping[key] = future.result()` store found in run.run")
    ctx.note("R2: numpy's Generator.spawn derives children from the seed sequence, not from the stream position, so drawing from rng_main in load_data before or after spawn() does not change the children; the order is recorded, not enforced")
    ctx.analysed(entry, chain, kfi)


def _pairing(ctx, world, tracer, entry, call, rng_arg, cn_arg, label):
    """chain number k <-> k-th spawned child."""
    why = None
    ok = False
    inst = "%s: chain number and generator are paired by position in the spawn list" % label

    def is_range0(e):
        return isinstance(e, ast.Call) and call_name(e) == "range" and (len(e.args) == 1 or (len(e.args) == 2 and isinstance(e.args[0], ast.Constant) and e.args[0].value == 0))

    def positional_dict(e):
        """e evaluates to {index: element} of some sequence."""
        if isinstance(e, ast.Name):
            bs = tracer.bindings(e.id, entry, e)
            return len(bs) == 1 and bs[0][0][0] == "value" and positional_dict(bs[0][0][1])
        if isinstance(e, ast.Call) and call_name(e) == "dict" and len(e.args) == 1 and isinstance(e.args[0], ast.Call):
            inner = e.args[0]
            return (call_name(inner) == "enumerate" and len(inner.args) == 1 and not inner.keywords) or (call_name(inner) == "zip" and len(inner.args) == 2 and is_range0(inner.args[0]))
        if isinstance(e, ast.DictComp) and len(e.generators) == 1 and not e.generators[0].ifs:
            g = e.generators[0]
            if isinstance(g.target, ast.Tuple) and len(g.target.elts) == 2 and isinstance(g.iter, ast.Call) and call_name(g.iter) == "enumerate" and len(g.iter.args) == 1 and not g.iter.keywords:
                return u(e.key) == u(g.target.elts[0]) and u(e.value) == u(g.target.elts[1])
        return False

    if isinstance(rng_arg, ast.Subscript) and isinstance(cn_arg, ast.Name) and u(rng_arg.slice) == cn_arg.id:
        bs = tracer.bindings(cn_arg.id, entry, cn_arg)
        ok = len(bs) == 1 and bs[0][0][0] == "iter" and isinstance(bs[0][0][1], ast.Name) and is_range0(bs[0][0][2])
        why = "the generator is indexed by %s, which does not range over range(n)" % cn_arg.id
    elif isinstance(rng_arg, ast.Name) and isinstance(cn_arg, ast.Name):
        b1 = tracer.bindings(rng_arg.id, entry, rng_arg)
        b2 = tracer.bindings(cn_arg.id, entry, cn_arg)
        if len(b1) == 1 and len(b2) == 1 and b1[0][0][0] == "iter" and b2[0][0][0] == "iter" and b1[0][0][2] is b2[0][0][2]:
            tgt, it = b1[0][0][1], b1[0][0][2]
            names = [x.id if isinstance(x, ast.Name) else None for x in tgt.elts] if isinstance(tgt, ast.Tuple) else []
            txt = u(it)
            if isinstance(it, ast.Call) and call_name(it) == "enumerate" and len(names) == 2:
                start = it.args[1] if len(it.args) > 1 else kwarg(it, "start")
                ok = names == [cn_arg.id, rng_arg.id] and (start is None or (isinstance(start, ast.Constant) and start.value == 0)) and not _reorders(it.args[0])
                why = "enumerate(%s) does not pair chain k with the k-th child" % u(it.args[0]) if it.args else "enumerate()"
            elif isinstance(it, ast.Call) and call_name(it) == "zip" and len(it.args) == 2 and len(names) == 2:
                ci, ri = names.index(cn_arg.id), names.index(rng_arg.id)
                ok = is_range0(it.args[ci]) and not _reorders(it.args[ri])
                why = "zip(%s) does not pair chain k with the k-th child" % ", ".join(u(a) for a in it.args)
            elif isinstance(it, ast.Call) and last_name(it) == "items" and isinstance(it.func, ast.Attribute) and len(names) == 2:
                ok = names == [cn_arg.id, rng_arg.id] and positional_dict(it.func.value)
                why = "%s is not a {position: child} mapping of the spawn list" % u(it.func.value)
            else:
                raise AnalysisError("R2: unrecognised pairing of chain number and generator: for %s in %s" % (u(tgt), txt[:80]))
        else:
            ok = False
            why = "chain number %s and generator %s are not bound by one loop over one sequence" % (u(cn_arg), u(rng_arg))
    else:
        raise AnalysisError("R2: unrecognised chain-number / generator arguments %s, %s" % (u(cn_arg), u(rng_arg)))
    ctx.check(ok, "R2", inst, entry.where(call), why or "", construct=entry.qualname, stmt="submit: (chain_num, rng) pairing")


def _reorders(e):
    return any(isinstance(x, ast.Call) and call_name(x) in ("reversed", "sorted", "set", "frozenset", "as_completed") for x in ast.walk(e)) or any(isinstance(x, ast.Slice) and x.step is not None for x in ast.walk(e))


# =====================================================================================================
# R3 — no hash-order dependence
# =====================================================================================================
# Hand-confirmed role table (DESIGN 2.2): what iterating these yields.  Node identifiers are ints
# (create_root_node numbers nodes, relabel_nodes uses a counter; the str 'root' is the dummy root and
# is never among roots / children / nodes); data-point indices are enumeration indices; DataPoint
# hashes by its name (a str, so its hash is randomised per process).
ATTR_ELEMS = {"tree_roots": "int", "roots": "int", "nodes": "int", "tree_nodes": "int", "outliers": "obj", "data": "obj", "particles": "obj"}
CALL_ELEMS = {"get_children": "int", "get_descendants": "int", "get_data": "obj", "range": "int", "node_indices": "int", "successors": "obj", "predecessors": "obj"}
ATTR_KIND = {"idx": "int", "node_id": "int", "name": "str", "node_last_added_to": "int"}
CALL_KIND = {"int": "int", "len": "int", "sum": "int", "str": "str", "repr": "str", "format": "str", "xxh3_64_hexdigest": "str", "hexdigest": "str", "num_nodes": "int", "add_node": "int"}
SAME_ELEMS = {"list", "tuple", "sorted", "reversed", "set", "frozenset", "asarray", "array", "copy", "tolist", "choice", "unique", "iter"}
SET_RETURNING_EXTERNALS = {"rustworkx.descendants": "int", "rustworkx.ancestors": "int"}
SET_METHODS_SAME = {"copy", "union", "intersection", "difference", "symmetric_difference"}
DET = {"int", "fsint"}

FREE_FUNCS = {"len", "set", "frozenset", "hash", "isinstance", "bool", "any", "all", "type", "print", "id"}
SORTLIKE = {"sorted", "min", "max", "sum"}
FREE_METHODS = {"add", "update", "discard", "remove", "union", "intersection", "difference", "symmetric_difference", "issubset", "issuperset", "isdisjoint", "isin", "intersection_update", "difference_update", "symmetric_difference_update", "get", "setdefault", "append", "copy", "clear", "__contains__", "count", "index", "cache_clear"}


class SetFacts:
    def __init__(self, world, tracer):
        self.w, self.t, self.prog = world, tracer, world.prog
        self.var = {}      # (scope qualname, name) -> set(site)
        self.attr = {}     # attr -> {site}
        self.attr_owner = {}  # attr -> set of class qualnames that store a set in self.attr
        self.dos_var, self.dos_attr = {}, {}   # containers (dict / defaultdict) of sets
        self.ret = {}      # fn qualname -> {site}
        self.ek = {}       # site -> set(kinds)
        self.info = {}     # site -> (scope, node)
        self.changed = False
        self._bound = {}
        self._busy = set()
        self.kinds_on = False

    # ---- helpers --------------------------------------------------------------------------------
    def builtin(self, name, fi):
        m = fi.module
        if m.name not in self._bound:
            b = set(m.imports)
            for n in ast.walk(m.tree):
                if isinstance(n, ast.Name) and isinstance(n.ctx, ast.Store):
                    b.add(n.id)
                elif isinstance(n, ast.arg):
                    b.add(n.arg)
                elif isinstance(n, (ast.FunctionDef, ast.ClassDef)):
                    b.add(n.name)
            self._bound[m.name] = b
        return name not in self._bound[m.name]

    def site(self, fi, node, kinds=()):
        sid = "%s: %s @%s" % (fi.qualname, u(node)[:60], fi.where(node))
        if sid not in self.info:
            self.info[sid] = (fi, node)
            self.ek[sid] = set()
            self.changed = True
        self.add_ek({sid}, kinds)
        return sid

    def add_ek(self, sites, kinds):
        if not self.kinds_on:
            return
        for s in sites:
            k = set(kinds) - self.ek[s]
            if k:
                self.ek[s] |= k
                self.changed = True

    def _add(self, table, key, sites):
        if not sites:
            return
        cur = table.setdefault(key, set())
        new = set(sites) - cur
        if new:
            cur |= new
            self.changed = True

    def family(self, cls):
        return {c.qualname for c in self.prog.mro(cls)} | {c.qualname for c in self.prog.subclasses(cls)}

    def attr_sites(self, e, fi, table=None):
        table = self.attr if table is None else table
        got = table.get(e.attr)
        if not got:
            return set()
        cls = self.w.owner_class(fi)
        if isinstance(e.value, ast.Name) and e.value.id == "self" and cls is not None:
            owners = self.attr_owner.get(e.attr, set()) - {"*"}
            if owners and not (owners & self.family(cls)):
                return set()
        return set(got)

    # ---- is this expression a set?  -> set of sites (empty = not a set) ----------------------------
    def sets(self, e, fi):
        w = self.w
        if isinstance(e, ast.Name):
            return set(self.var.get((fi.qualname, e.id), ())) if isinstance(e.ctx, ast.Load) else set()
        if isinstance(e, ast.Attribute):
            return self.attr_sites(e, fi)
        if isinstance(e, ast.Subscript):
            b = e.value
            if isinstance(b, ast.Name):
                return set(self.dos_var.get((fi.qualname, b.id), ()))
            if isinstance(b, ast.Attribute):
                return self.attr_sites(b, fi, self.dos_attr)
            return set()
        if isinstance(e, ast.Set):
            ks = set()
            for x in e.elts:
                ks |= self.kind_of(x, fi)
            return {self.site(fi, e, ks)}
        if isinstance(e, ast.SetComp):
            return {self.site(fi, e, self.kind_of(e.elt, fi))}
        if isinstance(e, ast.IfExp):
            return self.sets(e.body, fi) | self.sets(e.orelse, fi)
        if isinstance(e, ast.BinOp) and isinstance(e.op, (ast.BitOr, ast.BitAnd, ast.Sub, ast.BitXor)):
            l, r = self.sets(e.left, fi), self.sets(e.right, fi)
            keyish = [x for x in (e.left, e.right) if isinstance(x, ast.Call) and last_name(x) in ("keys", "items")]
            if l or r or keyish:
                out = l | r
                if keyish or not (l and r):
                    out.add(self.site(fi, e, {"unknown"} if keyish else ()))
                return out
            return set()
        if isinstance(e, ast.Call):
            ln = last_name(e)
            if isinstance(e.func, ast.Name) and ln in ("set", "frozenset") and self.builtin(ln, fi):
                ks = set()
                if e.args:
                    ks = self.elem_kinds(e.args[0], fi)
                return {self.site(fi, e, ks)}
            q = w.qualify(e.func, fi.module)
            if q in SET_RETURNING_EXTERNALS:
                return {self.site(fi, e, {SET_RETURNING_EXTERNALS[q]})}
            if isinstance(e.func, ast.Attribute) and ln in SET_METHODS_SAME:
                out = self.sets(e.func.value, fi)
                if out:
                    for a in e.args:
                        out |= self.sets(a, fi)
                    return out
            out = set()
            for g, _, _ in w.resolve_call(e, fi):
                out |= self.ret.get(g.qualname, set())
            return out
        return set()

    # ---- kinds ---------------------------------------------------------------------------------------
    def elem_kinds(self, e, fi, depth=0):
        """Kinds of the elements obtained by iterating `e`."""
        key = ("e", id(e))
        if not self.kinds_on:
            return set()
        if depth > 8 or key in self._busy:
            return set() if key in self._busy else {"unknown"}
        self._busy.add(key)
        try:
            return self._elem_kinds(e, fi, depth)
        finally:
            self._busy.discard(key)

    def _elem_kinds(self, e, fi, depth):
        ss = self.sets(e, fi)
        if ss:
            out = set()
            for s in ss:
                out |= self.ek[s]
            return out
        if isinstance(e, (ast.List, ast.Tuple)):
            out = set()
            for x in e.elts:
                out |= self.kind_of(x, fi, depth + 1)
            return out
        if isinstance(e, (ast.ListComp, ast.GeneratorExp)):
            return self.kind_of(e.elt, fi, depth + 1)
        if isinstance(e, ast.Attribute):
            if e.attr in ATTR_ELEMS:
                return {ATTR_ELEMS[e.attr]}
            return {"unknown"}
        if isinstance(e, ast.Call):
            ln = last_name(e)
            if ln in CALL_ELEMS:
                return {CALL_ELEMS[ln]}
            if ln in SAME_ELEMS:
                if isinstance(e.func, ast.Attribute) and ln in ("copy", "tolist"):
                    return self.elem_kinds(e.func.value, fi, depth + 1)
                if e.args:
                    return self.elem_kinds(e.args[0], fi, depth + 1)
            if ln in ("keys", "values", "items"):
                return {"unknown"}
            return {"unknown"}
        if isinstance(e, ast.Name):
            out = set()
            bs = self.t.bindings(e.id, fi, e)
            if not bs:
                return {"unknown"}
            for b, sc in bs:
                if b[0] == "value":
                    out |= self.elem_kinds(b[1], sc, depth + 1)
                else:
                    out.add("unknown")
            # list built by append / extend
            for n in self.w.own(fi):
                if isinstance(n, ast.Call) and isinstance(n.func, ast.Attribute) and isinstance(n.func.value, ast.Name) and n.func.value.id == e.id and n.args:
                    if n.func.attr in ("append", "add"):
                        out |= self.kind_of(n.args[0], fi, depth + 1)
                    elif n.func.attr in ("extend", "update"):
                        out |= self.elem_kinds(n.args[0], fi, depth + 1)
            return out
        return {"unknown"}

    def kind_of(self, e, fi, depth=0):
        """Kind of one value used as a set element."""
        key = ("k", id(e))
        if not self.kinds_on:
            return set()
        if depth > 8 or key in self._busy:
            return set() if key in self._busy else {"unknown"}
        self._busy.add(key)
        try:
            return self._kind_of(e, fi, depth)
        finally:
            self._busy.discard(key)

    def _kind_of(self, e, fi, depth):
        if isinstance(e, ast.Constant):
            return {"int"} if isinstance(e.value, int) and not isinstance(e.value, bool) else ({"str"} if isinstance(e.value, str) else {"unknown"})
        ss = self.sets(e, fi)
        if ss:
            inner = set()
            for s in ss:
                inner |= self.ek[s]
            return {"fsint"} if inner <= {"int"} else {"fs-of-" + "/".join(sorted(inner))}
        if isinstance(e, ast.Attribute):
            return {ATTR_KIND.get(e.attr, "unknown")}
        if isinstance(e, ast.Call):
            return {CALL_KIND.get(last_name(e), "unknown")}
        if isinstance(e, ast.BinOp):
            a, b = self.kind_of(e.left, fi, depth + 1), self.kind_of(e.right, fi, depth + 1)
            return {"int"} if a == {"int"} and b == {"int"} else {"unknown"}
        if isinstance(e, ast.Name):
            out = set()
            bs = self.t.bindings(e.id, fi, e)
            if not bs:
                return {"unknown"}
            for b, sc in bs:
                if b[0] == "value":
                    out |= self.kind_of(b[1], sc, depth + 1)
                elif b[0] == "iter":
                    tgt, it = b[1], b[2]
                    if isinstance(tgt, ast.Name):
                        out |= self.elem_kinds(it, sc, depth + 1) or {"unknown"}
                    elif isinstance(tgt, ast.Tuple) and isinstance(it, ast.Call) and call_name(it) == "enumerate" and u(tgt.elts[0]) == e.id:
                        out.add("int")
                    elif isinstance(tgt, ast.Tuple) and isinstance(it, ast.Call) and call_name(it) == "enumerate" and len(tgt.elts) == 2 and u(tgt.elts[1]) == e.id and it.args:
                        out |= self.elem_kinds(it.args[0], sc, depth + 1) or {"unknown"}
                    else:
                        out.add("unknown")
                else:
                    out.add("unknown")
            return out
        return {"unknown"}

    # ---- one propagation round over a scope ----------------------------------------------------------
    def is_dos_ctor(self, v, fi):
        return isinstance(v, ast.Call) and last_name(v) == "defaultdict" and v.args and isinstance(v.args[0], ast.Name) and v.args[0].id in ("set", "frozenset")

    def store(self, tgt, val, fi):
        ss = self.sets(val, fi) if val is not None else set()
        dos = val is not None and self.is_dos_ctor(val, fi)
        cls = self.w.owner_class(fi)
        if isinstance(tgt, ast.Name):
            self._add(self.var, (fi.qualname, tgt.id), ss)
            if dos:
                self._add(self.dos_var, (fi.qualname, tgt.id), {self.site(fi, val)})
        elif isinstance(tgt, ast.Attribute):
            own = cls.qualname if (isinstance(tgt.value, ast.Name) and tgt.value.id == "self" and cls is not None) else "*"
            if ss:
                self._add(self.attr, tgt.attr, ss)
                self._add(self.attr_owner, tgt.attr, {own})
            if dos:
                self._add(self.dos_attr, tgt.attr, {self.site(fi, val)})
                self._add(self.attr_owner, tgt.attr, {own})
        elif isinstance(tgt, ast.Subscript) and ss:
            b = tgt.value
            if isinstance(b, ast.Name):
                self._add(self.dos_var, (fi.qualname, b.id), ss)
            elif isinstance(b, ast.Attribute):
                self._add(self.dos_attr, b.attr, ss)
        elif isinstance(tgt, (ast.Tuple, ast.List)) and isinstance(val, (ast.Tuple, ast.List)) and len(val.elts) == len(tgt.elts):
            for t, v in zip(tgt.elts, val.elts):
                self.store(t, v, fi)

    def round(self, fi):
        w = self.w
        for n in w.own(fi):
            if isinstance(n, ast.Assign):
                for t in n.targets:
                    self.store(t, n.value, fi)
            elif isinstance(n, ast.AnnAssign) and n.value is not None:
                self.store(n.target, n.value, fi)
            elif isinstance(n, ast.AugAssign):
                ts = self.sets(n.target, fi)
                if ts:
                    self.add_ek(ts, self.elem_kinds(n.value, fi))
            elif isinstance(n, ast.Return) and n.value is not None and not isinstance(fi, ModuleScope):
                self._add(self.ret, fi.qualname, self.sets(n.value, fi))
            elif isinstance(n, (ast.For, ast.comprehension)):
                # iterating a set of frozensets yields sets
                its = self.sets(n.iter, fi)
                if its and isinstance(n.target, ast.Name):
                    inner = set()
                    for s_ in its:
                        inner |= {k for k in self.ek[s_] if k.startswith("fs")}
                    if inner:
                        sid = self.site(fi, n.iter, {"int"} if inner == {"fsint"} else {"unknown"})
                        self._add(self.var, (fi.qualname, n.target.id), {sid})
            elif isinstance(n, ast.Call):
                if isinstance(n.func, ast.Attribute) and n.args:
                    rs = self.sets(n.func.value, fi)
                    if rs and n.func.attr == "add":
                        self.add_ek(rs, self.kind_of(n.args[0], fi))
                    elif rs and n.func.attr in ("update", "intersection_update", "difference_update", "symmetric_difference_update"):
                        for a in n.args:
                            self.add_ek(rs, self.elem_kinds(a, fi))
                # arguments that are sets flow into the callee's parameters
                argsets = [(i, self.sets(a, fi)) for i, a in enumerate(n.args) if not isinstance(a, ast.Starred)]
                kwsets = [(k.arg, self.sets(k.value, fi)) for k in n.keywords if k.arg]
                if any(s_ for _, s_ in argsets) or any(s_ for _, s_ in kwsets):
                    for g, shift, bound in w.resolve_call(n, fi):
                        if not self.t._compatible(n, g, shift, bound):
                            continue
                        a = g.node.args
                        pos = [x.arg for x in a.posonlyargs + a.args][bound:]
                        for i, s_ in argsets:
                            j = i - shift
                            if s_ and 0 <= j < len(pos):
                                self._add(self.var, (g.qualname, pos[j]), s_)
                        names = set(pos) | {x.arg for x in a.kwonlyargs}
                        for k, s_ in kwsets:
                            if s_ and k in names:
                                self._add(self.var, (g.qualname, k), s_)

    def solve(self):
        """Phase 1: which values are sets (creation sites, flow).  Phase 2: element kinds per site."""
        scopes = list(self.w.scopes())
        total = 0
        for phase in (False, True):
            self.kinds_on = phase
            for it in range(12):
                self.changed = False
                for fi in scopes:
                    self.round(fi)
                total += 1
                if not self.changed:
                    break
            else:
                raise AnalysisError("R3: set-type propagation did not converge")
        return total


def classify_use(facts, fi, e, sites):
    """-> (cls, text) with cls in FREE | ORDER | SORT | FLOW | UNCLASSIFIED for one occurrence of a set."""
    w = facts.w
    p = w.parent(fi, e)
    if isinstance(p, ast.Attribute) and p.value is e:
        pp = w.parent(fi, p)
        if isinstance(pp, ast.Call) and pp.func is p:
            m = p.attr
            if m == "pop":
                return "ORDER", "%s.pop() returns an arbitrary element" % u(e)
            if m in FREE_METHODS or m in SET_METHODS_SAME:
                return "FREE", "set method .%s()" % m
            return "UNCLASSIFIED", "method .%s() on a set" % m
        return "UNCLASSIFIED", "attribute .%s of a set" % p.attr
    if isinstance(p, (ast.For, ast.AsyncFor, ast.comprehension)) and p.iter is e:
        return "ORDER", "iteration: for %s in %s" % (u(p.target), u(e)[:50])
    if isinstance(p, ast.Compare):
        return "FREE", "membership / equality test"
    if isinstance(p, (ast.BoolOp, ast.UnaryOp, ast.Assert, ast.Expr)) or (isinstance(p, (ast.If, ast.While, ast.IfExp)) and p.test is e):
        return "FREE", "truth value"
    if isinstance(p, ast.BinOp):
        return "FREE", "set algebra"
    if isinstance(p, (ast.Assign, ast.AnnAssign, ast.Return, ast.NamedExpr, ast.Lambda, ast.IfExp, ast.Yield)):
        return "FLOW", "assigned / returned"
    if isinstance(p, ast.AugAssign):
        return "FREE", "in-place set update"
    if isinstance(p, (ast.Tuple, ast.List, ast.Dict, ast.Set)):
        return "FREE", "stored as one item of a %s" % type(p).__name__.lower()
    if isinstance(p, ast.Subscript):
        return ("FREE", "used as a key") if p.slice is e else ("FLOW", "container of sets")
    if isinstance(p, ast.Starred):
        return "ORDER", "unpacked with *"
    if isinstance(p, ast.FormattedValue):
        return "ORDER", "formatted into a string"
    if isinstance(p, ast.keyword):
        p2 = w.parent(fi, p)
        return _classify_arg(facts, fi, p2, e, sites)
    if isinstance(p, ast.Call) and (e in p.args):
        return _classify_arg(facts, fi, p, e, sites)
    if isinstance(p, (ast.ListComp, ast.SetComp, ast.GeneratorExp, ast.DictComp)):
        return "FLOW", "element of a comprehension"
    return "UNCLASSIFIED", "%s" % type(p).__name__


def _classify_arg(facts, fi, call, e, sites):
    ln = last_name(call)
    is_name = isinstance(call.func, ast.Name)
    if is_name and facts.builtin(ln, fi):
        if ln in FREE_FUNCS:
            return "FREE", "%s(...)" % ln
        if ln in SORTLIKE:
            k = kwarg(call, "key")
            if k is not None and any(isinstance(x, ast.Name) and x.id in ("hash", "id") for x in ast.walk(k)):
                return "ORDER", "%s(..., key=%s) orders by hash / address" % (ln, u(k))
            return "SORT", "%s(...)" % ln
        return "ORDER", "%s(...) observes iteration order" % ln
    if not is_name and ln in FREE_METHODS:
        return "FREE", ".%s(...)" % ln
    if facts.w.resolve_call(call, fi):
        return "FLOW", "passed to %s" % call_name(call)
    return "ORDER", "passed to %s, which may observe iteration order" % call_name(call)


def rule_R3(ctx, world, tracer, reach):
    ctx.rule("R3", "every set/frozenset value created in code reachable from run.run is order-observed (iteration, pop, list(), …) only when its elements are ints / frozensets of ints; hash() values stay inside __hash__", 7)
    facts = SetFacts(world, tracer)
    rounds = facts.solve()
    uses = {}  # site -> [(cls, text, where, reachable)]
    for fi in world.scopes():
        r = isinstance(fi, ModuleScope) or fi.qualname in reach
        for n in world.own(fi):
            if not isinstance(n, (ast.Name, ast.Attribute, ast.Subscript, ast.Call, ast.Set, ast.SetComp, ast.BinOp, ast.IfExp)):
                continue
            if isinstance(getattr(n, "ctx", None), (ast.Store, ast.Del)):
                continue
            ss = facts.sets(n, fi)
            if not ss:
                continue
            cls, text = classify_use(facts, fi, n, ss)
            for s_ in ss:
                uses.setdefault(s_, []).append((cls, text, fi.where(n), r, fi.qualname))
    listing = []
    for sid in sorted(facts.info):
        sfi, node = facts.info[sid]
        us = uses.get(sid, [])
        s_reach = isinstance(sfi, ModuleScope) or sfi.qualname in reach
        if not s_reach and not any(x[3] for x in us):
            continue
        ek = facts.ek[sid]
        det = ek <= DET
        total = ek <= {"int", "str"} and len(ek) <= 1
        bad = []
        seen_order = []
        for cls, text, where, r, fq in us:
            if not r:
                continue
            if cls == "ORDER":
                seen_order.append("%s at %s" % (text, where))
                if not det:
                    bad.append("%s at %s" % (text, where))
            elif cls == "SORT":
                if not (total or det and ek <= {"int"}):
                    bad.append("%s over elements without a hash-independent total order at %s" % (text, where))
            elif cls == "UNCLASSIFIED" and not det:
                raise AnalysisError("R3: unclassified use of a set with elements %s: %s at %s" % (sorted(ek), text, where))
        kinds = "/".join(sorted(ek)) or "empty"
        if det:
            reason = "elements %s: hash not randomised, so iteration order is a function of the insertion history" % kinds
        else:
            reason = "elements %s (hash may be randomised) but the value is only hashed / compared / membership-tested / counted" % kinds
        inst = "%s: %s" % (sfi.qualname, u(node)[:70])
        listing.append({"site": inst, "where": sfi.where(node), "elements": kinds, "reason": reason if not bad else "VIOLATED", "order_sensitive_uses": seen_order,
                        "uses": sorted({"%s: %s" % (c, t) for c, t, _, r, _ in us if r})})
        ctx.check(not bad, "R3", inst, sfi.where(node), "set with elements %s is order-observed: %s — the order depends on PYTHONHASHSEED" % (kinds, "; ".join(bad)), construct=sfi.qualname, stmt=u(node), detail=reason)
        ctx.analysed(sfi)
    ctx.extra["R3_sites"] = listing
    ctx.extra["R3_rounds"] = rounds
    # hash() / id() confinement
    hash_attrs = {}
    for fi in world.scopes():
        if not (isinstance(fi, ModuleScope) or fi.qualname in reach):
            continue
        for n in world.own(fi):
            if isinstance(n, ast.Name) and n.id in ("hash", "id") and isinstance(n.ctx, ast.Load) and facts.builtin(n.id, fi):
                p = world.parent(fi, n)
                inst = "%s: %s" % (fi.qualname, u(p)[:70])
                if not (isinstance(p, ast.Call) and p.func is n):
                    ctx.fail("R3", inst, fi.where(n), "builtin %s used as a value (ordering / keying by hash or address depends on PYTHONHASHSEED / the allocator)" % n.id, construct=fi.qualname, stmt=u(p))
                    continue
                if n.id == "id":
                    ctx.fail("R3", inst, fi.where(n), "id() values differ between processes", construct=fi.qualname, stmt=u(p))
                    continue
                # walk up to the statement
                st = p
                while not isinstance(st, ast.stmt):
                    st = world.parent(fi, st)
                if isinstance(st, ast.Return) and fi.name == "__hash__":
                    ctx.ok("R3", inst, fi.where(n), "hash value returned by __hash__ only")
                elif isinstance(st, ast.Assign) and len(st.targets) == 1 and isinstance(st.targets[0], ast.Attribute) and st.value is p:
                    hash_attrs.setdefault(st.targets[0].attr, []).append((fi, p, inst))
                else:
                    ctx.fail("R3", inst, fi.where(n), "a hash value (randomised per process for str-keyed objects) flows into %s" % u(st)[:60], construct=fi.qualname, stmt=u(p))
    for a, lst in hash_attrs.items():
        readers = []
        for fi in world.scopes():
            for n in world.own(fi):
                if isinstance(n, ast.Attribute) and n.attr == a and isinstance(n.ctx, ast.Load):
                    st = n
                    while not isinstance(st, ast.stmt):
                        st = world.parent(fi, st)
                    okr = fi.name == "__hash__" and isinstance(st, ast.Return)
                    # copying the cached hash into the same attribute of another object keeps it confined
                    okr = okr or (isinstance(st, ast.Assign) and len(st.targets) == 1 and isinstance(st.targets[0], ast.Attribute) and st.targets[0].attr == a and st.value is n)
                    if not okr:
                        readers.append("%s at %s" % (u(st)[:50], fi.where(n)))
        for fi, p, inst in lst:
            ctx.check(not readers, "R3", inst, fi.where(p), "the cached hash .%s is read outside __hash__: %s" % (a, "; ".join(readers)), construct=fi.qualname, stmt=u(p), detail="cached in .%s, read only by __hash__" % a)
    return facts


# =====================================================================================================
# R4 — no scheduling or clock dependence
# =====================================================================================================

def _stmt_of(world, fi, n):
    while n is not None and not isinstance(n, ast.stmt):
        n = world.parent(fi, n)
    return n


def _inside_print(world, fi, n, facts):
    for a in world.ancestors(fi, n):
        if isinstance(a, ast.Call) and isinstance(a.func, ast.Name) and a.func.id == "print" and facts.builtin("print", fi):
            return True
        if isinstance(a, ast.stmt):
            return False
    return False


def rule_R4(ctx, world, tracer, reach, facts):
    prog = ctx.prog
    ctx.rule("R4", "completion order (as_completed) feeds only keyed storage and printing; wall-clock values flow only into the 'time' field, prints and the max_time break", 3)
    # ---- (a) completion order ----------------------------------------------------------------------
    # a generator that walks as_completed(...) and yields hands the completion order on to whoever iterates it: its
    # consumers are then judged like consumers of as_completed itself ({generator name: which yielded positions are
    # carried in the chain's own result})
    relays = {}
    work = []
    for fi in world.scopes():
        if not (isinstance(fi, ModuleScope) or fi.qualname in reach):
            continue
        for n in world.own(fi):
            if isinstance(n, ast.Call) and (world.qualify(n.func, fi.module) or "").endswith("futures.as_completed"):
                work.append((fi, n, None))
    seen_work = set()
    while work:
        fi, n, carried = work.pop(0)
        if (fi.qualname, id(n)) in seen_work:
            continue
        seen_work.add((fi.qualname, id(n)))
        if True:
            p = world.parent(fi, n)
            inst = "%s: consumers of %s" % (fi.qualname, u(n))
            offenders = []
            if isinstance(p, ast.Call) and call_name(p) == "enumerate":
                p2 = world.parent(fi, p)
                if isinstance(p2, (ast.For, ast.comprehension)) and isinstance(p2.target, ast.Tuple) and isinstance(p2.target.elts[0], ast.Name):
                    cname = p2.target.elts[0].id
                    for x in world.own(fi):
                        if isinstance(x, ast.Name) and x.id == cname and isinstance(x.ctx, ast.Load) and not _inside_print(world, fi, x, facts):
                            offenders.append("completion counter %s used in `%s`" % (cname, u(_stmt_of(world, fi, x))[:60]))
                    p = p2
                else:
                    raise AnalysisError("R4: unrecognised use of enumerate(as_completed(...)) at %s" % fi.where(n))
            if isinstance(p, ast.comprehension):
                comp = world.parent(fi, p)
                if isinstance(comp, ast.DictComp):
                    if ".result()" not in expand(tracer, comp.key, fi):
                        offenders.append("dict comprehension keyed by %s, which is not carried in the result" % u(comp.key))
                else:
                    offenders.append("a %s built in completion order" % type(comp).__name__)
            elif isinstance(p, (ast.For, ast.AsyncFor)):
                body_nodes = [x for st in p.body + p.orelse for x in ast.walk(st)]
                inner_names = {x.id for x in body_nodes if isinstance(x, ast.Name) and isinstance(x.ctx, ast.Store)} | {x.id for x in ast.walk(p.target) if isinstance(x, ast.Name)}
                counters = set()
                for x in body_nodes:
                    if isinstance(x, ast.AugAssign):
                        counters.add(u(x.target))
                    elif isinstance(x, ast.Assign) and len(x.targets) == 1 and isinstance(x.targets[0], ast.Subscript):
                        k = expand(tracer, x.targets[0].slice, fi)
                        sl = x.targets[0].slice
                        from_relay = False
                        if carried is not None and isinstance(sl, ast.Name):
                            tnames = [t.id if isinstance(t, ast.Name) else None for t in (p.target.elts if isinstance(p.target, ast.Tuple) else [p.target])]
                            from_relay = sl.id in tnames and tnames.index(sl.id) < len(carried) and carried[tnames.index(sl.id)]
                        bad_key = (".result()" not in k and not from_relay) or any(isinstance(y, ast.Call) and call_name(y) in ("len", "next", "count") for y in ast.walk(x.targets[0].slice))
                        if bad_key:
                            offenders.append("`%s` stores under %s, which is a function of completion order, not of the result" % (u(x)[:60], u(x.targets[0].slice)))
                    elif isinstance(x, ast.Assign) and any(isinstance(t, ast.Attribute) for t in x.targets):
                        offenders.append("`%s` overwrites an attribute in completion order" % u(x)[:60])
                    elif isinstance(x, ast.Call) and isinstance(x.func, ast.Attribute) and x.func.attr in ("append", "extend", "insert", "appendleft", "put", "write"):
                        r = x.func.value
                        root = r
                        while isinstance(root, (ast.Attribute, ast.Subscript)):
                            root = root.value
                        if isinstance(root, ast.Name) and root.id == "__yielded" and getattr(fi.node, "_was_generator", False) and x.func.attr == "append" and len(x.args) == 1:
                            elts = x.args[0].elts if isinstance(x.args[0], ast.Tuple) else [x.args[0]]
                            relays[fi.name] = [".result()" in expand(tracer, e_, fi) for e_ in elts]
                            for fi2 in world.scopes():
                                if not (isinstance(fi2, ModuleScope) or fi2.qualname in reach):
                                    continue
                                for n2 in world.own(fi2):
                                    if isinstance(n2, ast.Call) and call_name(n2).split(".")[-1] == fi.name and fi2 is not fi:
                                        work.append((fi2, n2, relays[fi.name]))
                        elif not (isinstance(root, ast.Name) and root.id in inner_names):
                            offenders.append("`%s` accumulates in completion order" % u(x)[:60])
                for c in counters:
                    for x in world.own(fi):
                        if isinstance(x, (ast.Name, ast.Attribute)) and u(x) == c and isinstance(x.ctx, ast.Load) and not _inside_print(world, fi, x, facts):
                            offenders.append("completion counter %s used in `%s`" % (c, u(_stmt_of(world, fi, x))[:60]))
            else:
                raise AnalysisError("R4: as_completed(...) consumed by an unrecognised construct at %s" % fi.where(n))
            ctx.check(not offenders, "R4", inst, fi.where(n), "the order in which chains finish reaches the output: %s" % "; ".join(sorted(set(offenders))), construct=fi.qualname, stmt="as_completed consumers")
            ctx.analysed(fi)
    ctx.note("R4: the results mapping is filled in completion order, so its *insertion order* (preserved by pickle) follows the schedule; "
             "each chain's entry and key do not.  Readers must address chains by key (process_trace.write_map_results scans results.items() "
             "with a strict '>' and so breaks exact log_p_one ties between chains by insertion order — post-processing, outside C18's statement)")
    # ---- (b) wall clock ------------------------------------------------------------------------------
    timer = prog.cls("utils.utils.Timer")
    tfam = {c.qualname for c in prog.subclasses(timer)} | {timer.qualname}
    clock_attrs = set()
    for _ in range(4):
        for m in timer.methods.values():
            tainted_locals = set()
            for x in sorted((y for y in world.own(m) if isinstance(y, (ast.Assign, ast.AugAssign))), key=lambda y: y.lineno):
                val = x.value
                is_clock = any((isinstance(y, ast.Call) and (u(y.func).startswith("self._func") or (world.qualify(y.func, m.module) or "").split(".")[0] in ("time", "datetime")))
                               or (isinstance(y, ast.Name) and y.id in tainted_locals)
                               or (isinstance(y, ast.Attribute) and isinstance(y.value, ast.Name) and y.value.id == "self" and y.attr in clock_attrs and isinstance(y.ctx, ast.Load))
                               for y in ast.walk(val))
                if not is_clock and isinstance(x, ast.Assign):
                    continue
                for t in (x.targets if isinstance(x, ast.Assign) else [x.target]):
                    if isinstance(t, ast.Name) and is_clock:
                        tainted_locals.add(t.id)
                    elif isinstance(t, ast.Attribute) and is_clock:
                        clock_attrs.add(t.attr)
    if not clock_attrs:
        raise AnalysisError("R4: Timer stores no clock-derived attribute; the clock model is out of date")
    ctx.note("R4: clock-derived attributes of Timer: %s" % sorted(clock_attrs))
    sources = []
    for fi in world.scopes():
        if not (isinstance(fi, ModuleScope) or fi.qualname in reach):
            continue
        cls = world.owner_class(fi)
        if cls is not None and cls.qualname in tfam:
            continue
        for n in world.own(fi):
            if isinstance(n, ast.Attribute) and n.attr in clock_attrs and isinstance(n.ctx, ast.Load):
                # only attributes of timer-like receivers: the attribute name is unique to Timer today
                sources.append((fi, n, "%s" % u(n)))
            elif isinstance(n, ast.Call):
                q = world.qualify(n.func, fi.module) or ""
                if q.split(".")[0] in ("time", "datetime") and q.split(".")[-1] not in ("sleep",):
                    sources.append((fi, n, u(n)))
    key_names = {"time"}

    def sink(fi, n, depth=0):
        """-> (ok, description) for where the clock value `n` goes."""
        if _inside_print(world, fi, n, facts):
            return True, "printed"
        cur = n
        for a in world.ancestors(fi, n):
            if isinstance(a, ast.Dict):
                for k, v in zip(a.keys, a.values):
                    if v is cur:
                        if isinstance(k, ast.Constant) and k.value in key_names:
                            return True, "the %r field of the trace entry" % k.value
                        return False, "stored under key %s" % u(k)
            if isinstance(a, ast.If) and any(cur is x for x in ast.walk(a.test)):
                only_break = len(a.body) == 1 and isinstance(a.body[0], ast.Break) and not a.orelse
                if only_break and isinstance(a.test, ast.Compare):
                    return True, "the time-limit break `if %s: break`" % u(a.test)
                return False, "controls `if %s`" % u(a.test)[:60]
            if isinstance(a, (ast.While, ast.IfExp)) and any(cur is x for x in ast.walk(a.test)):
                return False, "controls `%s`" % u(a.test)[:60]
            if isinstance(a, ast.Assign) and len(a.targets) == 1 and isinstance(a.targets[0], ast.Name) and depth < 4:
                nm = a.targets[0].id
                res = []
                for x in world.own(fi):
                    if isinstance(x, ast.Name) and x.id == nm and isinstance(x.ctx, ast.Load):
                        res.append(sink(fi, x, depth + 1))
                bad = [d for okk, d in res if not okk]
                if bad:
                    return False, "via %s: %s" % (nm, bad[0])
                return True, "via local %s: %s" % (nm, ", ".join(sorted({d for _, d in res})) or "unused")
            if isinstance(a, ast.stmt):
                return False, "flows into `%s`" % u(a)[:70]
            cur = a
        return False, "escapes"

    for fi, n, text in sources:
        okk, desc = sink(fi, n)
        ctx.check(okk, "R4", "%s: clock value %s -> %s" % (fi.qualname, text, desc if okk else "?"), fi.where(n), "a wall-clock value %s" % desc, construct=fi.qualname, stmt="%s in %s" % (text, u(_stmt_of(world, fi, n))[:60]), detail=desc)
        ctx.analysed(fi)


def rule_R3q(ctx):
    """A query of a repository class (a property or a method) that hands out a set / frozenset, and whose result some
    caller iterates, lists or indexes: the order that caller sees is the set's hash order.  R3 follows sets created and
    observed inside one function; this clause covers the hand-over through an attribute read, which R3's local
    data-flow does not see.  Sets of integers (graph indices, data point indices) iterate in a seed-independent order."""
    prog = ctx.prog
    ctx.rule("R3q", "no query of a repository class returns a set / frozenset of non-integers that a caller observes in order (list(), for, indexing, shuffle)", 1)

    def set_valued(e):
        if isinstance(e, (ast.Set, ast.SetComp)):
            return True
        if isinstance(e, ast.Call) and isinstance(e.func, ast.Name) and e.func.id in ("set", "frozenset"):
            return True
        if isinstance(e, ast.BinOp) and isinstance(e.op, (ast.BitOr, ast.BitAnd, ast.Sub, ast.BitXor)):
            return set_valued(e.left) or set_valued(e.right)
        return False

    def int_elements(e):
        """Syntactic evidence that the elements are integers: built from range(...), node indices, `.idx` attributes."""
        txt = ast.unparse(e)
        return any(t in txt for t in ("node_indices()", ".idx ", ".idx)", ".idx}", "range(", "_node_indices_rev", "descendants(", "successor_indices", "predecessor_indices"))

    queries = {}
    for ci in prog.classes.values():
        for name, kinds in ci.properties.items():
            g = kinds.get("getter")
            if g is not None:
                queries.setdefault(name, []).append((ci, g, True))
        for name, m in ci.methods.items():
            if not name.startswith("__"):
                queries.setdefault(name, []).append((ci, m, False))
    n = 0
    for name, items in sorted(queries.items()):
        for ci, g, is_prop in items:
            rets = [r.value for r in ast.walk(g.node) if isinstance(r, ast.Return) and r.value is not None]
            local_sets = {t.id for a in ast.walk(g.node) if isinstance(a, ast.Assign) and set_valued(a.value) for t in a.targets if isinstance(t, ast.Name)}
            bad_rets = [r for r in rets if (set_valued(r) or (isinstance(r, ast.Name) and r.id in local_sets)) and not int_elements(r)]
            if not bad_rets:
                continue
            n += 1
            # who observes the order of X.<name> / X.<name>()
            obs = []
            for f in prog.functions.values():
                pm = None
                for x in ast.walk(f.node):
                    if not (isinstance(x, ast.Attribute) and x.attr == name and isinstance(x.ctx, ast.Load)):
                        continue
                    if pm is None:
                        pm = parents(f.node)
                    node = x
                    par = pm.get(id(node))
                    if not is_prop:
                        if not (isinstance(par, ast.Call) and par.func is node):
                            continue
                        node, par = par, pm.get(id(par))
                    if isinstance(par, ast.Call) and isinstance(par.func, ast.Name) and par.func.id in ("list", "tuple", "enumerate", "iter", "next") and node in par.args:
                        obs.append((f, par, "%s(...)" % par.func.id))
                    elif isinstance(par, (ast.For, ast.comprehension)) and par.iter is node:
                        tgt_owner = pm.get(id(par)) if isinstance(par, ast.comprehension) else None
                        if isinstance(tgt_owner, (ast.SetComp,)):
                            continue
                        obs.append((f, x, "iteration"))
                    elif isinstance(par, ast.Subscript) and par.value is node:
                        obs.append((f, x, "indexing"))
                    elif isinstance(par, ast.Call) and call_name(par).split(".")[-1] in ("array", "asarray", "shuffle", "choice", "permutation") and node in par.args:
                        obs.append((f, par, call_name(par)))
            ctx.check(not obs, "R3q", "%s.%s hands out a set whose order nobody observes" % (ci.name, name), g.where(bad_rets[0]), "%s.%s returns %s, and %s observes its order (%s): for elements hashed by a string (data points hash by name) that order changes with PYTHONHASHSEED" % (ci.name, name, u(bad_rets[0])[:60], obs[0][0].qualname.split("phyclone.")[-1] if obs else "", obs[0][2] if obs else ""), construct=g.qualname, stmt="set-valued query")
    ctx.ok("R3q", "%d set-valued quer%s of repository classes inspected" % (n, "y" if n == 1 else "ies"), "phyclone")


def run(ctx):
    ctx.assume("numpy Generator / SeedSequence.spawn, scipy rvs(random_state=Generator), numba and rustworkx are deterministic functions of their inputs (bitwise library determinism is not decided)")
    ctx.assume("hash(int) and hash(frozenset of ints) do not depend on PYTHONHASHSEED; str / bytes hashes do; set iteration order is a function of element hashes and insertion history")
    ctx.assume("role table: node identifiers and data-point indices are ints; DataPoint hashes by its (str) name")
    ctx.assume("compared runs use the same max_time budget semantics: the documented `timer.elapsed > max_time` break (default: never) is the one sanctioned clock dependence")
    world = World(ctx.prog)
    tracer = Tracer(world)
    entry = ctx.prog.fn(ENTRY)
    reach = world.reachable(entry)
    ctx.extra["reachable_from_run"] = len(reach)
    ctx.soft(rule_R1, world, tracer, reach)
    ctx.soft(rule_R1f, world)
    ctx.soft(rule_R2, world, tracer)
    facts = ctx.soft(rule_R3, world, tracer, reach)
    ctx.soft(rule_R4, world, tracer, reach, facts)
    ctx.soft(rule_R3q)


# Self-test catalogue: one small textual edit each, applied to a scratch copy (see selftest.py).
_R = "phyclone/run.py"
_G = "phyclone/mcmc/gibbs_mh.py"
_CONC = "phyclone/mcmc/concentration.py"
_PG = "phyclone/mcmc/particle_gibbs.py"
_KB = "phyclone/smc/kernels/base.py"
_FA = "phyclone/smc/kernels/fully_adapted.py"
_UN = "phyclone/smc/samplers/unconditional.py"
_SU = "phyclone/smc/utils.py"
_M = "phyclone/utils/math.py"
_T = "phyclone/tree/tree.py"
_IMP_NP_KB = {"file": _KB, "old": "from phyclone.smc.swarm import Particle\n", "new": "import numpy as np\nfrom phyclone.smc.swarm import Particle\n"}
SELFTEST = [
    {"name": "benign-R1-seeding-as-a-conditional-expression", "kind": "benign", "file": "phyclone/run.py", "old": "    if seed is not None:\n        rng = np.random.default_rng(seed)\n    else:\n        rng = np.random.default_rng()\n    return rng\n", "new": "    return np.random.default_rng() if seed is None else np.random.default_rng(seed)\n"},
    {"name": "R1-conditional-expression-seeds-the-wrong-arm", "kind": "break", "rule": "R1", "file": "phyclone/run.py", "old": "    if seed is not None:\n        rng = np.random.default_rng(seed)\n    else:\n        rng = np.random.default_rng()\n    return rng\n", "new": "    return np.random.default_rng() if seed is not None else np.random.default_rng(seed)\n"},
    {"name": "R3q-outliers-query-returns-a-frozenset", "kind": "break", "rule": "R3q", "file": _T, "old": "        return list(self._data[self._OUTLIER_NODE_NAME])\n", "new": "        return frozenset(self._data[self._OUTLIER_NODE_NAME])\n"},
    {"name": "R2-pool-of-four-workers", "kind": "break", "rule": "R2", "file": "phyclone/run.py", "old": "ProcessPoolExecutor(max_workers=num_chains,", "new": "ProcessPoolExecutor(max_workers=min(num_chains, 4),"},
    {"name": "R2-pool-default-size", "kind": "break", "rule": "R2", "file": "phyclone/run.py", "old": "ProcessPoolExecutor(max_workers=num_chains, mp_context", "new": "ProcessPoolExecutor(mp_context"},
    # ---- R1 / R1f -----------------------------------------------------------------------------------
    {"name": "R1-np-random-shuffle", "kind": "break", "rule": ["R1", "R1f"], "file": _G, "old": "self._rng.shuffle(data_idxs)", "new": "np.random.shuffle(data_idxs)"},
    {"name": "R1-rvs-without-random_state", "kind": "break", "rule": ["R1", "R1f"], "file": _CONC, "old": "eta = beta.rvs(a=old_value + 1, b=n, random_state=self._rng)", "new": "eta = beta.rvs(a=old_value + 1, b=n)"},
    {"name": "R1-rvs-random_state-None", "kind": "break", "rule": "R1", "file": _CONC, "old": "shape += bernoulli.rvs(pi, random_state=self._rng)", "new": "shape += bernoulli.rvs(pi, random_state=None)"},
    {"name": "R1-default_rng-per-chain", "kind": "break", "rule": ["R1", "R1f"], "file": _R, "old": "    tree_dist = TreeJointDistribution(FSCRPDistribution(concentration_value))\n    kernel = setup_kernel(", "new": "    rng = np.random.default_rng()\n    tree_dist = TreeJointDistribution(FSCRPDistribution(concentration_value))\n    kernel = setup_kernel("},
    {"name": "R1-kernel-keeps-fresh-generator", "kind": "break", "rule": ["R1", "R1f"], "edits": [_IMP_NP_KB, {"file": _KB, "old": "        self.perm_dist = perm_dist\n\n        self._rng = rng\n", "new": "        self.perm_dist = perm_dist\n\n        self._rng = np.random.default_rng()\n"}]},
    {"name": "R1-proposal-ignores-kernel-rng", "kind": "break", "rule": ["R1", "R1f"], "edits": [_IMP_NP_KB, {"file": _KB, "old": "        self._rng = kernel.rng\n", "new": "        self._rng = np.random.default_rng()\n"}]},
    {"name": "R1-seed-from-clock", "kind": "break", "rule": "R1", "edits": [{"file": _R, "old": "import numpy as np\n", "new": "import time\nimport numpy as np\n"}, {"file": _R, "old": "rng_main = instantiate_and_seed_RNG(seed)", "new": "rng_main = instantiate_and_seed_RNG(int(time.time()))"}]},
    {"name": "R1-seeded-branch-unseeded", "kind": "break", "rule": "R1", "file": _R, "old": "        rng = np.random.default_rng(seed)\n", "new": "        rng = np.random.default_rng()\n"},
    {"name": "R1-one-sampler-gets-fresh-rng", "kind": "break", "rule": ["R1", "R1f"], "file": _R, "old": "prg_sampler = PruneRegraphSampler(tree_dist, rng)", "new": "prg_sampler = PruneRegraphSampler(tree_dist, np.random.default_rng())"},
    {"name": "R1-stdlib-random-choice", "kind": "break", "rule": ["R1", "R1f"], "edits": [{"file": _PG, "old": "from phyclone.smc.samplers import ConditionalSMCSampler\n", "new": "import random\nfrom phyclone.smc.samplers import ConditionalSMCSampler\n"}, {"file": _PG, "old": "subtree_root_child = self._rng.choice(nodes)", "new": "subtree_root_child = random.choice(nodes)"}]},
    {"name": "R1-spawn-from-fresh-generator", "kind": "break", "rule": ["R1", "R1f", "R2"], "file": _R, "old": "rng_list = rng_main.spawn(num_chains)", "new": "rng_list = np.random.default_rng().spawn(num_chains)"},
    {"name": "R1-legacy-multinomial-helper", "kind": "break", "rule": ["R1", "R1f"], "file": _M, "old": "    return rng.multinomial(1, p).argmax()", "new": "    return np.random.multinomial(1, p).argmax()"},
    {"name": "R1-interleave-own-generator", "kind": "break", "rule": ["R1", "R1f"], "edits": [{"file": _SU, "old": "from itertools import repeat\n", "new": "from itertools import repeat\nfrom numpy.random import default_rng\n"}, {"file": _SU, "old": "    rng.shuffle(sentinels)", "new": "    default_rng().shuffle(sentinels)"}]},
    {"name": "R1-burnin-sampler-own-generator", "kind": "break", "rule": ["R1", "R1f"], "edits": [{"file": _UN, "old": "from phyclone.smc.samplers import SMCSampler\n", "new": "import numpy as np\nfrom phyclone.smc.samplers import SMCSampler\n"}, {"file": _UN, "old": "        self._rng = kernel.rng\n", "new": "        self._rng = np.random.default_rng()\n"}]},
    {"name": "R1-uuid-seed", "kind": "break", "rule": ["R1", "R1f"], "edits": [{"file": _R, "old": "import numpy as np\n", "new": "import uuid\nimport numpy as np\n"}, {"file": _R, "old": "rng_main = instantiate_and_seed_RNG(seed)", "new": "rng_main = instantiate_and_seed_RNG(uuid.uuid4().int % 2**32 if seed is None else seed + uuid.uuid4().int % 2)"}]},
    # ---- R2 ---------------------------------------------------------------------------------------------
    {"name": "R2-results-under-completion-counter", "kind": "break", "rule": ["R2", "R4"], "file": _R, "old": "                    results[res_chain] = result\n", "new": "                    results[len(results)] = result\n"},
    {"name": "R2-reversed-pairing", "kind": "break", "rule": "R2", "file": _R, "old": "for chain_num, rng in enumerate(rng_list)", "new": "for chain_num, rng in zip(reversed(range(num_chains)), rng_list)"},
    {"name": "R2-workers-share-main-generator", "kind": "break", "rule": "R2", "file": _R, "old": "                    rng,\n                    samples,", "new": "                    rng_main,\n                    samples,"},
    {"name": "R2-result-carries-constant-chain-number", "kind": "break", "rule": "R2", "file": _R, "old": "\"chain_num\": chain_num}", "new": "\"chain_num\": 0}"},
    {"name": "R2-key-from-enumerate-as_completed", "kind": "break", "rule": ["R2", "R4"], "edits": [{"file": _R, "old": "for future in as_completed(chain_results):", "new": "for done, future in enumerate(as_completed(chain_results)):"}, {"file": _R, "old": "                    results[res_chain] = result\n", "new": "                    results[done] = result\n"}]},
    {"name": "R2-single-chain-fresh-generator", "kind": "break", "rule": ["R2", "R1", "R1f"], "file": _R, "old": "            rng_main,\n            samples,\n            thin,\n            0,", "new": "            np.random.default_rng(),\n            samples,\n            thin,\n            0,"},
    {"name": "R2-worker-passes-wrong-chain-number", "kind": "break", "rule": "R2", "file": _R, "old": "        tree_dist,\n        chain_num,\n        rng,\n        subtree_update_prob,\n    )\n    return results", "new": "        tree_dist,\n        0,\n        rng,\n        subtree_update_prob,\n    )\n    return results"},
    {"name": "R2-spawn-list-resorted", "kind": "break", "rule": "R2", "file": _R, "old": "for chain_num, rng in enumerate(rng_list)", "new": "for chain_num, rng in enumerate(sorted(rng_list, key=id))"},
    # ---- R3 ---------------------------------------------------------------------------------------------
    {"name": "R3-iterate-set-of-outliers", "kind": "break", "rule": "R3", "file": _PG, "old": "        for data_point in tree.outliers:\n", "new": "        for data_point in set(tree.outliers):\n"},
    {"name": "R3-dedupe-outliers-before-shuffle", "kind": "break", "rule": "R3", "file": _SU, "old": "outliers = list(tree.outliers)", "new": "outliers = list(set(tree.outliers))"},
    {"name": "R3-labels-via-set-of-datapoints", "kind": "break", "rule": "R3", "file": _T, "old": "result = {dp.idx: k for k, l in self.node_data.items() for dp in l}", "new": "result = {dp.idx: k for k, l in self.node_data.items() for dp in set(l)}"},
    {"name": "R3-candidates-sorted-by-hash", "kind": "break", "rule": "R3", "file": _FA, "old": "tree = list(self._log_p.keys())[idx]", "new": "tree = sorted(self._log_p.keys(), key=hash)[idx]"},
    {"name": "R3-indices-sorted-by-id", "kind": "break", "rule": "R3", "file": _G, "old": "data_idxs = list(tree_labels.keys())", "new": "data_idxs = sorted(tree_labels.keys(), key=id)"},
    {"name": "R3-pop-from-set-of-names", "kind": "break", "rule": "R3", "file": _PG, "old": "subtree_root_child = self._rng.choice(nodes)", "new": "subtree_root_child = int({str(n) for n in nodes}.pop())"},
    {"name": "R3-hash-as-tiebreak", "kind": "break", "rule": "R3", "file": _PG, "old": "particle_idx = discrete_rvs(swarm.weights, self._rng)", "new": "particle_idx = (discrete_rvs(swarm.weights, self._rng) + hash(swarm.particles[0])) % len(swarm.particles)"},
    # ---- R4 ---------------------------------------------------------------------------------------------
    {"name": "R4-completion-order-recorded", "kind": "break", "rule": "R4", "file": _R, "old": "                    results[res_chain] = result\n", "new": "                    results[res_chain] = result\n                    results[0].setdefault(\"finish_order\", []).append(res_chain)\n"},
    {"name": "R4-clock-switches-move", "kind": "break", "rule": "R4", "file": _R, "old": "            if rng.random() < subtree_update_prob:", "new": "            if rng.random() < subtree_update_prob or timer.elapsed > 60:"},
    {"name": "R4-clock-sets-sweep-count", "kind": "break", "rule": "R4", "file": _R, "old": "            for _ in range(num_samples_data_point):\n                tree = dp_sampler.sample_tree(tree)\n\n            for _ in range(num_samples_prune_regraph):\n                tree = prg_sampler.sample_tree(tree)\n\n            tree.relabel_nodes()\n\n            if concentration_update", "new": "            for _ in range(num_samples_data_point + int(timer.elapsed < 1.0)):\n                tree = dp_sampler.sample_tree(tree)\n\n            for _ in range(num_samples_prune_regraph):\n                tree = prg_sampler.sample_tree(tree)\n\n            tree.relabel_nodes()\n\n            if concentration_update"},
    {"name": "R4-clock-in-alpha-field", "kind": "break", "rule": "R4", "file": _R, "old": "\"alpha\": tree_dist.prior.alpha,", "new": "\"alpha\": tree_dist.prior.alpha + 1e-12 * timer.elapsed,"},
    # ---- benign ---------------------------------------------------------------------------------------
    {"name": "benign-rename-rng-parameter", "kind": "benign", "edits": [{"file": _G, "old": "def __init__(self, tree_dist, rng: np.random.Generator, outliers=False):", "new": "def __init__(self, tree_dist, generator: np.random.Generator, outliers=False):"}, {"file": _G, "old": "        self.outliers = outliers\n\n        self._rng = rng\n", "new": "        self.outliers = outliers\n\n        self._rng = generator\n"}]},
    {"name": "benign-spawn-into-dict-keyed-by-chain", "kind": "benign", "edits": [{"file": _R, "old": "rng_list = rng_main.spawn(num_chains)", "new": "rng_list = dict(enumerate(rng_main.spawn(num_chains)))"}, {"file": _R, "old": "for chain_num, rng in enumerate(rng_list)", "new": "for chain_num, rng in rng_list.items()"}]},
    {"name": "benign-zip-range-pairing", "kind": "benign", "file": _R, "old": "for chain_num, rng in enumerate(rng_list)", "new": "for chain_num, rng in zip(range(num_chains), rng_list)"},
    {"name": "benign-local-alias-of-generator", "kind": "benign", "file": _G, "old": "        self._rng.shuffle(data_idxs)\n", "new": "        gen = self._rng\n        gen.shuffle(data_idxs)\n"},
    {"name": "benign-helper-wraps-seeding", "kind": "benign", "edits": [{"file": _R, "old": "    rng_main = instantiate_and_seed_RNG(seed)\n", "new": "    rng_main = _make_main_rng(seed)\n"}, {"file": _R, "old": "def instantiate_and_seed_RNG(seed):", "new": "def _make_main_rng(seed):\n    return instantiate_and_seed_RNG(seed)\n\n\ndef instantiate_and_seed_RNG(seed):"}]},
    {"name": "benign-rng-by-keyword", "kind": "benign", "file": _R, "old": "prg_sampler = PruneRegraphSampler(tree_dist, rng)", "new": "prg_sampler = PruneRegraphSampler(tree_dist, rng=rng)"},
    {"name": "benign-extra-print-in-completion-loop", "kind": "benign", "file": _R, "old": "print(\"Finished chain\", res_chain)", "new": "print(\"Finished chain\", res_chain, \"of\", len(chain_results))"},
    {"name": "benign-sorted-int-set", "kind": "benign", "file": _T, "old": "return [self._graph[child].node_id for child in descs]", "new": "return [self._graph[child].node_id for child in sorted(descs)]"},
    {"name": "benign-print-elapsed", "kind": "benign", "file": _R, "old": "    print(\"Post-burnin\")", "new": "    print(\"Post-burnin\", timer.elapsed)"},
    {"name": "benign-inline-result-key", "kind": "benign", "file": _R, "old": "                    res_chain = result[\"chain_num\"]\n                    results[res_chain] = result\n                    print(\"Finished chain\", res_chain)", "new": "                    results[result[\"chain_num\"]] = result\n                    print(\"Finished chain\", result[\"chain_num\"])"},
    {"name": "benign-split-spawn-statement", "kind": "benign", "file": _R, "old": "        rng_list = rng_main.spawn(num_chains)\n", "new": "        children = rng_main.spawn(num_chains)\n        rng_list = list(children)\n"},
]
