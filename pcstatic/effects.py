"""Effect summaries for the tree editor (DESIGN §2.5): which statements perform a likelihood-affecting
write on which tree object, which ones refresh it, closed over calls of same-class helpers.

AST + abstract paths only (paths.enumerate_paths); nothing is executed.  Vocabulary:

* LW(obj)  likelihood-affecting write on the tree object held by local name `obj`:
    - payload mutators  <payload>.add_data_point / add_data_point_list / remove_data_point
    - rustworkx structure mutators on `obj._graph` (or a local alias of it)
    - payload replacement  `obj._graph[i] = …`  (except the value-preserving `G[i] = G[i].copy()`)
    - stores to `.log_p` / `.log_r` outside TreeNode
    - a call  obj.m(…)  of a Tree method m that is *dirty* (below) for the constant arguments given
* RF(obj)  refresh:  obj._update_path_to_root(…), obj.update(), obj.__init__(…), or a call of a Tree
  method that performs no write and refreshes on every path (a refresh wrapper).
* dirty(m) a Tree method with an LW(self) that is not followed by an RF(self) on some abstract path to a
  normal exit; the summary keeps, per offending path, the truthiness the path requires of plain
  parameter tests (`if not build_add:`), so that a call passing a constant can be exempted.
"""
import ast

from .astutil import last_name, u
from .model import AnalysisError
from .paths import enumerate_paths

PAYLOAD_MUT = ("add_data_point", "add_data_point_list", "remove_data_point")
GRAPH_MUT = (
    "add_node", "add_edge", "remove_edge", "remove_node", "remove_node_retain_edges",
    "remove_node_retain_edges_by_id", "remove_node_retain_edges_by_key", "remove_nodes_from", "compose",
    "extend_from_edge_list", "extend_from_weighted_edge_list", "add_child", "add_parent", "add_nodes_from",
    "add_edges_from", "add_edges_from_no_data", "remove_edge_from_index", "remove_edges_from", "merge_nodes",
    "contract_nodes", "clear", "clear_edges", "insert_node_on_in_edges", "insert_node_on_out_edges",
    "substitute_node_with_subgraph", "update_edge", "update_edge_by_index", "reverse",
)
REFRESH = ("_update_path_to_root", "update", "__init__")
PAYLOAD_VALUE_ATTRS = ("log_p", "log_r")


class Ev:
    __slots__ = ("kind", "obj", "node", "what", "via")

    def __init__(self, kind, obj, node, what, via=None):
        self.kind = kind  # 'LW' | 'RF'
        self.obj = obj
        self.node = node
        self.what = what
        self.via = via

    def __repr__(self):
        return "<%s %s %s>" % (self.kind, self.obj, self.what)


def walk_no_nested(node):
    """ast.walk that does not descend into nested function / lambda / class bodies."""
    todo = [node]
    while todo:
        n = todo.pop()
        yield n
        for c in ast.iter_child_nodes(n):
            if isinstance(c, (ast.FunctionDef, ast.AsyncFunctionDef, ast.Lambda, ast.ClassDef)):
                continue
            todo.append(c)


def step_exprs(step):
    """The AST nodes a path step evaluates itself (a `with` step carries the whole statement)."""
    n = step.node
    if step.kind == "with":
        out = []
        for it in n.items:
            out.append(it.context_expr)
        return out
    if isinstance(n, ast.ExceptHandler):
        return []
    return [n]


def is_copy_of_same_slot(target, value):
    """`G[i] = G[i].copy()` / `copy.copy(G[i])` / `G[i].__copy__()`: replaces a payload by its own copy."""
    if not isinstance(target, ast.Subscript):
        return False
    src = None
    if isinstance(value, ast.Call) and not value.keywords:
        f = value.func
        if isinstance(f, ast.Attribute) and f.attr in ("copy", "__copy__") and not value.args:
            src = f.value
        elif u(f) in ("copy.copy", "copy") and len(value.args) == 1:
            src = value.args[0]
    return src is not None and isinstance(src, ast.Subscript) and u(src) == u(target)


class FnFx:
    """Events of one function."""

    def __init__(self, fx, fi):
        self.fx = fx
        self.fi = fi
        self.graph_alias = {}
        self.payload_alias = {}
        self._cache = {}
        self._aliases()

    # ------------------------------------------------------------------ aliases
    def _set(self, table, name, owner, what):
        if table.get(name, owner) != owner:
            raise AnalysisError("%s: local %s is a %s of two different trees (%s, %s)" % (self.fi.qualname, name, what, table[name], owner))
        table[name] = owner

    def _aliases(self):
        body = self.fi.node
        assigns = [n for n in walk_no_nested(body) if isinstance(n, ast.Assign) and len(n.targets) == 1]
        for n in assigns:
            t, v = n.targets[0], n.value
            if isinstance(t, ast.Name) and isinstance(v, ast.Attribute) and v.attr == "_graph" and isinstance(v.value, ast.Name):
                self._set(self.graph_alias, t.id, v.value.id, "graph alias")
            if isinstance(t, ast.Attribute) and t.attr == "_graph" and isinstance(t.value, ast.Name) and isinstance(v, ast.Name):
                self._set(self.graph_alias, v.id, t.value.id, "graph alias")
        for n in walk_no_nested(body):
            if isinstance(n, ast.Assign) and len(n.targets) == 1:
                t, v = n.targets[0], n.value
                if isinstance(t, ast.Name) and isinstance(v, ast.Subscript):
                    o = self.graph_owner(v.value)
                    if o:
                        self._set(self.payload_alias, t.id, o, "payload alias")
                if isinstance(t, ast.Name) and isinstance(v, ast.Call):
                    o = self.payload_owner(v)
                    if o:
                        self._set(self.payload_alias, t.id, o, "payload alias")
                if isinstance(t, ast.Subscript) and isinstance(v, ast.Name):
                    o = self.graph_owner(t.value)
                    if o:
                        self._set(self.payload_alias, v.id, o, "payload alias")
            elif isinstance(n, ast.For) and isinstance(n.target, ast.Name):
                it = n.iter
                if isinstance(it, ast.Call) and isinstance(it.func, ast.Attribute) and it.func.attr in ("nodes", "successors", "predecessors"):
                    o = self.graph_owner(it.func.value)
                    if o:
                        self._set(self.payload_alias, n.target.id, o, "payload alias")
            elif isinstance(n, ast.Call) and isinstance(n.func, ast.Attribute) and n.func.attr in GRAPH_MUT:
                o = self.graph_owner(n.func.value)
                if o:
                    for a in n.args:
                        if isinstance(a, ast.Name) and a.id not in self.graph_alias and self._is_payload_local(a.id):
                            self._set(self.payload_alias, a.id, o, "payload alias")

    def _copy_stores(self):
        """ids of the subscript-store targets of this function whose stored value is, as a term, `.copy()` of the
        slot's own previous content (`pairs = [(i, G[i].copy()) for i in ...]; for i, p in pairs: G[i] = p`)."""
        if getattr(self, "_copy_store_ids", None) is None:
            self._copy_store_ids = set()
            try:
                from .formula import extract
                from . import termflow as tf

                ex = extract(self.fx.prog, self.fi, copy_is_identity=False)
                by_node = {}
                for e in ex.events:
                    if e.name == "store_sub" and len(e.args) == 3:
                        base, idx, val = e.args
                        va = val.as_atom() if isinstance(val, tf.Poly) else None
                        ok = False
                        if va is not None and va[0] == "mcall" and va[1] in ("copy", "__copy__") and isinstance(idx, tf.Poly):
                            try:
                                ok = va[2] == tf.Poly.atom(("sub", tf.vkey(base), idx.key())).key()
                            except Exception:  # noqa
                                ok = False
                        by_node.setdefault(id(e.node), []).append(ok)
                self._copy_store_ids = {k for k, v in by_node.items() if v and all(v)}
            except Exception:  # noqa  (not interpretable: nothing is exempted)
                self._copy_store_ids = set()
        return self._copy_store_ids

    def _is_payload_local(self, name):
        """A local bound (only) by a TreeNode(...) construction."""
        vals = []
        for n in walk_no_nested(self.fi.node):
            if isinstance(n, ast.Assign):
                for t in n.targets:
                    if isinstance(t, ast.Name) and t.id == name:
                        vals.append(n.value)
        return bool(vals) and all(isinstance(v, ast.Call) and last_name(v) == self.fx.payload_cls.name for v in vals)

    def _other_class_local(self, e):
        """`e` is a local bound only by constructions of a repository class other than the payload class, or
        `self` inside such a class."""
        prog = self.fx.prog if hasattr(self.fx, "prog") else None
        if not isinstance(e, ast.Name) or prog is None:
            return False
        if e.id == "self" and self.fi.cls is not None and self.fi.cls is not self.fx.payload_cls:
            return self.fi.node.args.args and self.fi.node.args.args[0].arg == "self"
        vals = []
        for n in walk_no_nested(self.fi.node):
            if isinstance(n, ast.Assign):
                for t in n.targets:
                    if isinstance(t, ast.Name) and t.id == e.id:
                        vals.append(n.value)
        if not vals:
            return False
        for v in vals:
            if not (isinstance(v, ast.Call) and isinstance(v.func, ast.Name)):
                return False
            ci = prog.resolve_class(v.func.id, self.fi.module)
            if ci is None or ci is self.fx.payload_cls:
                return False
        return True

    def graph_owner(self, e):
        if isinstance(e, ast.Attribute) and e.attr == "_graph" and isinstance(e.value, ast.Name):
            return e.value.id
        if isinstance(e, ast.Name) and e.id in self.graph_alias:
            return self.graph_alias[e.id]
        return None

    def payload_owner(self, e):
        if isinstance(e, ast.Subscript):
            return self.graph_owner(e.value)
        if isinstance(e, ast.Call) and isinstance(e.func, ast.Attribute) and isinstance(e.func.value, ast.Name) and e.func.attr in getattr(self.fx, "tree_methods", {}):
            # `tree._payload_of(node)`: a Tree method every return of which hands out a payload of its own graph
            h = self.fx.tree_methods[e.func.attr]
            me = self.fx.self_name(h)
            rets = [r for r in walk_no_nested(h.node) if isinstance(r, ast.Return)]
            if me is not None and rets and h is not self.fi:
                hf = self.fx.fn(h)
                if all(r.value is not None and isinstance(r.value, ast.Subscript) and hf.graph_owner(r.value.value) == me for r in rets):
                    return e.func.value.id
        if isinstance(e, ast.Name) and e.id in self.payload_alias:
            return self.payload_alias[e.id]
        return None

    # ------------------------------------------------------------------ events
    def events_of(self, step):
        key = (id(step.node), step.kind)
        if key not in self._cache:
            evs = []
            for root in step_exprs(step):
                evs.extend(self._events(root))
            self._cache[key] = evs
        return self._cache[key]

    def all_events(self):
        out = []
        for n in walk_no_nested(self.fi.node):
            if isinstance(n, (ast.stmt,)) and not isinstance(n, (ast.If, ast.For, ast.While, ast.With, ast.Try, ast.FunctionDef, ast.AsyncFunctionDef, ast.ClassDef)):
                out.extend(self._events(n))
            elif isinstance(n, (ast.If, ast.While)):
                out.extend(self._events(n.test))
            elif isinstance(n, ast.For):
                out.extend(self._events(n.iter))
            elif isinstance(n, ast.With):
                for it in n.items:
                    out.extend(self._events(it.context_expr))
        return out

    def _events(self, root):
        fx = self.fx
        fi = self.fi
        in_payload_cls = fi.cls is fx.payload_cls
        evs = []
        nodes = sorted((n for n in walk_no_nested(root) if hasattr(n, "lineno")), key=lambda n: (n.lineno, n.col_offset))
        for n in nodes:
            if isinstance(n, ast.Call) and isinstance(n.func, ast.Attribute):
                ln = n.func.attr
                recv = n.func.value
                if ln in PAYLOAD_MUT:
                    if in_payload_cls and isinstance(recv, ast.Name) and recv.id == "self":
                        continue
                    o = self.payload_owner(recv)
                    if o is None and self._other_class_local(recv):
                        continue  # a method of the same name on an object of another repository class
                    if o is None and isinstance(recv, ast.Name) and self._is_payload_local(recv.id) and self.fx.prog.is_new_function(fi):
                        continue  # a payload built here and not yet in any tree (a helper newer than the rules that fills a graph it is handed)
                    if o is None:
                        raise AnalysisError("%s: cannot tell which tree owns the payload in %s" % (fi.qualname, u(n)))
                    evs.append(Ev("LW", o, n, "payload " + ln))
                elif ln in GRAPH_MUT:
                    o = self.graph_owner(recv)
                    if o is not None:
                        evs.append(Ev("LW", o, n, "graph " + ln))
                elif ln in REFRESH:
                    if not isinstance(recv, ast.Name) or (ln == "update" and (n.args or n.keywords)):
                        continue  # dict.update(x), super().__init__(…): not a refresh of a tree held by a name
                    evs.append(Ev("RF", recv.id, n, ln))
                elif ln in fx.tree_methods:
                    callee = fx.tree_methods[ln]
                    cond = fx.dirty(callee)
                    if cond:
                        if not isinstance(recv, ast.Name):
                            raise AnalysisError("%s: call of %s (leaves stale values) on a receiver that is not a plain name: %s" % (fi.qualname, callee.qualname, u(n)))
                        if fx.feasible(cond, n, callee):
                            evs.append(Ev("LW", recv.id, n, "call of " + callee.name + " (leaves the refresh to its caller)", via=callee))
                    elif isinstance(recv, ast.Name) and fx.refresh_wrapper(callee):
                        evs.append(Ev("RF", recv.id, n, "refresh wrapper " + callee.name))
            if isinstance(n, (ast.Assign, ast.AugAssign, ast.AnnAssign, ast.Delete)):
                if isinstance(n, ast.Assign):
                    tgs, val = n.targets, n.value
                elif isinstance(n, ast.Delete):
                    tgs, val = n.targets, None
                else:
                    tgs, val = [n.target], n.value
                flat = []
                for t in tgs:
                    flat.extend(t.elts if isinstance(t, (ast.Tuple, ast.List)) else [t])
                for t in flat:
                    if isinstance(t, ast.Subscript):
                        o = self.graph_owner(t.value)
                        if o is not None:
                            if isinstance(n, ast.Assign) and len(flat) == 1 and is_copy_of_same_slot(t, val):
                                continue
                            if isinstance(n, ast.Assign) and len(flat) == 1 and id(t) in self._copy_stores():
                                continue  # the same, spelt through locals: decided on the stored term
                            evs.append(Ev("LW", o, n, "payload replacement"))
                    elif isinstance(t, ast.Attribute) and t.attr in PAYLOAD_VALUE_ATTRS and not in_payload_cls:
                        o = self.payload_owner(t.value)
                        if o is None:
                            if fi.cls is fx.tree_cls:
                                raise AnalysisError("%s: store to .%s of an object whose tree is unknown: %s" % (fi.qualname, t.attr, u(n)))
                            continue  # scalar densities of particles / holders carry the same attribute names
                        evs.append(Ev("LW", o, n, "store to ." + t.attr))
                    elif isinstance(t, ast.Attribute) and t.attr == "_graph" and isinstance(t.value, ast.Name):
                        if not _fresh_or_copied_graph(val):
                            evs.append(Ev("LW", t.value.id, n, "graph installed from " + (u(val) if val is not None else "?")))
        return evs

    def lw_objects(self):
        out = []
        for e in self.all_events():
            if e.kind == "LW" and e.obj not in out:
                out.append(e.obj)
        return out


def _fresh_or_copied_graph(v):
    if v is None:
        return False
    if isinstance(v, ast.Name):
        return True  # alias: mutations through the alias are tracked as events
    if isinstance(v, ast.Call):
        f = v.func
        if last_name(v) == "PyDiGraph":
            return True
        if isinstance(f, ast.Attribute) and f.attr == "copy" and not v.args and isinstance(f.value, ast.Attribute) and f.value.attr == "_graph":
            return True
    return False


class TreeFx:
    """Effect summaries of the Tree class (program-wide)."""

    def __init__(self, prog, tree_cls="tree.tree.Tree", payload_cls="tree.tree_node.TreeNode"):
        self.prog = prog
        self.tree_cls = prog.cls(tree_cls)
        self.payload_cls = prog.cls(payload_cls)
        self.tree_methods = dict(self.tree_cls.methods)
        self._fn = {}
        self._dirty = {}
        self._wrap = {}

    def fn(self, fi):
        if fi.qualname not in self._fn:
            self._fn[fi.qualname] = FnFx(self, fi)
        return self._fn[fi.qualname]

    @staticmethod
    def self_name(fi):
        if fi.cls is None:
            return None
        decos = fi.decorators
        if "staticmethod" in decos or "classmethod" in decos:
            return None
        a = fi.node.args
        pos = a.posonlyargs + a.args
        return pos[0].arg if pos else None

    # ------------------------------------------------------------------ must-follow with all offending paths
    def offending(self, fi, obj):
        """[(lw_event, path_steps, constraints)] for LW(obj) events not followed by RF(obj) on a path that
        reaches a normal exit.  All offending paths are returned (a call is exempt only if all are infeasible)."""
        fn = self.fn(fi)
        out = []
        params = set(fi.params)
        stored = {n.id for n in walk_no_nested(fi.node) if isinstance(n, ast.Name) and isinstance(n.ctx, (ast.Store, ast.Del))}
        for steps, oc in enumerate_paths(fi.node.body):
            if oc not in ("fall", "return"):
                continue
            per = [fn.events_of(s) for s in steps]
            for i, evs in enumerate(per):
                for k, e in enumerate(evs):
                    if e.kind != "LW" or e.obj != obj:
                        continue
                    later = any(x.kind == "RF" and x.obj == obj for x in evs[k + 1:]) or any(
                        x.kind == "RF" and x.obj == obj for ev2 in per[i + 1:] for x in ev2
                    )
                    if not later:
                        cons = _constraints(steps, params - stored)
                        if cons is not None:
                            out.append((e, steps, cons))
        return out

    def dirty(self, fi):
        q = fi.qualname
        if q in self._dirty:
            return self._dirty[q]
        self._dirty[q] = []  # provisional (recursion): assume clean
        me = self.self_name(fi)
        res = []
        if me is not None:
            seen = set()
            for e, steps, cons in self.offending(fi, me):
                key = tuple(sorted(cons.items()))
                if key not in seen:
                    seen.add(key)
                    res.append(cons)
        self._dirty[q] = res
        return res

    def refresh_wrapper(self, fi):
        q = fi.qualname
        if q in self._wrap:
            return self._wrap[q]
        self._wrap[q] = False
        me = self.self_name(fi)
        ok = False
        if me is not None and fi.name not in REFRESH:
            fn = self.fn(fi)
            evs = fn.all_events()
            if evs and not any(e.kind == "LW" for e in evs):
                ok = True
                n = 0
                for steps, oc in enumerate_paths(fi.node.body):
                    if oc not in ("fall", "return"):
                        continue
                    n += 1
                    if not any(x.kind == "RF" and x.obj == me for s in steps for x in fn.events_of(s)):
                        ok = False
                ok = ok and n > 0
        self._wrap[q] = ok
        return ok

    def feasible(self, conds, call, callee):
        """Is some offending path of `callee` feasible for the constant arguments of `call`?"""
        a = callee.node.args
        pos = [x.arg for x in a.posonlyargs + a.args]
        if self.self_name(callee) is not None:
            pos = pos[1:]
        defaults = {}
        allpos = a.posonlyargs + a.args
        for p, d in zip(allpos[len(allpos) - len(a.defaults):], a.defaults):
            defaults[p.arg] = d
        given = {}
        for i, x in enumerate(call.args):
            if isinstance(x, ast.Starred):
                return True
            if i < len(pos):
                given[pos[i]] = x
        for k in call.keywords:
            if k.arg is None:
                return True
            given[k.arg] = k.value
        for cons in conds:
            ok = True
            for p, need in cons.items():
                e = given.get(p, defaults.get(p))
                if isinstance(e, ast.Constant) and bool(e.value) != need:
                    ok = False
                    break
            if ok:
                return True
        return False

    def call_sites(self, name):
        """Every `<x>.name(…)` call in the program: [(FunctionInfo, call)], plus non-call references."""
        sites, refs = [], []
        for fi in self.prog.functions.values():
            if fi.parent is not None:
                continue
            called = set()
            for n in walk_no_nested(fi.node):
                if isinstance(n, ast.Call) and isinstance(n.func, ast.Attribute) and n.func.attr == name:
                    sites.append((fi, n))
                    called.add(id(n.func))
            for n in walk_no_nested(fi.node):
                if isinstance(n, ast.Attribute) and n.attr == name and id(n) not in called:
                    refs.append((fi, n))
        return sites, refs


def _constraints(steps, plain_params):
    cons = {}
    for s in steps:
        if s.kind != "test":
            continue
        t, pol = s.node, bool(s.taken)
        if isinstance(t, ast.UnaryOp) and isinstance(t.op, ast.Not):
            t, pol = t.operand, not pol
        if isinstance(t, ast.Name) and t.id in plain_params:
            if cons.get(t.id, pol) != pol:
                return None  # contradictory tests of one parameter: not a path
            cons[t.id] = pol
    return cons


# --------------------------------------------------------------------------- TermFlow helpers
def unver(k):
    """Strip TermFlow's object-version wrappers from a key: `x«m(args)»` (object after an opaque call made
    for its effect) and `x«.a=v»` (object after a property store) both denote the object x for rules
    that only ask *which* object an event is about."""
    from .termflow import Poly, _is_polykey, key_atom, poly_from_key

    if not isinstance(k, tuple):
        return k
    if _is_polykey(k):
        terms = {}
        for mono, coef in k[1:]:
            m2 = tuple(sorted(((unver(a), p) for a, p in mono), key=repr))
            terms[m2] = terms.get(m2, 0) + coef
        return Poly(terms).key()
    if k and k[0] == "upd" and len(k) >= 3:
        b = key_atom(unver(k[2]))
        if b is not None:
            return b
    if k and k[0] == "after" and len(k) >= 2:
        b = key_atom(unver(k[1]))
        if b is not None:
            return b
    return tuple(unver(x) for x in k)


def unver_value(v):
    """Abstract value with version wrappers stripped (Poly / ATuple / AList / ADict / guard keys)."""
    from .termflow import ADict, AList, ATuple, Poly, poly_from_key

    if isinstance(v, Poly):
        return poly_from_key(unver(v.key()))
    if isinstance(v, ATuple):
        return ATuple([unver_value(x) for x in v.items])
    if isinstance(v, AList):
        return AList([unver_value(x) for x in v.items], [unver(d) for d in v.doms])
    if isinstance(v, ADict):
        d = ADict(doms=[unver(x) for x in v.doms])
        for kk, (kv, vv) in v.items.items():
            kv2 = unver_value(kv)
            from .termflow import vkey

            d.items[vkey(kv2)] = (kv2, unver_value(vv))
        return d
    if isinstance(v, tuple):
        return unver(v)
    return v


def plain_events(events):
    """Copies of TermFlow events with version wrappers stripped from receiver, arguments and guards."""
    from .termflow import Event

    out = []
    for e in events:
        kw = {k: (unver_value(x) if k != "attr" else x) for k, x in e.kwargs.items()}
        out.append(Event(e.name, [unver_value(a) for a in e.args], kw, [unver(g) for g in e.guards], e.node, recv=unver_value(e.recv) if e.recv is not None else None))
    return out
