"""Glue between TermFlow and the rules: extract a term, read a spec, compare, report."""
import os
import ast

from .model import AnalysisError, FunctionInfo
from .termflow import (
    ADict,
    AList,
    ATuple,
    Interp,
    Poly,
    Unsupported,
    equivalent,
    show,
    show_key,
    vkey,
)


class Extract:
    def __init__(self, result, state, events, fi, interp):
        self.result = result
        self.state = state
        self.events = events
        self.fi = fi
        self.interp = interp
        self.paths = list(getattr(interp, "paths", []))  # [(guards, returned value)] of the top-level function

    def stores(self, attr=None):
        """Final values of attribute stores {(basekey, attr): value}."""
        out = {}
        for k, v in self.state.env.items():
            if isinstance(k, tuple) and k[0] == "@attr" and (attr is None or k[2] == attr):
                out[(k[1], k[2])] = v
        return out

    def store(self, attr):
        s = self.stores(attr)
        if len(s) != 1:
            raise AnalysisError("expected exactly one store to .%s in %s, found %d" % (attr, self.fi.qualname, len(s)))
        return next(iter(s.values()))

    def sub_stores(self):
        out = {}
        for k, v in self.state.env.items():
            if isinstance(k, tuple) and k[0] == "@sub":
                out[(k[1], k[2])] = v
        return out

    def local(self, name):
        if name not in self.state.env:
            raise AnalysisError("local %s not bound at exit of %s" % (name, self.fi.qualname))
        return self.state.env[name]

    def calls(self, name):
        """Events of uninterpreted calls; `name` is a function name or '.method'."""
        return [e for e in self.events if e.name == name]


def extract(prog, fn, args=None, kwargs=None, **opts):
    fi = prog.fn(fn) if isinstance(fn, str) else fn
    interp = Interp(prog, **opts)
    try:
        res, st = interp.run(fi, args=args, kwargs=kwargs)
    except RecursionError:
        raise AnalysisError("recursion limit while interpreting %s" % fi.qualname)
    return Extract(res, st, interp.events, fi, interp)


def spec(prog, source, like, args=None, kwargs=None, **opts):
    """Interpret a specification function (Python source in the same term language) in the module /
    class context of `like` (a FunctionInfo or function-name suffix)."""
    like_fi = prog.fn(like) if isinstance(like, str) else like
    tree = ast.parse(_dedent(source))
    node = tree.body[0]
    if not isinstance(node, ast.FunctionDef):
        raise AnalysisError("spec must be one function definition")
    fi = FunctionInfo("spec:" + node.name, node, like_fi.module, cls=like_fi.cls)
    interp = Interp(prog, **opts)
    res, st = interp.run(fi, args=args, kwargs=kwargs)
    return Extract(res, st, interp.events, fi, interp)


def _dedent(src):
    import textwrap

    return textwrap.dedent(src).strip("\n") + "\n"


def same(ctx, rule, instance, fi, got, want, what, stmt=None, node=None):
    """Obligation: term `got` (from the code) equals term `want` (from the spec / a sibling)."""
    try:
        eq, how, wit = equivalent(got, want)
    except Unsupported as e:
        raise AnalysisError("%s / %s: %s" % (rule, instance, e))
    where = fi.where(node) if node is not None else fi.where()
    if eq:
        ctx.ok(rule, instance, where, "%s: %s [%s]" % (what, _clip(show(got)), how))
        ctx.sample({"rule": rule, "instance": instance, "term": _clip(show(got), 400), "decided_by": how})
        return True
    undecided(ctx, rule, instance, [got], [want])
    if os.environ.get("PCSTATIC_DEBUG_TERMS"):
        import pprint
        with open(os.environ["PCSTATIC_DEBUG_TERMS"], "a") as fh:
            from .debug import report
            fh.write("==== %s / %s\n-- witness %s\n%s\n" % (rule, instance, wit, report(got, want, (wit or {}).get("trial", 0))))
        if os.environ.get("PCSTATIC_DEBUG_PICKLE"):
            import pickle
            with open(os.environ["PCSTATIC_DEBUG_PICKLE"], "ab") as fh:
                pickle.dump((rule, instance, vkey(got), vkey(want), wit), fh)
    ctx.fail(
        rule,
        instance,
        where,
        "%s differs from the specification: code gives %s ; spec gives %s" % (what, _clip(show(got), 600), _clip(show(want), 600)),
        construct=fi.qualname,
        stmt=stmt if stmt is not None else what,
    )
    return False


def unresolved_new_names(ctx, things):
    """Names of repository functions / classes *newer than the rules* that survive as uninterpreted calls in the code's
    terms or events (the interpreter looks into such helpers, so a survivor means it hit recursion or its depth bound)."""
    prog = ctx.prog
    short = {}
    for fi in prog.functions.values():
        short.setdefault(fi.name, []).append(fi)
    out = set()

    def look(name):
        n = name[4:] if name.startswith("new:") else name
        n = n.lstrip(".").split(".")[-1]
        if name.startswith("new:"):
            for ci in prog.classes.values():
                if ci.name == n and prog.is_new_class(ci):
                    out.add(n)
            return
        if n in short and all(prog.is_new_function(f) for f in short[n]):
            out.add(n)

    def scan(v):
        if v is None:
            return
        for a in atoms_of(v):
            if a[0] in ("call", "mcall", "upd") and len(a) > 1 and isinstance(a[1], str):
                look(a[1])
            elif a[0] == "obj":
                out.add(str(a[1]).split(".")[-1])
            elif a[0] == "g" and len(a) == 2 and isinstance(a[1], str) and prog.is_new_global(a[1]):
                out.add(a[1].split(".")[-1])  # a module-level table newer than the rules that the interpreter could not evaluate

    for t in things:
        if hasattr(t, "args") and hasattr(t, "name"):  # an Event
            look(t.name)
            for a in list(t.args) + list(t.kwargs.values()) + ([t.recv] if t.recv is not None else []) + list(getattr(t, "guards", []) or []):
                try:
                    scan(a)
                except Exception:  # noqa
                    pass
        else:
            try:
                scan(t)
            except Exception:  # noqa
                pass
    return sorted(out)


# iteration / call plumbing of the standard library that the interpreter does not model (where it does — islice, reduce
# over a concrete sequence, repeat, chain — no such atom is left in the term).  These do not compute values of their
# own; a term that still contains one is a re-expression the comparison cannot see through.
PLUMBING = (
    "next", "iter", "map", "filter", "functools.reduce", "reduce", "functools.partial", "partial",
    "itertools.count", "itertools.chain", "itertools.chain.from_iterable", "itertools.repeat", "itertools.islice", "itertools.starmap",
    "itertools.zip_longest", "itertools.tee", "itertools.cycle",
)
# (not: Counter, groupby, accumulate, takewhile ... — those compute or select values; a term that differs through them differs)
PLUMBING_PREFIXES = ("operator.",)



def _plumbing_names(things):
    out = set()

    def look(name):
        n = name.lstrip(".")
        if n in PLUMBING or n.startswith(PLUMBING_PREFIXES):
            out.add(n)

    def scan(v):
        if v is None:
            return
        for a in atoms_of(v):
            if a[0] in ("call", "mcall") and len(a) > 1 and isinstance(a[1], str):
                if a[0] == "call":
                    look(a[1])
            elif a[0] == "g" and len(a) > 1 and isinstance(a[1], str):
                look(a[1])

    for t in things:
        try:
            if hasattr(t, "args") and hasattr(t, "name"):
                if not t.name.startswith("."):
                    look(t.name)

                for a in list(t.args) + list(t.kwargs.values()) + ([t.recv] if t.recv is not None else []):
                    scan(a)
            else:
                scan(t)
        except Exception:  # noqa
            pass
    return out


def undecided(ctx, rule, instance, things, reference=()):
    """A comparison failed, but the code's side still goes through helpers the rules cannot know and the interpreter
    could not look into, or through library plumbing (next, itertools.count, functools.partial ...) that the reference
    does not use and the interpreter does not model: that is not a violation established, it is an analysis that
    cannot proceed."""
    names = unresolved_new_names(ctx, things)
    if names:
        raise AnalysisError("%s / %s: cannot decide — the code goes through %s (newer than the rules; recursion or nesting beyond the interpreter's bound)" % (rule, instance, ", ".join(names)))
    extra = sorted(_plumbing_names(things) - _plumbing_names(reference))
    if extra:
        raise AnalysisError("%s / %s: cannot decide — the code is re-expressed through %s, which the interpreter does not model" % (rule, instance, ", ".join(extra)))


def _clip(s, n=240):
    return s if len(s) <= n else s[: n - 1] + "…"


def atoms_of(v, tag=None, name=None):
    """All atoms (recursively, through keys) of an abstract value, optionally filtered."""
    out = []
    seen = set()

    def walk_key(k):
        if not isinstance(k, tuple):
            return
        if id(k) in seen:
            return
        seen.add(id(k))
        if k and isinstance(k[0], str):
            if (tag is None or k[0] == tag) and (name is None or (len(k) > 1 and k[1] == name)):
                out.append(k)
            for x in k[1:]:
                walk_key(x)
        else:
            for x in k:
                walk_key(x)

    walk_key(vkey(v) if not isinstance(v, tuple) else v)
    return out


def contains_key(v, sub):
    """Does the key `sub` occur anywhere inside abstract value / key `v`?"""
    k = vkey(v) if not isinstance(v, tuple) else v

    def rec(x):
        if x == sub:
            return True
        if isinstance(x, tuple):
            return any(rec(y) for y in x)
        return False

    return rec(k)


def same_events(ctx, rule, instance, fi, got, want, what, skip_args=(), guards=False):
    """Obligation: the sequence of uninterpreted calls `got` (code) equals `want` (spec): same callee,
    same receiver, equal argument terms position by position.  `skip_args` lists argument positions
    that are recorded but not compared."""
    def sig(ev):
        return "%s(%s)" % (ev.name, ", ".join(show(a) for a in ev.args) + "".join(", %s=%s" % (k, show(v)) for k, v in ev.kwargs.items()))

    def fail(why):
        # position-by-position comparison presumes that both sides list their paths in the same order.  Before
        # reporting, compare what matters: in every guard scenario the *sequence* of active calls (callee,
        # receiver, arguments by value).  Swapped if/else arms, early returns and merged paths pass; a dropped,
        # added, re-conditioned or re-ordered call, or a changed argument, does not.
        if _same_sequences(got, want, skip_args):
            ctx.ok(rule, instance, fi.where(), "%s: %d call(s) agree with the specification scenario by scenario (paths listed in a different order)" % (what, len(got)))
            return True
        undecided(ctx, rule, instance, list(got), list(want))
        ctx.fail(rule, instance, fi.where(), "%s: %s; code: %s ; spec: %s" % (what, why, _clip(" | ".join(sig(e) for e in got), 700), _clip(" | ".join(sig(e) for e in want), 700)), construct=fi.qualname, stmt=what)
        return False

    if len(got) != len(want):
        return fail("%d call(s) in the code, %d in the specification" % (len(got), len(want)))
    for i, (g, w) in enumerate(zip(got, want)):
        if g.name != w.name or len(g.args) != len(w.args) or sorted(g.kwargs) != sorted(w.kwargs):
            return fail("call %d differs in callee/arity" % i)
        pairs = [(j, a, b) for j, (a, b) in enumerate(zip(g.args, w.args)) if j not in skip_args]
        pairs += [(k, g.kwargs[k], w.kwargs[k]) for k in sorted(g.kwargs)]
        if g.recv is not None or w.recv is not None:
            if g.recv is None or w.recv is None:
                return fail("call %d differs in receiver" % i)
            pairs.append(("receiver", g.recv, w.recv))
        if guards:
            from .termflow import TRUE, Poly, g_and

            def cond(ev):
                c = g_and(ev.guards)
                return Poly.const(1) if c == TRUE else Poly.atom(c)

            pairs.append(("condition under which it happens", cond(g), cond(w)))
        for j, a, b in pairs:
            a, b = _whole_collection(a), _whole_collection(b)
            try:
                eq, how, wit = equivalent(a, b)
            except Unsupported as e:
                raise AnalysisError("%s / %s: %s" % (rule, instance, e))
            if not eq:
                return fail("call %d (%s) argument %s: code %s, spec %s" % (i, g.name, j, _clip(show(a)), _clip(show(b))))
    ctx.ok(rule, instance, fi.where(), "%s: %d call(s) agree with the specification: %s" % (what, len(got), _clip(" | ".join(sig(e) for e in got), 300)))
    ctx.sample({"rule": rule, "instance": instance, "calls": [sig(e) for e in got][:6]})
    return True


def _whole_collection(v):
    """A list that names every element of one collection D, once each and in D's order (`[x for x in D]`, `list(D)`,
    the keys of a mapping listed one by one) is, as an argument that is read, D itself (value semantics: a copy is
    what it copies; iterating a mapping yields its keys)."""
    from .termflow import AList, K_ELEMS, key_atom, poly_from_key, _is_polykey

    if isinstance(v, AList) and len(getattr(v, "doms", None) or []) == 1 and len(v.items) == K_ELEMS and _is_polykey(v.doms[0]):
        dom = v.doms[0]
        da = key_atom(dom)
        if da is not None and da[0] == "mcall" and da[1] in ("items", "keys") and not da[3] and not da[4] and _is_polykey(da[2]):
            dom = da[2]  # the keys of M, listed while walking M.items() / M.keys()
        for i, x in enumerate(v.items):
            a = x.as_atom() if hasattr(x, "as_atom") else None
            if a is None or a[0] not in ("elem", "elemk") or len(a) != 3 or a[1] != dom or a[2] != i:
                return v
        return poly_from_key(dom)
    return v


def _vacuous(val, e):
    """An event that mentions a pseudo-element of a domain D does not happen in a scenario where D is empty
    (the valuation makes `len(D) == 0` true): a loop over an empty sequence has no iterations.  Only the parts of
    the event's terms that are selected in this scenario count (the unselected arm of a conditional value may
    mention other domains)."""
    from .termflow import Poly, g_cmp, _is_polykey

    doms = set()
    seen = set()

    def walk(k, depth=0):
        if not isinstance(k, tuple) or depth > 60 or id(k) in seen:
            return
        seen.add(id(k))
        if k and isinstance(k[0], str):
            if k[0] == "cond" and len(k) == 2:
                for g, v in k[1]:
                    try:
                        if val.truth(g):
                            walk(v, depth + 1)
                            return
                    except Exception:  # noqa: BLE001
                        break
                return
            if k[0] == "elem" and len(k) == 3 and isinstance(k[1], tuple):
                doms.add(k[1])
            for x in k[1:]:
                walk(x, depth + 1)
        else:
            for x in k:
                walk(x, depth + 1)

    for v in list(e.args) + list(e.kwargs.values()) + ([e.recv] if e.recv is not None else []):
        try:
            walk(vkey(v))
        except Exception:  # noqa: BLE001
            pass
    for d in doms:
        try:
            dk = d if _is_polykey(d) else Poly.atom(d).key()
            if val.truth(g_cmp("==", Poly.atom(("call", "len", (dk,), ())), Poly.const(0))):
                return True
        except Exception:  # noqa: BLE001
            continue
    return False


def _same_sequences(got, want, skip_args=(), trials=48):
    """In every guard scenario (a congruent random truth assignment of all guards), the sequences of active
    events agree by callee, receiver and argument images."""
    from .termflow import Valuation

    def sig(val, e, whole=False):
        def img(v):
            if whole:
                v = _whole_collection(v)
            try:
                return repr(val.image(vkey(v)))
            except (ValueError, OverflowError, ZeroDivisionError):
                return "<undefined>"
        return (e.name, tuple(img(a) for j, a in enumerate(e.args) if j not in skip_args), tuple(sorted((k, img(v)) for k, v in e.kwargs.items())), img(e.recv) if e.recv is not None else None)

    try:
        for t in range(trials):
            agreed = False
            for attempt in range(3):
                val = Valuation(t, salt="s%d" % attempt, base=None if attempt == 0 else Valuation(t, salt="s0"))

                def active(evs, whole=False):
                    out = []
                    for e in evs:
                        try:
                            on = all(val.truth(g) for g in e.full_guards)
                        except (ValueError, OverflowError, ZeroDivisionError):
                            on = True
                        if on and not _vacuous(val, e):
                            out.append(sig(val, e, whole))
                    return out

                # (arguments as they are; or with a list that names every element of one collection read as that collection)
                if active(got) == active(want) or active(got, True) == active(want, True):
                    agreed = True
                    break
            if not agreed:
                return False
        return True
    except Unsupported:
        return False


def same_store(ctx, rule, instance, fi, ex, sp, attr):
    """Obligation: the value the code finally stores to `.attr` equals the specification's.  A missing
    (or ambiguous) store in the code is a violation of the rule, not an analysis error."""
    want = sp.stores(attr)
    if len(want) != 1:
        raise AnalysisError("specification of %s does not store .%s exactly once" % (fi.qualname, attr))
    got = ex.stores(attr)
    if len(got) != 1:
        ctx.fail(rule, instance, fi.where(), "%s stores .%s %d time(s) on distinct objects; the specification stores it once: %s" % (fi.qualname, attr, len(got), _clip(show(next(iter(want.values()))))), construct=fi.qualname, stmt="store ." + attr)
        return False
    return same(ctx, rule, instance, fi, next(iter(got.values())), next(iter(want.values())), "." + attr)


def imported(ctx, rule_fn, *args):
    """Run a rule that belongs to a sibling property as a shared premise of this one.  If the sibling's
    analysis cannot proceed on this tree, that is the sibling check's ANALYSIS-ERROR to report, not this
    one's: it is recorded as a note here."""
    try:
        rule_fn(ctx, *args)
        # the vacuity guard of an imported rule is the sibling's business (its instance count depends on the
        # scope the importer asked for)
        if getattr(ctx, "_own_rules", None) is not None:
            for r in list(ctx.rule_min):
                if r not in ctx._own_rules:
                    ctx.rule_min[r] = min(ctx.rule_min[r], 1)
    except AnalysisError as e:
        ctx.note("imported premise %s.%s not analysable on this tree: %s" % (rule_fn.__module__.split(".")[-1], rule_fn.__name__, str(e)[:200]))
        # a necessary condition of this property that cannot be analysed leaves the property undecided here too: with no
        # violation established by the other rules the check answers ANALYSIS-ERROR, not "held" (the sibling that owns
        # the rule reports the same error under its own id)
        if not hasattr(ctx, "deferred"):
            ctx.deferred = []
        ctx.deferred.append(AnalysisError("premise %s.%s cannot be analysed on this tree: %s" % (rule_fn.__module__.split(".")[-1], rule_fn.__name__, str(e)[:300])))
        # the vacuity guard of an imported rule is the sibling's business
        for r in list(ctx.rule_min):
            if sum(1 for o in ctx.obligations if o["rule"] == r) < ctx.rule_min[r] and getattr(ctx, "_own_rules", None) is not None and r not in ctx._own_rules:
                ctx.rule_min[r] = 0


def effects_agree(got, want, ordered=False, trials=48):
    """(agree?, (only in the code, only in the reference)) — the comparison behind same_effects, without reporting."""
    from .termflow import Valuation, _round

    def sig(val, e):
        def img(v):
            try:
                return repr(val.image(vkey(v)))
            except (ValueError, OverflowError, ZeroDivisionError):
                return "<undefined>"
        return (e.name, tuple(img(a) for a in e.args), tuple(sorted((k, img(v)) for k, v in e.kwargs.items())), img(e.recv) if e.recv is not None else None)

    def text(e):
        return "%s%s(%s)" % ((show(e.recv)[:60] if e.recv is not None else ""), e.name, ", ".join(_clip(show(a), 80) for a in e.args) + "".join(", %s=%s" % (k, _clip(show(v), 60)) for k, v in e.kwargs.items()))

    witness = None
    for t in range(trials):
        verdicts = []
        for attempt in range(3):
            val = Valuation(t, salt="s%d" % attempt, base=None if attempt == 0 else Valuation(t, salt="s0"))

            def active(evs):
                out = []
                for e in evs:
                    try:
                        on = all(val.truth(g) for g in e.full_guards)
                    except (ValueError, OverflowError, ZeroDivisionError):
                        on = True
                    if on and not _vacuous(val, e):
                        out.append((sig(val, e), e))
                return out

            a, b = active(got), active(want)
            ka, kb = [x[0] for x in a], [x[0] for x in b]
            if not ordered:
                ka, kb = sorted(ka, key=repr), sorted(kb, key=repr)
            ok = ka == kb
            verdicts.append(ok)
            if ok:
                break
            if witness is None:
                only_code = [text(e) for s_, e in a if s_ not in kb]
                only_ref = [text(e) for s_, e in b if s_ not in ka]
                witness = (only_code, only_ref)
        if not any(verdicts):
            return False, witness
    return True, None


def same_effects(ctx, rule, instance, fi, got, want, what, ordered=False, trials=48):
    """Obligation: under every guard scenario the code performs the same effects as the reference — the
    (multi)set of uninterpreted calls / stores that are *active* (all guards of their path true), compared
    by callee, receiver and argument values under random interpretation.  Insensitive to how paths fork, to
    helper extraction (callee events carry their callers' guards) and, unless `ordered`, to the order of
    independent effects."""
    ok, witness = effects_agree(got, want, ordered=ordered, trials=trials)
    if not ok:
        only_code, only_ref = witness
        undecided(ctx, rule, instance, list(got), list(want))
        ctx.fail(rule, instance, fi.where(), "%s: in some guard scenario the code performs %s which the reference does not, and lacks %s" % (what, only_code[:4] or "nothing extra", only_ref[:4] or "nothing"), construct=fi.qualname, stmt=what)
        return False
    ctx.ok(rule, instance, fi.where(), "%s: %d effect site(s) agree with the reference in %d guard scenarios" % (what, len(got), trials))
    return True
