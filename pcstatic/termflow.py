"""TermFlow: formula extraction by abstract interpretation of function bodies over symbolic terms.

The value that flows to a sink (a return, an attribute store, a call argument) is rebuilt as a
term over uninterpreted atoms (parameters, attribute reads, calls to primitives) by substituting
reaching definitions, inlining repository helpers, if-converting branches into guarded
alternatives and unrolling loops over K pseudo-elements of their (symbolic) domain.  Terms are kept
in a polynomial normal form (rational coefficients over atoms), which makes the comparison blind to
renaming, statement splitting/merging, commutativity, associativity, distribution and sign folding.

Equality of two terms is decided (1) by identity of normal forms, else (2) by *random
interpretation* (Gulwani & Necula, POPL 2003/2004): both terms are evaluated under the same
pseudo-random valuation of their atoms and the same pseudo-random truth assignment of their
guards, with log/exp/log1p/lgamma interpreted; terms that agree on every trial are equal with
overwhelming probability, terms that differ on one are different.  This evaluates the *extracted
formulas*, never the repository's code, inputs or paths; no solver is involved.
"""
import ast
import hashlib
import math
from fractions import Fraction

from .model import AnalysisError


class Unsupported(AnalysisError):
    """A construct the extractor does not understand: reported as ANALYSIS-ERROR, never a guess."""


# --------------------------------------------------------------------------- terms
def _k(x):
    return repr(x)


class Poly:
    """Polynomial with Fraction coefficients over atoms (hashable tuples)."""

    __slots__ = ("terms", "_key")

    def __init__(self, terms=None):
        self.terms = {m: c for m, c in (terms or {}).items() if c != 0}
        self._key = None

    # constructors
    @staticmethod
    def const(c):
        if isinstance(c, float):
            if c != c or c in (float("inf"), float("-inf")):
                return Poly.atom(("const", repr(c)))
            exact = Fraction(c)
            short = exact.limit_denominator(10**12) if abs(c) < 1e12 else exact
            c = short if float(short) == c else exact
        return Poly({(): Fraction(c)})

    @staticmethod
    def atom(a):
        return Poly({((a, 1),): Fraction(1)})

    def key(self):
        if self._key is None:
            self._key = ("poly",) + tuple(sorted(self.terms.items(), key=_k))
        return self._key

    def __hash__(self):
        return hash(self.key())

    def __eq__(self, other):
        return isinstance(other, Poly) and self.key() == other.key()

    def is_const(self):
        return all(m == () for m in self.terms)

    def const_value(self):
        return self.terms.get((), Fraction(0))

    def as_atom(self):
        """The atom if this polynomial is exactly one atom with coefficient 1, else None."""
        if len(self.terms) == 1:
            (m, c), = self.terms.items()
            if c == 1 and len(m) == 1 and m[0][1] == 1:
                return m[0][0]
        return None

    def __add__(self, o):
        o = to_poly(o)
        t = dict(self.terms)
        for m, c in o.terms.items():
            t[m] = t.get(m, 0) + c
        return Poly(t)

    __radd__ = __add__

    def __neg__(self):
        return Poly({m: -c for m, c in self.terms.items()})

    def __sub__(self, o):
        return self + (-to_poly(o))

    def __rsub__(self, o):
        return to_poly(o) - self

    def __mul__(self, o):
        o = to_poly(o)
        t = {}
        for m1, c1 in self.terms.items():
            for m2, c2 in o.terms.items():
                d = dict(m1)
                for a, p in m2:
                    d[a] = d.get(a, 0) + p
                m = tuple(sorted(((a, p) for a, p in d.items() if p != 0), key=_k))
                t[m] = t.get(m, 0) + c1 * c2
        return Poly(t)

    __rmul__ = __mul__

    def inverse(self):
        if len(self.terms) == 1:
            (m, c), = self.terms.items()
            if c != 0:
                return Poly({tuple((a, -p) for a, p in m): 1 / c})
        return Poly({((("p", self.key()), -1),): Fraction(1)})

    def __truediv__(self, o):
        return self * to_poly(o).inverse()

    def __rtruediv__(self, o):
        return to_poly(o) * self.inverse()

    def __pow__(self, n):
        n = to_poly(n)
        if n.is_const() and n.const_value().denominator == 1 and abs(n.const_value()) <= 8:
            k = int(n.const_value())
            r = Poly.const(1)
            base = self if k >= 0 else self.inverse()
            for _ in range(abs(k)):
                r = r * base
            return r
        return Poly.atom(("pow", self.key(), n.key()))

    def atoms(self):
        for m in self.terms:
            for a, _ in m:
                yield a

    def __repr__(self):
        return show(self)


def to_poly(x):
    if isinstance(x, Poly):
        return x
    if isinstance(x, bool):
        return Poly.atom(("const", repr(x)))
    if isinstance(x, (int, Fraction, float)):
        return Poly.const(x)
    raise Unsupported("cannot use %r as a numeric term" % (x,))


class ATuple:
    def __init__(self, items):
        self.items = list(items)

    def key(self):
        return ("tuple",) + tuple(vkey(i) for i in self.items)


_GET_TERMS = set()  # keys of d[k] terms that were written d.get(k): `... is None` on them is the membership test
_RECORD_NAMES = {}  # key of a record value -> its field names (a record that went through a conditional keeps its fields)


class ARecord(ATuple):
    """A namedtuple / dataclass instance: a tuple whose positions have names."""

    def __init__(self, items, names):
        ATuple.__init__(self, items)
        self.names = list(names)
        try:
            _RECORD_NAMES[self.key()] = list(names)
        except Exception:  # noqa
            pass


def _value_of_key(k):
    """Abstract value denoted by a key (inverse of vkey, as far as the interpreter needs it)."""
    if _is_polykey(k):
        return poly_from_key(k)
    if isinstance(k, tuple) and k and k[0] == "tuple":
        items = [_value_of_key(x) for x in k[1:]]
        names = _RECORD_NAMES.get(k)
        return ARecord(items, names) if names else ATuple(items)
    if isinstance(k, tuple) and k and k[0] == "list":
        return AList([_value_of_key(x) for x in k[1]])
    if isinstance(k, tuple) and k and k[0] == "const" and len(k) == 2 and k[1] == "None":
        return None
    return Poly.atom(k)


class AList:
    """Abstract list: known items (in order) plus the keys of symbolic domains that fed it."""

    def __init__(self, items=(), doms=()):
        self.items = list(items)
        self.doms = list(doms)

    def key(self):
        # the domains are bookkeeping (symbolic length); the items carry the pseudo-elements themselves
        return ("list", tuple(vkey(i) for i in self.items))


class ASet(AList):
    """Abstract mutable set: like a list, but its key ignores order and multiplicity, and equals the key
    of the immutable `set([...])` / `{...}` atom with the same elements."""

    def key(self):
        return ("call", "set", tuple(sorted({vkey(i) for i in self.items}, key=_k)), ())


def _set_items_distinct(v):
    """Are the abstract items of a set known to be pairwise different objects (keys of one mapping, distinct literals)?"""
    seen = set()
    for it in v.items:
        if isinstance(it, (str, int)) and not isinstance(it, bool):
            k = ("lit", it)
        elif isinstance(it, Poly) and it.is_const():
            k = ("lit", it.const_value())
        elif isinstance(it, Poly) and it.as_atom() is not None and it.as_atom()[0] in ("elemk", "idx"):
            k = it.as_atom()
        elif isinstance(it, Poly) and it.as_atom() is not None and it.as_atom()[0] == "cond" and _maybe_absent(it):
            # a filtered key: `k` when the test holds, nothing otherwise
            alts = [kk for _, kk in it.as_atom()[1]]
            keys = [key_atom(kk) for kk in alts]
            present = [a for a in keys if a != ("absent",)]
            if len(present) != 1 or present[0] is None or present[0][0] not in ("elemk", "idx"):
                return False
            k = present[0]
        else:
            return False  # computed values (and the pseudo-elements of a list, which may repeat) can coincide
        if k in seen:
            return False
        seen.add(k)
    return True


class ADict:
    def __init__(self, items=None, doms=()):
        self.items = dict(items or {})  # key-key -> (keyval, val)
        self.doms = list(doms)

    def key(self):
        # as for lists, the domains are bookkeeping: a mapping filled by a loop and one written as a comprehension
        # over the same pseudo-elements are the same mapping
        return ("dict", tuple(sorted(((k, vkey(v[1])) for k, v in self.items.items()), key=_k)), ())


def vkey(v):
    if isinstance(v, Poly):
        return v.key()
    if isinstance(v, (ATuple, AList, ADict)):
        return v.key()
    if isinstance(v, tuple):  # guard
        return v
    if v is None:
        return ("const", "None")
    if isinstance(v, (bool, str)):
        return ("const", repr(v))
    if isinstance(v, (int, float, Fraction)):
        return Poly.const(v).key()
    raise Unsupported("no key for %r" % (v,))


def as_term(v):
    """Coerce an abstract value into a Poly (opaque atom for containers)."""
    if isinstance(v, Poly):
        return v
    if isinstance(v, (int, float, Fraction)) and not isinstance(v, bool):
        return Poly.const(v)
    if isinstance(v, ASet):
        return Poly.atom(v.key())
    return Poly.atom(("val", vkey(v)))


# --------------------------------------------------------------------------- pretty printing
def show(v, depth=0):
    if depth > 12:
        return "…"
    if isinstance(v, Poly):
        if not v.terms:
            return "0"
        parts = []
        for m, c in sorted(v.terms.items(), key=_k):
            fs = []
            for a, p in m:
                s = show_atom(a, depth + 1)
                fs.append(s if p == 1 else "%s^%d" % (s, p))
            body = "*".join(fs)
            if not fs:
                parts.append(str(c))
            elif c == 1:
                parts.append(body)
            elif c == -1:
                parts.append("-" + body)
            else:
                parts.append("%s*%s" % (c, body))
        return " + ".join(parts).replace("+ -", "- ")
    if isinstance(v, ATuple):
        return "(" + ", ".join(show(i, depth + 1) for i in v.items) + ")"
    if isinstance(v, AList):
        return "[" + ", ".join(show(i, depth + 1) for i in v.items) + ("" if not v.doms else " …over %d domain(s)" % len(v.doms)) + "]"
    if isinstance(v, ADict):
        return "{" + ", ".join("%s: %s" % (show_key(k, depth + 1), show(x[1], depth + 1)) for k, x in v.items.items()) + "}"
    if isinstance(v, tuple):
        return show_atom(v, depth)
    return repr(v)


def show_key(k, depth=0):
    """Render a key (of a Poly, atom or value) readably."""
    if depth > 12:
        return "…"
    if isinstance(k, tuple) and k and isinstance(k[0], str):
        return show_atom(k, depth)
    if isinstance(k, tuple):  # poly key: tuple of (mono, coef)
        try:
            return show(poly_from_key(k), depth)
        except Exception:
            return repr(k)
    return repr(k)


def show_atom(a, depth=0):
    if depth > 12:
        return "…"
    tag = a[0]
    if tag == "poly":
        return show(poly_from_key(a), depth)
    if tag == "v":
        return str(a[1])
    if tag == "const":
        return a[1]
    if tag == "attr":
        return "%s.%s" % (show_key(a[1], depth + 1), a[2])
    if tag == "call":
        args = [show_key(x, depth + 1) for x in a[2]] + ["%s=%s" % (k, show_key(x, depth + 1)) for k, x in a[3]]
        return "%s(%s)" % (a[1], ", ".join(args))
    if tag == "mcall":
        args = [show_key(x, depth + 1) for x in a[3]] + ["%s=%s" % (k, show_key(x, depth + 1)) for k, x in a[4]]
        return "%s.%s(%s)" % (show_key(a[2], depth + 1), a[1], ", ".join(args))
    if tag == "strcat":
        return "str(" + " + ".join(repr(x[1]) if (isinstance(x, tuple) and len(x) == 2 and x[0] == "lit") else show_key(x, depth + 1) for x in a[1]) + ")"
    if tag == "upd":
        args = [show_key(x, depth + 1) for x in a[3]] + ["%s=%s" % (k, show_key(x, depth + 1)) for k, x in a[4]]
        return "%s«%s(%s)»" % (show_key(a[2], depth + 1), a[1], ", ".join(args))
    if tag == "after":
        return "%s«.%s=%s»" % (show_key(a[1], depth + 1), a[2], show_key(a[3], depth + 1))
    if tag == "sub":
        return "%s[%s]" % (show_key(a[1], depth + 1), show_key(a[2], depth + 1))
    if tag == "elem":
        return "elem%s(%s)" % ("".join("_%s" % x for x in a[2:]), show_key(a[1], depth + 1))
    if tag == "p":
        return "(" + show_key(a[1], depth + 1) + ")"
    if tag == "cond":
        return "cond{" + "; ".join("%s -> %s" % (show_key(g, depth + 1), show_key(v, depth + 1)) for g, v in a[1]) + "}"
    if tag == "cmp":
        return "(%s %s %s)" % (show_key(a[2], depth + 1), a[1], show_key(a[3], depth + 1))
    if tag == "not":
        return "not " + show_key(a[1], depth + 1)
    if tag in ("and", "or"):
        return "(" + (" %s " % tag).join(show_key(x, depth + 1) for x in a[1]) + ")"
    if tag == "truth":
        return "truth(%s)" % show_key(a[1], depth + 1)
    if tag == "val":
        return show_key(a[1], depth + 1)
    if tag in ("tuple",):
        return "(" + ", ".join(show_key(x, depth + 1) for x in a[1:]) + ")"
    if tag == "list":
        return "[" + ", ".join(show_key(x, depth + 1) for x in a[1]) + "]"
    if tag == "slice":
        return ":".join("" if x == ("const", "None") else show_key(x, depth + 1) for x in a[1:])
    return tag + "(" + ", ".join(show_key(x, depth + 1) if isinstance(x, tuple) else str(x) for x in a[1:]) + ")"


# --------------------------------------------------------------------------- guards
TRUE = ("const", "True")
FALSE = ("const", "False")
_FLIP = {"<": ">", ">": "<", "<=": ">=", ">=": "<="}
_NEG = {"<": ">=", ">=": "<", ">": "<=", "<=": ">", "==": "!=", "!=": "=="}


def g_not(g):
    if g == TRUE:
        return FALSE
    if g == FALSE:
        return TRUE
    if g[0] == "not":
        return g[1]
    return ("not", g)


def _is_count_key(k):
    """Does the key denote a non-negative integer count: len(...) or a sum of 0/1-valued presence conditionals?"""
    if not _is_polykey(k):
        return False
    p = poly_from_key(k)
    if p.is_const():
        return False
    for mono, coef in p.terms.items():
        if coef < 0:
            return False
        if not mono:
            if coef != int(coef):
                return False
            continue
        if len(mono) != 1 or mono[0][1] != 1:
            return False
        a = mono[0][0]
        if a[0] == "call" and a[1] == "len":
            continue
        if a[0] == "mcall" and (a[1].startswith("get_number_of_") or a[1] in _COUNT_METHODS):
            continue  # a method that reports how many (children, nodes, edges): never negative
        if a[0] == "cond" and all(_const_of_key(v) in (0, 1) for _, v in a[1]):
            continue
        return False
    return True


_COUNT_METHODS = frozenset({"out_degree", "in_degree", "num_nodes", "num_edges", "number_of_nodes", "number_of_edges"})


def g_cmp(op, a, b, keys=False):
    ka = a if keys else vkey(a)
    kb = b if keys else vkey(b)
    # concrete decision when both sides are numeric constants
    pa, pb = _const_of_key(ka), _const_of_key(kb)
    if pa is not None and pb is not None and op in ("==", "!=", "<", ">", "<=", ">="):
        return TRUE if {"==": pa == pb, "!=": pa != pb, "<": pa < pb, ">": pa > pb, "<=": pa <= pb, ">=": pa >= pb}[op] else FALSE
    if ka == kb and op in ("==", "<=", ">=", "is"):
        return TRUE
    if ka == kb and op in ("!=", "<", ">", "is not"):
        return FALSE
    if op in ("<", ">", "<=", ">=") and (pa is not None or pb is not None):
        # a count (a length, a sum of 0/1 presence terms) against 0 or 1: `n > 0`, `n >= 1`, `n != 0` and the truth of
        # the container are one test, as are `n <= 0`, `n < 1`, `n == 0` and `not container`
        cnt, c, cop = (kb, pa, {"<": ">", ">": "<", "<=": ">=", ">=": "<="}[op]) if pa is not None else (ka, pb, op)
        if _is_count_key(cnt):
            if (cop == ">" and c == 0) or (cop == ">=" and c == 1):
                return g_not(g_cmp("==", cnt, Poly.const(0).key(), keys=True))
            if (cop == "<=" and c == 0) or (cop == "<" and c == 1):
                return g_cmp("==", cnt, Poly.const(0).key(), keys=True)
            if cop == ">=" and c <= 0:
                return TRUE
            if cop == "<" and c <= 0:
                return FALSE
    if op in ("==", "is") and (ka == ("const", "None") or kb == ("const", "None") or key_atom(ka) == ("val", ("const", "None")) or key_atom(kb) == ("val", ("const", "None"))):
        # d.get(k) is None  is  k not in d  (for mappings that hold records, never None: the tables this code keeps)
        other = kb if (ka == ("const", "None") or key_atom(ka) == ("val", ("const", "None"))) else ka
        oa = key_atom(other) if _is_polykey(other) else None
        if oa is not None and oa[0] == "mcall" and oa[1] == "get" and len(oa[3]) == 1 and not oa[4]:
            return g_not(g_cmp("in", oa[3][0], oa[2], keys=True))
        if oa is not None and oa[0] == "sub" and other in _GET_TERMS:
            return g_not(g_cmp("in", oa[2], oa[1], keys=True))
    if op == "not in":
        return g_not(g_cmp("in", ka, kb, keys=True))
    if op == "in" and isinstance(kb, tuple) and kb and kb[0] == "list" and kb[1] and all(x == kb[1][0] for x in kb[1]):
        return g_cmp("==", ka, kb[1][0], keys=True)  # membership in [y, y, ...] is equality with y
    if op == "in" and isinstance(kb, tuple) and kb and kb[0] in ("list", "tuple"):
        els = kb[1:] if kb[0] == "tuple" else kb[1]
        if 0 < len(els) <= 4 and all(isinstance(x, tuple) for x in els) and not any(x and x[0] == "star" for x in els) and not any(_is_polykey(x) and (key_atom(x) or ("",))[0] == "star" for x in els):
            # membership in a short literal collection is the disjunction of the equalities
            return g_or([g_cmp("==", ka, x, keys=True) for x in els])
    if op == "!=":
        return g_not(g_cmp("==", ka, kb, keys=True))
    if op == "is not":
        return g_not(g_cmp("is", ka, kb, keys=True))
    if op == "not in":
        return g_not(("cmp", "in", ka, kb))
    # canonical comparison atoms are '==', '<' and 'in' only; the others are their negations /
    # mirror images, so that a test and its complement never get independent truth values
    if op == ">":
        op, ka, kb = "<", kb, ka
    elif op == "<=":
        return g_not(g_cmp("<", kb, ka, keys=True))
    elif op == ">=":
        return g_not(g_cmp("<", ka, kb, keys=True))
    if op in ("==", "is") and _k(ka) > _k(kb):
        ka, kb = kb, ka
    if op == "is":
        op = "=="  # `x is None` and `x == None` are the same test for the values that occur here
    return ("cmp", op, ka, kb)


def _const_of_key(k):
    if k == ("poly",):
        return Fraction(0)
    if isinstance(k, tuple) and len(k) == 2 and k[0] == "poly" and k[1][0] == ():
        return k[1][1]
    return None


def poly_from_key(k):
    if not _is_polykey(k):
        raise Unsupported("not a polynomial key: %r" % (k,))
    return Poly(dict(k[1:]))


def key_atom(k):
    """The single atom a key denotes (a polynomial key that is exactly one atom, or an atom key)."""
    if _is_polykey(k):
        return poly_from_key(k).as_atom()
    if isinstance(k, tuple) and k and isinstance(k[0], str):
        return k
    return None


def g_and(gs):
    out = []
    for g in gs:
        if g == FALSE:
            return FALSE
        if g == TRUE:
            continue
        if g[0] == "and":
            out.extend(g[1])
        else:
            out.append(g)
    out = sorted(set(out), key=_k)
    if not out:
        return TRUE
    if len(out) == 1:
        return out[0]
    return ("and", tuple(out))


def g_or(gs):
    out = []
    for g in gs:
        if g == TRUE:
            return TRUE
        if g == FALSE:
            continue
        if g[0] == "or":
            out.extend(g[1])
        else:
            out.append(g)
    out = sorted(set(out), key=_k)
    if not out:
        return FALSE
    if len(out) == 1:
        return out[0]
    return ("or", tuple(out))


def g_covers(gs, limit=12):
    """Do the guards `gs` cover every case (their disjunction is a propositional tautology over their atomic tests)?"""
    atoms = []

    def collect(g):
        if g in (TRUE, FALSE):
            return
        if g[0] in ("and", "or"):
            for x in g[1]:
                collect(x)
        elif g[0] == "not":
            collect(g[1])
        elif g not in atoms:
            atoms.append(g)

    for g in gs:
        collect(g)
    if len(atoms) > limit:
        return False

    def ev(g, env):
        if g == TRUE:
            return True
        if g == FALSE:
            return False
        if g[0] == "and":
            return all(ev(x, env) for x in g[1])
        if g[0] == "or":
            return any(ev(x, env) for x in g[1])
        if g[0] == "not":
            return not ev(g[1], env)
        return env[g]

    import itertools

    for bits in itertools.product((False, True), repeat=len(atoms)):
        env = dict(zip(atoms, bits))
        if not any(ev(g, env) for g in gs):
            return False
    return True


def _cond_alternatives(v):
    """[(guard, value)] if `v` is a conditional value (possibly under reversed / list / sorted / tuple), else None."""
    if not isinstance(v, Poly):
        return None
    a = v.as_atom()
    if a is None:
        return None
    if a[0] == "cond":
        out = []
        for g, k in a[1]:
            if _is_polykey(k):
                out.append((g, poly_from_key(k)))
            elif isinstance(k, tuple) and k and k[0] == "list":
                out.append((g, AList([_value_of_key(x) for x in k[1]])))
            elif isinstance(k, tuple) and k and k[0] == "tuple":
                out.append((g, _value_of_key(k)))
            else:
                return None
        return out
    if a[0] == "call" and a[1] in ("reversed", "list", "tuple") and len(a[2]) == 1 and not a[3] and _is_polykey(a[2][0]):
        inner = _cond_alternatives(poly_from_key(a[2][0]))
        if inner is None:
            return None
        out = []
        for g, v2 in inner:
            if isinstance(v2, (AList, ATuple)) and not getattr(v2, "doms", None):
                out.append((g, type(v2)(list(reversed(v2.items)) if a[1] == "reversed" else list(v2.items))))
            else:
                out.append((g, Poly.atom(("call", a[1], (vkey(v2),), ()))))
        return out
    return None


def _str_pieces(v):
    """Pieces of a string-valued abstract value in canonical form, or None: python str -> [str]; strcat atom -> its
    pieces (literals as python str, values as keys)."""
    if isinstance(v, str):
        return [v]
    if isinstance(v, Poly):
        a = v.as_atom()
        if a is not None and a[0] == "strcat":
            return [x[1] if (isinstance(x, tuple) and len(x) == 2 and x[0] == "lit") else x for x in a[1]]
    return None


def make_str(pieces):
    """Canonical string value: adjacent literals merged, nested concatenations flattened; a pure literal is a python
    str; otherwise the atom ("strcat", (("lit", text) | value-key, ...)).  f-strings, str.format, str() and `+` on
    strings all build this one form."""
    flat = []
    for p in pieces:
        if isinstance(p, str):
            if p == "":
                continue
            if flat and isinstance(flat[-1], str):
                flat[-1] += p
            else:
                flat.append(p)
        else:
            flat.append(p)
    if not flat:
        return ""
    if len(flat) == 1 and isinstance(flat[0], str):
        return flat[0]
    return Poly.atom(("strcat", tuple(("lit", x) if isinstance(x, str) else x for x in flat)))


def _piece_of(v):
    """What a value contributes when it is formatted into a string."""
    ps = _str_pieces(v)
    if ps is not None:
        return ps
    return [vkey(v)]


def abstract_len(v):
    """Length term of an abstract list built over symbolic domains."""
    if any(_maybe_absent(x) for x in v.items):
        tot = Poly.const(0)
        for x in v.items:
            tot = tot + _presence(x)
        return tot
    if len(v.doms) == 1 and len(v.items) == K_ELEMS:
        return Poly.atom(("call", "len", (v.doms[0],), ()))
    return Poly.atom(("call", "len", (vkey(v),), ()))


def truth_of(v):
    """Guard for the truthiness of an abstract value."""
    if isinstance(v, tuple):
        return v
    if v is None:
        return FALSE
    if isinstance(v, bool):
        return TRUE if v else FALSE
    if isinstance(v, str):
        return TRUE if v else FALSE
    if isinstance(v, (AList, ATuple)) and not getattr(v, "doms", None):
        return TRUE if v.items else FALSE
    if isinstance(v, AList):
        # a list is true iff it is not empty: the same length term `len()` gives (`not xs` is `len(xs) == 0`)
        return g_not(g_cmp("==", abstract_len(v), Poly.const(0)))
    if isinstance(v, Poly):
        if v.is_const():
            return TRUE if v.const_value() != 0 else FALSE
        a = v.as_atom()
        if a is not None and a[0] in ("cmp", "not", "and", "or", "truth"):
            return a
        if a is not None and a[0] == "const":
            return {"True": TRUE, "False": FALSE, "None": FALSE}.get(a[1], ("truth", v.key()))
        if a is not None and a[0] == "mcall" and a[1] in _SEQUENCE_VIEWS and not a[4]:
            # the collected children / nodes / keys of something (list(...) of a view is the view's elements here): true
            # iff there is at least one - the test `len(...) == 0` negated
            return g_not(g_cmp("==", Poly.atom(("call", "len", (v.key(),), ())), Poly.const(0)))
    return ("truth", vkey(v))


_SEQUENCE_VIEWS = {"successors", "predecessors", "children", "nodes", "node_indices", "edges", "in_edges", "out_edges", "keys", "values", "items", "descendants", "ancestors"}


def ordering(g):
    """View an ordering guard as ("cmp", "<" | "<=", lo, hi): the canonical atoms are '<' and its
    negation, so `not (b < a)` is presented as `a <= b`.  Other guards are returned unchanged."""
    if isinstance(g, tuple) and g and g[0] == "not" and isinstance(g[1], tuple) and g[1][0] == "cmp" and g[1][1] == "<":
        return ("cmp", "<=", g[1][3], g[1][2])
    return g


def known_truth(g, guards):
    """Simplify guard `g` given the guards already assumed on this path (prunes paths that assume a
    test and its complement)."""
    if g in (TRUE, FALSE):
        return g
    if g in guards:
        return TRUE
    if g_not(g) in guards:
        return FALSE
    if g[0] == "not":
        inner = known_truth(g[1], guards)
        return g_not(inner) if inner in (TRUE, FALSE) else g
    if g[0] == "or":
        parts = [known_truth(x, guards) for x in g[1]]
        if TRUE in parts:
            return TRUE
        if all(p == FALSE for p in parts):
            return FALSE
        return g_or(parts)
    if g[0] == "and":
        parts = [known_truth(x, guards) for x in g[1]]
        if FALSE in parts:
            return FALSE
        if all(p == TRUE for p in parts):
            return TRUE
        return g_and(parts)
    # a conjunction assumed earlier makes each of its members known
    for h in guards:
        if h[0] == "and" and g in h[1]:
            return TRUE
        if h[0] == "and" and g_not(g) in h[1]:
            return FALSE
        if h[0] == "not" and h[1][0] == "or" and g in h[1][1]:
            return FALSE
        if h[0] == "not" and h[1][0] == "or" and g_not(g) in h[1][1]:
            return TRUE
    return g


def make_cond(alts):
    """alts: list of (guard, value).  First true guard wins.  Returns an abstract value."""
    alts = [(g, v) for g, v in alts if g != FALSE]
    if not alts:
        raise Unsupported("conditional with no feasible alternative")
    # cut after an always-true guard
    cut = []
    for g, v in alts:
        cut.append((g, v))
        if g == TRUE:
            break
    alts = cut
    k0 = vkey(alts[0][1])
    if all(vkey(v) == k0 for _, v in alts):
        return alts[0][1]
    # polynomials: factor the part common to every alternative out of the conditional, so that
    # `acc += t` under a branch becomes acc + cond{g -> t; True -> 0} (linear, not exponential, size)
    if all(isinstance(v, Poly) for _, v in alts):
        first = alts[0][1].terms
        common = {m: c for m, c in first.items() if all(v.terms.get(m) == c for _, v in alts[1:])}
        if common:
            rest = [(g, Poly({m: c for m, c in v.terms.items() if m not in common})) for g, v in alts]
            return Poly(common) + as_term(make_cond(rest))
    # lists grown on some paths only: align positionally; a missing element is `absent`
    def _has_star(v):
        return any(isinstance(x, Poly) and x.as_atom() is not None and x.as_atom()[0] == "star" for x in v.items)

    if all(isinstance(v, AList) for _, v in alts) and any(_has_star(v) for _, v in alts) and not all(vkey(v) == k0 for _, v in alts):
        # a spliced-in sequence stands for several elements: positions cannot be aligned before it is iterated
        return Poly.atom(("cond", tuple((g, vkey(v)) for g, v in alts)))
    if all(isinstance(v, AList) for _, v in alts):
        n = max(len(v.items) for _, v in alts)
        items = []
        for i in range(n):
            col = [(g, v.items[i] if i < len(v.items) else Poly.atom(("absent",))) for g, v in alts]
            items.append(make_cond(col))
        doms = []
        for _, v in alts:
            for d in v.doms:
                if d not in doms:
                    doms.append(d)
        cls = ASet if all(isinstance(v, ASet) for _, v in alts) else AList
        return cls(items, doms)
    # containers: merge component-wise when shapes agree
    if all(isinstance(v, ATuple) for _, v in alts) and len({len(v.items) for _, v in alts}) == 1:
        n = len(alts[0][1].items)
        merged = [make_cond([(g, v.items[i]) for g, v in alts]) for i in range(n)]
        if all(isinstance(v, ARecord) for _, v in alts) and len({tuple(v.names) for _, v in alts}) == 1:
            return ARecord(merged, alts[0][1].names)  # records of one type chosen by a test: still that record
        return ATuple(merged)
    return Poly.atom(("cond", tuple((g, vkey(v)) for g, v in alts)))


# --------------------------------------------------------------------------- interpreter
ALIASES = {
    "np.log": "log", "math.log": "log", "numpy.log": "log",
    "np.exp": "exp", "math.exp": "exp",
    "np.log1p": "log1p", "math.log1p": "log1p",
    "math.lgamma": "lgamma",
    "log_gamma": "lgamma",
    "np.sum": "sum",
    "np.abs": "abs",
    "np.isneginf": "isneginf",
    "scipy.special.logsumexp": "log_sum_exp",
}
IDENTITY_CALLS = {"np.array", "np.asarray", "np.ascontiguousarray", "float", "np.float64", "list", "tuple"}
INTERPRETED = {"log", "exp", "log1p", "lgamma", "sqrt"}

K_ELEMS = 2


def _clone_env(env):
    """Copy an environment for a forked path: mutable abstract containers are cloned (aliases among the
    entries of one environment stay aliases), so an append on one path is invisible on the other."""
    memo = {}

    def clone(v):
        if isinstance(v, AList):
            if id(v) not in memo:
                n = type(v)([], list(v.doms))
                memo[id(v)] = n
                n.items = [clone(x) for x in v.items]
            return memo[id(v)]
        if isinstance(v, ARecord):
            if id(v) not in memo:
                n = ARecord([], v.names)
                memo[id(v)] = n
                n.items = [clone(x) for x in v.items]
            return memo[id(v)]
        if isinstance(v, ADict):
            if id(v) not in memo:
                n = ADict({}, list(v.doms))
                memo[id(v)] = n
                n.items = {k: (clone(x[0]), clone(x[1])) for k, x in v.items.items()}
            return memo[id(v)]
        return v

    return {k: clone(v) for k, v in env.items()}


class State:
    def __init__(self, env=None, guards=None, clone=True):
        self.env = _clone_env(env) if (env and clone) else dict(env or {})
        self.guards = list(guards or [])

    def fork(self, g):
        s = State(self.env, self.guards)
        s.guards.append(g)
        return s


# statement-position methods of library objects that write the object out and leave it as it was
READ_ONLY_METHODS = frozenset({"to_csv", "to_json", "to_pickle", "to_string", "to_excel", "to_parquet", "info", "describe", "head", "tail"})


class Event:
    """An uninterpreted call observed during interpretation (for rules on call arguments)."""

    prefix = ()  # guards of the callers' paths at the time of recording (set by the interpreter)

    def __init__(self, name, args, kwargs, guards, node, recv=None):
        self.name = name
        self.args = args
        self.kwargs = kwargs
        self.node = node
        self.recv = recv
        self.full_guards = list(Event.prefix) + list(guards)
        # the conditions under which the event happens include those of the (inlined) callers' paths: extracting a
        # helper must not hide the test its call sits under
        self.local_guards = list(guards)
        self.guards = list(self.full_guards)

    def __repr__(self):
        return "Event(%s, %s, %s)" % (self.name, [show(a) for a in self.args], {k: show(v) for k, v in self.kwargs.items()})


# library roots a specification may name although the module it is read in does not import them (any more)
STD_ROOTS = {"pickle": "pickle", "gzip": "gzip", "itertools": "itertools", "functools": "functools", "collections": "collections", "operator": "operator",
             "os": "os", "json": "json", "tarfile": "tarfile", "tempfile": "tempfile", "copy": "copy", "pd": "pandas", "pandas": "pandas", "nx": "networkx",
             "networkx": "networkx", "rx": "rustworkx", "rustworkx": "rustworkx", "numpy": "numpy"}
WELL_KNOWN = {
    "defaultdict": "collections.defaultdict", "OrderedDict": "collections.OrderedDict", "Counter": "collections.Counter", "deque": "collections.deque",
    "chain": "itertools.chain", "repeat": "itertools.repeat", "islice": "itertools.islice", "count": "itertools.count", "accumulate": "itertools.accumulate",
    "reduce": "functools.reduce", "partial": "functools.partial", "attrgetter": "operator.attrgetter", "itemgetter": "operator.itemgetter",
}


class Interp:
    """Abstract interpreter of one function (with bounded inlining of repository helpers)."""

    def __init__(self, prog, inline=None, no_inline=(), max_depth=8, opaque_self_methods=(), inline_all_repo=False, copy_is_identity=True, commutative=(), resolve_new_objects=False, override=None, assume=None):
        self.prog = prog
        self.assume = assume  # a Python test over the parameters that holds on entry (the premise under which a rule's specification is written)
        self.override = dict(override or {})  # qualname -> FunctionInfo read instead of the repository's (reference helpers of a specification)
        self.inline = set(inline or ())  # extra qualname suffixes to inline
        self.no_inline = set(no_inline)
        self.max_depth = max_depth
        self.events = []
        self.stack = []
        self.inline_all_repo = inline_all_repo
        self.opaque_self_methods = set(opaque_self_methods)
        self.copy_is_identity = copy_is_identity
        self.resolve_new_objects = resolve_new_objects
        self.commutative = set(commutative)
        self.loop_doms = []
        self.paths = []
        self.notes = []

    # ----------------------------------------------------------- entry points
    def run(self, fi, args=None, kwargs=None, self_cls=None, symbolic_defaults=True):
        """Interpret FunctionInfo `fi`; parameters not given in `args` are bound positionally to the
        canonical symbols P0, P1, … (so parameter renames are invisible).  Returns (result, final State)."""
        node = fi.node
        params = [a.arg for a in node.args.posonlyargs + node.args.args]
        args = list(args or [])
        full = []
        for i, p in enumerate(params):
            if i < len(args) and args[i] is not None:
                full.append(args[i])
            elif kwargs and p in kwargs:
                full.append(kwargs[p])
            elif self.prog.is_unpassed_new_param(fi, p):
                full.append(_USE_DEFAULT)  # an option newer than the rules that no caller supplies: its default
            else:
                full.append(Poly.atom(("v", "P%d" % i)))
        kw = {}
        for a in node.args.kwonlyargs:
            if not (kwargs or {}).get(a.arg) and self.prog.is_unpassed_new_param(fi, a.arg):
                continue
            kw[a.arg] = (kwargs or {}).get(a.arg, Poly.atom(("v", "K_" + a.arg)))
        Event.prefix = ()
        _load_class_constants(self.prog)
        return _interp_run_with_env(self, fi, full, kw, self_cls, {})

    def setter_names(self):
        if not hasattr(self, "_setter_names"):
            self._setter_names = {n for c in self.prog.classes.values() for n, d in c.properties.items() if "setter" in d}
        return self._setter_names

    def _eval_in(self, expr, fi, env):
        return Frame(self, fi, fi.cls).eval(expr, State(env))


def _close(alts):
    """Make the last alternative unconditional (the guards of the enumerated paths are exhaustive)."""
    alts = list(alts)
    if alts:
        alts[-1] = (TRUE, alts[-1][1])
    return alts


def merge_states(states, prefix_len):
    """Merge forked states (if-conversion): variables that differ become guarded alternatives."""
    if len(states) == 1:
        return states[0]
    # common guard prefix
    n = min(len(s.guards) for s in states)
    p = 0
    while p < n and all(s.guards[p] == states[0].guards[p] for s in states):
        p += 1
    out = State({}, states[0].guards[:p])
    names = []
    for s in states:
        for k in s.env:
            if k not in names:
                names.append(k)
    merged = {}  # identities of the per-state values -> merged value: names that alias in every state alias afterwards
    for k in names:
        alts = []
        missing = False
        for s in states:
            if k not in s.env:
                missing = True
                continue
            alts.append((g_and(s.guards[p:]), s.env[k]))
        ident = tuple(id(s.env[k]) if k in s.env else None for s in states)
        if not missing and ident in merged and all(isinstance(v, Poly) for _, v in alts):
            out.env[k] = merged[ident]
            continue
        if missing:
            if len({_k(vkey(v)) for _, v in alts}) == 1 and len(alts) == len(states):
                out.env[k] = alts[0][1]
            else:
                alts.append((TRUE, Poly.atom(("undef", k))))
                out.env[k] = make_cond(alts)
        else:
            out.env[k] = make_cond(_close(alts))
        if not missing:
            merged[ident] = out.env[k]
    return out


class Frame:
    def __init__(self, interp, fi, cls):
        self.I = interp
        self.fi = fi
        self.cls = cls
        self.module = fi.module

    # ------------------------------------------------------------ statements
    def exec_block(self, stmts, st):
        """Returns list of (State, outcome) with outcome ('fall',) | ('return', v) | ('break',) |
        ('continue',) | ('raise', text)."""
        live = [st]
        done = []
        for s in stmts:
            nxt = []
            for cur in live:
                for st2, oc in self.exec_stmt(s, cur):
                    if oc[0] == "fall":
                        nxt.append(st2)
                    else:
                        done.append((st2, oc))
            live = nxt
            if len(live) + len(done) > 512:
                raise Unsupported("path explosion in %s" % self.fi.qualname)
            if not live:
                break
        return done + [(s, ("fall",)) for s in live]

    def exec_stmt(self, s, st):
        if isinstance(s, ast.Expr):
            if isinstance(s.value, ast.Constant):
                return [(st, ("fall",))]
            c0 = s.value
            if (isinstance(c0, ast.Call) and isinstance(c0.func, ast.Attribute) and c0.func.attr == "setdefault" and len(c0.args) == 2 and not c0.keywords
                    and isinstance(c0.func.value, ast.Name) and (isinstance(st.env.get(c0.func.value.id), ADict) or self._cond_of_dicts(st.env.get(c0.func.value.id)))):
                # d.setdefault(k, v) as a statement, on a dictionary built here:  if k not in d: d[k] = v
                test = ast.Compare(left=c0.args[0], ops=[ast.NotIn()], comparators=[c0.func.value])
                store = ast.Assign(targets=[ast.Subscript(value=c0.func.value, slice=c0.args[0], ctx=ast.Store())], value=c0.args[1])
                node_if = ast.If(test=test, body=[store], orelse=[])
                for n_ in (test, store, node_if):
                    ast.copy_location(n_, s)
                ast.fix_missing_locations(node_if)
                return self.exec_stmt(node_if, st)
            r = self.eval(s.value, st)
            if isinstance(s.value, ast.Call) and r is not None:
                # f(..., out=x) as a statement writes its result into x: the local now denotes that result
                for kw_ in s.value.keywords:
                    if kw_.arg == "out" and isinstance(kw_.value, ast.Name) and kw_.value.id in st.env and isinstance(r, Poly):
                        st.env[kw_.value.id] = r
            # `x.m(args)` as a statement on a locally created opaque object is called for its effect:
            # rebind the local to the updated object, so that later uses see that it was edited
            c = s.value
            if (isinstance(c, ast.Call) and isinstance(c.func, ast.Attribute) and isinstance(c.func.value, ast.Name)
                    and isinstance(st.env.get(c.func.value.id), AList) and c.func.attr in ("sort", "reverse") and not c.args):
                # in-place reordering of a list: the local now denotes the reordered sequence
                st.env[c.func.value.id] = Poly.atom(("call", "sorted" if c.func.attr == "sort" else "reversed", (vkey(st.env[c.func.value.id]),), tuple(sorted(((k.arg, vkey(self.eval(k.value, st))) for k in c.keywords), key=_k))))
            if (isinstance(c, ast.Call) and isinstance(c.func, ast.Attribute) and isinstance(c.func.value, ast.Name)
                    and c.func.value.id in st.env and isinstance(r, Poly)):
                a = r.as_atom()
                cur = st.env[c.func.value.id]
                ca = cur.as_atom() if isinstance(cur, Poly) else None
                if (a is not None and a[0] == "mcall" and ca is not None and a[2] == cur.key() and c.func.attr not in READ_ONLY_METHODS
                        and ca[0] in ("call", "mcall", "upd", "attr", "sub", "elem", "v", "after", "cond") and not (ca[0] == "call" and ca[1] == "concat")):
                    new = Poly.atom(("upd",) + a[1:])
                    # the edit is seen through every other name / attribute bound to the very same object
                    for k2, v2 in list(st.env.items()):
                        if v2 is cur and not (isinstance(k2, tuple) and k2 and k2[0] in ("@alias", "@ver")):
                            st.env[k2] = new
                    st.env[c.func.value.id] = new
            return [(st, ("fall",))]
        if isinstance(s, ast.Assign):
            v = self.eval(s.value, st)
            for t in s.targets:
                if isinstance(t, ast.Name):
                    self.assign(t, v, st, alias_ok=isinstance(s.value, ast.Attribute))
                else:
                    self.assign(t, v, st)
            return [(st, ("fall",))]
        if isinstance(s, ast.AnnAssign):
            if s.value is not None:
                self.assign(s.target, self.eval(s.value, st), st)
            return [(st, ("fall",))]
        if isinstance(s, ast.AugAssign):
            cur = self.eval(_load(s.target), st)
            rhs = self.eval(s.value, st)
            new = self.binop(s.op, cur, rhs)
            alias = st.env.get(("@alias", s.target.id)) if isinstance(s.target, ast.Name) else None
            self.assign(s.target, new, st)
            if alias is not None:
                # `a = obj.attr; a += v`: an in-place update of the array the attribute holds (numpy semantics):
                # the attribute's content changes although no store to the attribute is written
                st.env[("@alias", s.target.id)] = alias
                self.I.events.append(Event("store_content", [alias, new], {}, st.guards, s))
            return [(st, ("fall",))]
        if isinstance(s, ast.Return):
            return [(st, ("return", self.eval(s.value, st) if s.value is not None else None))]
        if isinstance(s, ast.Pass):
            return [(st, ("fall",))]
        if isinstance(s, ast.Assert):
            return [(st, ("fall",))]  # assertions do not change values
        if isinstance(s, ast.Raise):
            return [(st, ("raise", ast.unparse(s.exc) if s.exc else ""))]
        if isinstance(s, ast.Break):
            return [(st, ("break",))]
        if isinstance(s, ast.Continue):
            return [(st, ("continue",))]
        if isinstance(s, ast.If):
            g = known_truth(truth_of(self.eval(s.test, st)), list(Event.prefix) + st.guards)  # what the callers' paths established holds here too
            outs = []
            if g != FALSE:
                outs.extend(self.exec_block(s.body, st.fork(g) if g != TRUE else State(st.env, st.guards)))
            ng = g_not(g)
            if ng != FALSE:
                outs.extend(self.exec_block(s.orelse, st.fork(ng) if ng != TRUE else State(st.env, st.guards)))
            return outs
        if isinstance(s, ast.For):
            return self.exec_for(s, st)
        if isinstance(s, ast.With):
            for item in s.items:
                v = self.eval(item.context_expr, st)
                if item.optional_vars is not None:
                    self.assign(item.optional_vars, v, st)
            return self.exec_block(s.body, st)
        if isinstance(s, (ast.Import, ast.ImportFrom, ast.Global, ast.Nonlocal)):
            return [(st, ("fall",))]
        if isinstance(s, (ast.FunctionDef, ast.ClassDef)):
            # (two definitions of one name under complementary tests are two functions: keyed by position)
            st.env[s.name] = Poly.atom(("localdef", s.name, s.lineno))
            if isinstance(s, ast.FunctionDef):
                self.I.__dict__.setdefault("localdefs", {})[(self.fi.qualname, s.name, s.lineno)] = (s, self.fi, self.cls)
            return [(st, ("fall",))]
        if isinstance(s, ast.Delete):
            for t in s.targets:
                if isinstance(t, ast.Name):
                    st.env.pop(t.id, None)
                else:
                    self.I.events.append(Event("del", [self.eval(_load(t), st)], {}, st.guards, s))
            return [(st, ("fall",))]
        if (isinstance(s, ast.Try) and len(s.handlers) == 1 and not s.finalbody and isinstance(s.handlers[0].type, ast.Name) and s.handlers[0].type.id == "KeyError"
                and len(s.body) == 1 and isinstance(s.body[0], (ast.Assign, ast.Expr, ast.Return, ast.AugAssign))):
            # EAFP look-up: `try: x = d[k] ... except KeyError: ...` is `if k in d: ... else: ...` when the one thing in the
            # body that can raise KeyError is one subscript read of a mapping
            subs = [n for n in ast.walk(s.body[0]) if isinstance(n, ast.Subscript) and isinstance(n.ctx, ast.Load) and not isinstance(n.slice, (ast.Slice, ast.Tuple))]
            callsin = [n for n in ast.walk(s.body[0]) if isinstance(n, ast.Call)]
            if len(subs) == 1 and not callsin and not (s.handlers[0].name and any(isinstance(x, ast.Name) and x.id == s.handlers[0].name for b_ in s.handlers[0].body for x in ast.walk(b_))):
                d_ = self.eval(subs[0].value, st)
                k_ = self.eval(subs[0].slice, st)
                g = known_truth(g_cmp("in", k_, d_), list(Event.prefix) + st.guards)
                outs = []
                if g != FALSE:
                    outs.extend(self.exec_block(list(s.body) + list(s.orelse), st.fork(g) if g != TRUE else State(st.env, st.guards)))
                ng = g_not(g)
                if ng != FALSE:
                    outs.extend(self.exec_block(s.handlers[0].body, st.fork(ng) if ng != TRUE else State(st.env, st.guards)))
                return outs
        if isinstance(s, ast.Try) and not s.handlers and not s.orelse:
            # try ... finally (no handler): the body, then the clean-up on every way out of it; an outcome of the
            # clean-up other than falling through replaces the body's
            outs = []
            for st1, oc1 in self.exec_block(s.body, st):
                if oc1[0] == "raise":
                    outs.append((st1, oc1))  # (the clean-up of a raising path contributes no value)
                    continue
                for st2, oc2 in self.exec_block(s.finalbody, st1):
                    outs.append((st2, oc1 if oc2[0] == "fall" else oc2))
            return outs
        raise Unsupported("statement %s in %s" % (type(s).__name__, self.fi.qualname))

    def exec_for(self, s, st):
        it = self.eval(s.iter, st)
        alts = _cond_alternatives(it)
        if alts is not None and len(alts) <= 4:
            # the sequence is one of several (a helper returned `[x]` on one path and a list on another): run the
            # loop once per alternative under its guard, as if the paths had never been merged
            outs = []
            neg = []
            for g, v in alts:
                gg = known_truth(g_and(neg + [g]) if neg else g, st.guards)
                neg.append(g_not(g))
                if gg == FALSE:
                    continue
                st2 = st.fork(gg) if gg != TRUE else State(st.env, st.guards)
                outs += self._exec_for_iter(s, st2, v)
            if outs:
                return outs
        return self._exec_for_iter(s, st, it)

    def _exec_for_iter(self, s, st, it):
        elems = self.domain_elements(it, s.iter)
        concrete = isinstance(it, (AList, ATuple, ADict)) and not getattr(it, "doms", None)
        if not concrete:
            a0 = as_term(it).as_atom() if not isinstance(it, (AList, ATuple, ADict)) else None
            if a0 is not None and a0[0] == "call" and a0[1] == "range" and all(_const_of_key(x) is not None for x in a0[2]):
                concrete = True
        self.I.loop_doms.append(None if concrete else (tuple(it.doms) if isinstance(it, AList) and it.doms else (vkey(it),)))
        try:
            return self._exec_for_body(s, st, elems)
        finally:
            self.I.loop_doms.pop()

    def _exec_for_body(self, s, st, elems):
        cur = st
        exited = []  # states that left the loop through `break` (in order): they skip the rest and the else clause
        returned = []  # (state, outcome) of `return` inside a loop over a concrete sequence, in order
        base_extra = []  # what the passes so far established for the paths that go on: no earlier return was taken
        for e in elems:
            skip = None
            if _maybe_absent(e):
                # an element that exists on some paths only: the body runs under its presence guard
                gp, e = split_presence(e)
                gp = known_truth(gp, cur.guards)
                if gp == FALSE:
                    continue
                if gp != TRUE:
                    skip = cur.fork(g_not(gp))
                    cur = cur.fork(gp)
            self.assign(s.target, e, cur)
            outs = self.exec_block(s.body, cur)
            if skip is not None:
                outs = list(outs) + [(skip, ("fall",))]
            cont = []
            for st2, oc in outs:
                if oc[0] in ("fall", "continue"):
                    cont.append(st2)
                elif oc[0] == "raise":
                    # a raising path ends the computation: it contributes no value to what follows
                    self.I.notes.append("raise inside a loop of %s: %s" % (self.fi.qualname, oc[1]))
                elif oc[0] == "break":
                    exited.append(st2)
                elif oc[0] == "return" and self.I.loop_doms and self.I.loop_doms[-1] is None and not exited:
                    # a loop over a concrete sequence (a literal table): each pass is a sequence of statements, and a
                    # `return` in one of them ends the function in the scenarios of that path
                    returned.append((st2, oc))
                    extra = [g for g in st2.guards[len(st.guards):]]
                    base_extra.append(g_not(g_and(extra)) if extra else FALSE)
                else:
                    raise Unsupported("%s inside a loop of %s" % (oc[0], self.fi.qualname))
            if not cont:
                if exited:
                    cur = None
                    break
                if returned:
                    return returned
                raise Unsupported("loop body never completes in %s" % self.fi.qualname)
            cur = merge_states(cont, len(st.guards))
            cur.guards = list(st.guards) + [g for g in base_extra if g != TRUE]
        tail = []
        if cur is not None:
            tail = self.exec_block(s.orelse, cur) if s.orelse else [(cur, ("fall",))]
        if not exited:
            return returned + tail
        # ordered merge: the first break condition that holds wins, else the loop ran to its end
        falls = [t for t, oc in tail if oc[0] == "fall"]
        others = [(t, oc) for t, oc in tail if oc[0] != "fall"]
        merged = merge_states(exited + falls, len(st.guards))
        merged.guards = list(st.guards)
        return others + [(merged, ("fall",))]

    def domain_elements(self, it, node):
        """Pseudo-elements of an iteration domain (exact unrolling when the domain is concrete)."""
        if isinstance(it, (AList, ATuple)) and not getattr(it, "doms", None):
            if len(it.items) > 16:
                raise Unsupported("loop over %d concrete items" % len(it.items))
            if any(isinstance(x, Poly) and x.as_atom() is not None and x.as_atom()[0] == "star" for x in it.items):
                return self.domain_elements(AList(list(it.items), [("spliced",)]), node)
            return list(it.items)
        if isinstance(it, AList):
            # a list built over pseudo-elements: its items are the representatives
            if it.items:
                out = []
                for x in it.items:
                    xa = x.as_atom() if isinstance(x, Poly) else None
                    if xa is not None and xa[0] == "star" and _is_polykey(xa[1]):
                        # the elements of a sequence that was spliced in with extend(): its own pseudo-elements
                        out.extend(self.domain_elements(poly_from_key(xa[1]), node))
                    else:
                        out.append(x)
                return out
            dk = it.key()
            return [Poly.atom(("elem", dk, i)) for i in range(K_ELEMS)]
        if isinstance(it, ADict):
            return [v[0] for v in it.items.values()]
        t = as_term(it)
        a = t.as_atom()
        if a is not None and a[0] == "call" and a[1] == "range":
            args = a[2]
            consts = [_const_of_key(x) for x in args]
            if all(c is not None and c.denominator == 1 for c in consts):
                r = list(range(*[int(c) for c in consts]))
                if len(r) <= 16:
                    return [Poly.const(x) for x in r]
            return [Poly.atom(("elem", a, i)) for i in range(K_ELEMS)]
        if a is not None and a[0] == "call" and a[1] == "concat" and len(a[2]) == 2:
            # an opaque sequence grown by append / extend: its elements, then the appended ones
            def part(k):
                if isinstance(k, tuple) and k and k[0] == "list":
                    return [poly_from_key(x) if _is_polykey(x) else (Poly.atom(x) if isinstance(x, tuple) and x and isinstance(x[0], str) and x[0] not in ("list", "tuple") else None) for x in k[1]]
                if _is_polykey(k):
                    return self.domain_elements(poly_from_key(k), node)
                return [None]
            els = part(a[2][0]) + part(a[2][1])
            if all(e is not None for e in els) and len(els) <= 16:
                return els
        if a is not None and a[0] == "call" and a[1] == "reversed" and len(a[2]) == 1 and not a[3]:
            # reversed(list(enumerate(xs))): the pairs (i, xs[i]) for i = len(xs)-1 .. 0, as the count-down range spells them
            inner = key_atom(a[2][0]) if _is_polykey(a[2][0]) else None
            while inner is not None and inner[0] == "call" and inner[1] in ("list", "tuple") and len(inner[2]) == 1 and _is_polykey(inner[2][0]):
                inner = key_atom(inner[2][0])
            if inner is not None and inner[0] == "call" and inner[1] == "enumerate" and len(inner[2]) == 1 and not inner[3] and _is_polykey(inner[2][0]):
                xs = poly_from_key(inner[2][0])
                n = Poly.atom(("call", "len", (xs.key(),), ()))
                rng = Poly.atom(("call", "range", tuple(vkey(x) for x in _range_args([n - Poly.const(1), Poly.const(-1), Poly.const(-1)])), ()))
                idxs = self.domain_elements(rng, node)
                return [ATuple([i_, Poly.atom(("sub", xs.key(), vkey(i_)))]) for i_ in idxs]
        if a is not None and a[0] == "call" and a[1] == "zip":
            return [ATuple([Poly.atom(("elem", x, i)) for x in a[2]]) for i in range(K_ELEMS)]
        if a is not None and a[0] == "call" and a[1] == "enumerate" and len(a[2]) == 1:
            return [ATuple([Poly.atom(("idx", a[2][0], i)), Poly.atom(("elem", a[2][0], i))]) for i in range(K_ELEMS)]
        if a is not None and a[0] == "mcall" and a[1] == "items":
            return [ATuple([Poly.atom(("elemk", a[2], i)), Poly.atom(("elemv", a[2], i))]) for i in range(K_ELEMS)]
        if a is not None and a[0] == "mcall" and a[1] == "keys" and not a[3] and not a[4]:
            return [Poly.atom(("elem", a[2], i)) for i in range(K_ELEMS)]  # `for k in d.keys()` is `for k in d`
        if a is not None and a[0] == "mcall" and a[1] == "values" and not a[3] and not a[4]:
            return [Poly.atom(("elemv", a[2], i)) for i in range(K_ELEMS)]
        dk = t.key()
        return [Poly.atom(("elem", dk, i)) for i in range(K_ELEMS)]

    # ------------------------------------------------------------ assignment
    def assign(self, target, v, st, alias_ok=False):
        if isinstance(target, ast.Name):
            st.env[target.id] = v
            a = v.as_atom() if isinstance(v, Poly) else None
            if alias_ok and a is not None and a[0] == "attr":
                st.env[("@alias", target.id)] = v
            elif not alias_ok:
                st.env.pop(("@alias", target.id), None)
            return
        if isinstance(target, (ast.Tuple, ast.List)) and sum(isinstance(t, ast.Starred) for t in target.elts) == 1:
            # first, *rest = xs
            k = [isinstance(t, ast.Starred) for t in target.elts].index(True)
            after = len(target.elts) - k - 1
            if isinstance(v, (AList, ATuple)) and not getattr(v, "doms", None) and len(v.items) >= len(target.elts) - 1:
                n = len(v.items)
                vals = list(v.items[:k]) + [AList(list(v.items[k:n - after]))] + list(v.items[n - after:])
            else:
                def slc(lo, hi):
                    return Poly.atom(("sub", vkey(v), vkey(Poly.atom(("slice", vkey(lo), vkey(hi), vkey(None))))))
                vals = [Poly.atom(("sub", vkey(v), Poly.const(i).key())) for i in range(k)]
                vals.append(slc(Poly.const(k) if k else None, Poly.const(-after) if after else None))
                vals += [Poly.atom(("sub", vkey(v), Poly.const(-j).key())) for j in range(after, 0, -1)]
            for t, x in zip(target.elts, vals):
                self.assign(t.value if isinstance(t, ast.Starred) else t, x, st)
            return
        if isinstance(target, (ast.Tuple, ast.List)):
            items = self.unpack(v, len(target.elts))
            for t, x in zip(target.elts, items):
                self.assign(t, x, st)
            return
        if isinstance(target, ast.Attribute):
            base = self.eval(target.value, st)
            self.store_attr(base, target.attr, v, target.value, target, st)
            return
        if isinstance(target, ast.Subscript):
            base = self.eval(target.value, st)
            idx = self.eval_index(target.slice, st)
            sl = target.slice
            if (isinstance(sl, ast.Slice) and sl.lower is None and sl.upper is None and sl.step is None) or (isinstance(sl, ast.Constant) and sl.value is Ellipsis):
                # dst[:] = v / dst[...] = v : the whole content of the array is replaced
                self.I.events.append(Event("store_content", [base, v], {}, st.guards, target))
                return
            if isinstance(base, ADict):
                # record the event against the dictionary as it was, then grow the abstract dictionary
                self.I.events.append(Event("store_sub", [ADict(dict(base.items), list(base.doms)), idx, v], {}, st.guards, target))
                base.items[vkey(idx)] = (idx, v)
                for d in self.I.loop_doms:
                    if d is not None:
                        for x in d:
                            if x not in base.doms:
                                base.doms.append(x)
                return
            slot = ("@sub", vkey(base), vkey(idx))
            st.env[slot] = v
            self.I.events.append(Event("store_sub", [base, idx, v], {}, st.guards, target))
            return
        if isinstance(target, ast.Starred):
            raise Unsupported("starred assignment")
        raise Unsupported("assignment target %s" % type(target).__name__)

    def store_attr(self, base, attr, v, base_node, node, st):
        """`base.attr = v` (also reached through setattr(base, "attr", v))."""
        if isinstance(base, ARecord) and attr in base.names:
            base.items[base.names.index(attr)] = v
            return
        ci = self.class_of(base, base_node, st)
        if ci is not None:
            setter = self.I.prog.prop(ci, attr, "setter")
            if setter is not None and self.should_inline(setter):
                self.call_function(setter, [base, v], {}, st, node, self_cls=ci)
                return
        slot = ("@attr", vkey(base), attr)
        st.env[slot] = v
        self.I.events.append(Event("store_attr", [base, v], {"attr": attr}, st.guards, node))
        if ci is None and attr in self.I.setter_names():
            # a property setter of some repository class: it may refresh other attributes of the
            # object, so later reads of them are reads of the object *after* this store
            st.env[("@ver", vkey(base))] = ("after", st.env.get(("@ver", vkey(base)), vkey(base)), attr, vkey(v))

    def unpack(self, v, n):
        if isinstance(v, (ATuple, AList)) and not getattr(v, "doms", None) and len(v.items) == n:
            return list(v.items)
        if isinstance(v, Poly):
            a = v.as_atom()
            if a is not None and a[0] == "val" and isinstance(a[1], tuple) and a[1] and a[1][0] == "tuple" and len(a[1]) - 1 == n:
                return [_value_of_key(x) for x in a[1][1:]]  # a concrete tuple that went through a conditional / a list
        if isinstance(v, Poly):
            a = v.as_atom()
            if a is not None and a[0] == "sub" and _is_polykey(a[2]):
                sl = key_atom(a[2])
                none_k = vkey(None)
                if sl is not None and sl[0] == "slice" and sl[1] == none_k and sl[3] == none_k and _const_of_key(sl[2]) == n:
                    # a, b = x[:2] unpacks the first two positions of x
                    return [Poly.atom(("sub", a[1], Poly.const(i).key())) for i in range(n)]
        k = vkey(v)
        return [Poly.atom(("sub", k, Poly.const(i).key())) for i in range(n)]

    # ------------------------------------------------------------ expressions
    def eval(self, e, st):
        m = getattr(self, "e_" + type(e).__name__, None)
        if m is None:
            raise Unsupported("expression %s in %s" % (type(e).__name__, self.fi.qualname))
        return m(e, st)

    def e_Constant(self, e, st):
        v = e.value
        if isinstance(v, bool) or v is None or isinstance(v, str):
            return v
        if isinstance(v, (int, float)):
            return Poly.const(v)
        return Poly.atom(("const", repr(v)))

    def e_Name(self, e, st):
        if e.id in st.env:
            return st.env[e.id]
        if e.id in ("True", "False", "None"):
            return {"True": True, "False": False, "None": None}[e.id]
        c = self.module_constant(self.module, e.id)
        if c is not None:
            return c
        return Poly.atom(("g", self.global_name(e.id)))

    def module_constant(self, module, name, depth=0):
        """Value of a module-level name bound exactly once, at top level, to a constant expression
        (`_FLOOR = 1e-100`, `_LOG_ONE = np.log(1)`): moving a literal to a named constant changes nothing."""
        cache = self.I.__dict__.setdefault("_modconst", {})
        key = (module.name if hasattr(module, "name") else id(module), name)
        if key in cache:
            return cache[key]
        cache[key] = None
        tgt = module.imports.get(name)
        if tgt and "." in tgt and depth < 3:
            mod_name, attr = tgt.rsplit(".", 1)
            other = self.I.prog.modules.get(mod_name) if hasattr(self.I.prog, "modules") else None
            if other is not None:
                cache[key] = self.module_constant(other, attr, depth + 1)
            return cache[key]
        binds = []
        for n in ast.walk(module.tree):
            if isinstance(n, (ast.Assign, ast.AnnAssign, ast.AugAssign)):
                ts = n.targets if isinstance(n, ast.Assign) else [n.target]
                for t in ts:
                    for x in ast.walk(t):
                        if isinstance(x, ast.Name) and x.id == name and isinstance(x.ctx, ast.Store):
                            binds.append(n)
            elif isinstance(n, (ast.Global, ast.Nonlocal)) and name in n.names:
                return None
            elif isinstance(n, (ast.FunctionDef, ast.ClassDef, ast.Import, ast.ImportFrom)) and getattr(n, "name", None) == name:
                return None
        top = [n for n in module.tree.body if n in binds]
        if len(binds) != 1 or len(top) != 1 or not isinstance(top[0], (ast.Assign, ast.AnnAssign)) or top[0].value is None:
            return None
        tnode = top[0].targets[0] if isinstance(top[0], ast.Assign) else top[0].target
        if not isinstance(tnode, ast.Name):
            return None
        if any(isinstance(x, (ast.Call,)) and not (_dotted(x.func) or "").split(".")[-1] in ("log", "exp", "log1p", "sqrt", "float", "int", "attrgetter", "itemgetter") for x in ast.walk(top[0].value)):
            return None
        callees = {id(c.func) for c in ast.walk(top[0].value) if isinstance(c, ast.Call)}
        def _names_a_definition(nm):
            """An imported or module-level class / function: a table may list such objects by name."""
            tgt_ = module.imports.get(nm)
            prog_ = self.I.prog
            if tgt_ and (tgt_ in getattr(prog_, "classes", {}) or tgt_ in getattr(prog_, "functions", {}) or prog_._resolve_dotted_class(tgt_) is not None or prog_._resolve_dotted_fn(tgt_) is not None):
                return True
            q_ = getattr(module, "name", "") + "." + nm
            return q_ in getattr(prog_, "classes", {}) or q_ in getattr(prog_, "functions", {})

        if any(isinstance(x, ast.Name) and id(x) not in callees and x.id not in ("np", "numpy", "math") and not _names_a_definition(x.id) and self.module_constant(module, x.id, depth + 1) is None for x in ast.walk(top[0].value) if not isinstance(x, ast.Attribute)):
            return None
        saved = self.module
        try:
            self.module = module
            v = self.eval(top[0].value, State({}))
        except (Unsupported, AnalysisError):
            v = None
        finally:
            self.module = saved

        if isinstance(v, (int, float, Fraction)) and not isinstance(v, bool):
            v = Poly.const(v)

        def const(x):
            if isinstance(x, Poly):
                if x.is_const():
                    return True
                xa = x.as_atom()
                if xa is not None and xa[0] in ("attrgetter", "itemgetter"):
                    return True
                if xa is not None and xa[0] == "g" and len(xa) == 2:
                    return True  # a class / function of the program, named in a table
                try:  # a closed term (log(1), exp(-2), inf ...): the same image under unrelated valuations
                    a, b = Valuation(0, salt="mc0").image(x.key()), Valuation(7, salt="mc1").image(x.key())
                    return a == b or (a != a and b != b)
                except (ValueError, OverflowError, ZeroDivisionError, Unsupported):
                    return False
            if isinstance(x, (str, bool)) or x is None:
                return True
            if isinstance(x, (ATuple, AList)):
                return not getattr(x, "doms", None) and all(const(i) for i in x.items)
            return False

        cache[key] = v if (v is not None and const(v)) else None
        return cache[key]

    def global_name(self, name):
        tgt = self.module.imports.get(name)
        if tgt:
            return tgt
        return name

    def e_Attribute(self, e, st):
        dotted = _dotted(e)
        if dotted and dotted.split(".")[0] not in st.env:
            root = dotted.split(".")[0]
            # module-level constant such as np.inf, math.inf
            full = self.global_name(root) + dotted[len(root):]
            if full in ("numpy.inf", "math.inf", "np.inf"):
                return Poly.atom(("const", "inf"))
            if root in self.module.imports or root in ("np", "math"):
                return Poly.atom(("g", full))
        base = self.eval(e.value, st)
        return self.attr_of(base, e.attr, e.value, e, st)

    def _is_class_constant(self, attr):
        """Is `attr` bound in a class body of the repository (and never assigned through an instance)?"""
        cache = self.I.__dict__.setdefault("_classconsts", None)
        if cache is None:
            cache = set()
            inst = set()
            for ci in self.I.prog.classes.values():
                for st_ in ci.node.body:
                    if isinstance(st_, (ast.Assign, ast.AnnAssign)) and getattr(st_, "value", None) is not None:
                        for t in (st_.targets if isinstance(st_, ast.Assign) else [st_.target]):
                            if isinstance(t, ast.Name):
                                cache.add(t.id)
                for n in ast.walk(ci.node):
                    if isinstance(n, ast.Attribute) and isinstance(n.ctx, ast.Store):
                        inst.add(n.attr)
            cache -= inst
            self.I.__dict__["_classconsts"] = cache
        return attr in cache

    def attr_of(self, base, attr, base_node, node, st):
        """Value of `base.attr` (also reached through getattr(base, "attr"))."""
        if isinstance(base, ARecord) and attr in base.names:
            return base.items[base.names.index(attr)]
        if isinstance(base, Poly):
            ba = base.as_atom()
            if ba is not None and ba[0] == "val" and isinstance(ba[1], tuple) and ba[1] and ba[1][0] == "tuple" and attr in (_RECORD_NAMES.get(ba[1]) or ()):
                return _value_of_key(ba[1]).items[_RECORD_NAMES[ba[1]].index(attr)]
            if ba is not None and ba[0] == "cond":
                # a record chosen by a test: the field of the record that is chosen
                alts = []
                for g, k in ba[1]:
                    if isinstance(k, tuple) and k and k[0] == "tuple" and attr in (_RECORD_NAMES.get(k) or ()):
                        alts.append((g, _value_of_key(k).items[_RECORD_NAMES[k].index(attr)]))
                    else:
                        alts = None
                        break
                if alts:
                    return make_cond(alts)
        slot = ("@attr", vkey(base), attr)
        if slot in st.env:
            return st.env[slot]
        if isinstance(base, Poly):
            ca = base.as_atom()
            if ca is not None and ca[0] in ("call", "mcall") and isinstance(ca[1], str):
                short_ = ca[1].split(".")[-1]
                fl = self.I.prog.returns_record(short_)
                if not fl and ca[0] == "call":
                    here_ = self.I.prog.resolve_function(short_, self.module)
                    fl = self.I.prog.returns_record(short_, only=here_) if here_ is not None else None
                if fl and attr in fl:
                    # the result of a function that returns a named record: field `attr` is position fl.index(attr)
                    return Poly.atom(("sub", vkey(base), Poly.const(fl.index(attr)).key()))
        if isinstance(base, Poly):
            na = base.as_atom()
            if na is not None and na[0] == "mcall" and na[1] == "__new__" and len(na[3]) == 1 and na[3][0] == na[2] and not na[4] and self._is_class_constant(attr):
                # an attribute the bare instance `cls.__new__(cls)` was never given is looked up on the class
                return self.attr_of(_value_of_key(na[2]), attr, base_node, node, st)
        if ("@ver", vkey(base)) in st.env:
            return Poly.atom(("attr", st.env[("@ver", vkey(base))], attr))
        # property getter on self or on a class-typed symbol
        ci = self.class_of(base, base_node, st)
        if ci is not None:
            getter = self.I.prog.prop(ci, attr, "getter")
            if getter is not None and self.should_inline(getter):
                return self.call_function(getter, [base], {}, st, node, self_cls=ci)
        return Poly.atom(("attr", vkey(base), attr))

    def class_of(self, base, node, st):
        """Class of an abstract value when it is the `self`/`cls` symbol of the current method."""
        if isinstance(node, ast.Name) and node.id in ("self", "cls") and self.cls is not None:
            params = [a.arg for a in self.fi.node.args.args]
            if params and params[0] == node.id:
                return self.cls
        if isinstance(base, Poly):
            a = base.as_atom()
            if a is not None and a[0] == "obj":
                return self.I.prog.classes.get(a[1])
            # objects of the current class created in this method: cls.__new__(cls) / ClassName(...), possibly updated since
            while a is not None and a[0] == "upd":
                a = key_atom(a[2])
            if a is not None and self.cls is not None and self.I.resolve_new_objects:
                if a[0] == "mcall" and a[1] == "__new__":
                    return self.cls
                if a[0] == "call" and a[1] == "new:" + self.cls.name:
                    return self.cls
        return None

    def e_BinOp(self, e, st):
        return self.binop(e.op, self.eval(e.left, st), self.eval(e.right, st))

    def binop(self, op, a, b):
        if isinstance(op, ast.Add):
            if isinstance(a, (AList, ATuple)) and isinstance(b, (AList, ATuple)):
                cls = AList if isinstance(a, AList) else ATuple
                if cls is AList:
                    return AList(a.items + b.items, getattr(a, "doms", []) + getattr(b, "doms", []))
                return ATuple(a.items + b.items)
            if isinstance(a, str) and isinstance(b, str):
                return a + b
            if (isinstance(a, str) or _str_pieces(a) is not None) and (isinstance(b, str) or _str_pieces(b) is not None):
                return make_str(_str_pieces(a) + _str_pieces(b))
            if isinstance(a, str) or isinstance(b, str):
                # text + value: the value is a string here (python would raise otherwise)
                return make_str(_piece_of(a) + _piece_of(b))
            if isinstance(a, (AList, ATuple)) or isinstance(b, (AList, ATuple)):
                return Poly.atom(("call", "concat", (vkey(a), vkey(b)), ()))
            if self._is_sequence_term(a) or self._is_sequence_term(b):
                return Poly.atom(("call", "concat", (vkey(a), vkey(b)), ()))  # list + list, not number + number
            return as_term(a) + as_term(b)
        if isinstance(op, ast.Mult) and (isinstance(a, (AList, str)) or isinstance(b, (AList, str))):
            lst, cnt = (a, b) if isinstance(a, (AList, str)) else (b, a)
            if isinstance(lst, AList) and not lst.doms and isinstance(cnt, Poly) and cnt.is_const() and cnt.const_value().denominator == 1 and 0 <= cnt.const_value() <= 16:
                return AList(list(lst.items) * int(cnt.const_value()))  # [x] * 3 is [x, x, x]
            return Poly.atom(("call", "repeat", (vkey(a), vkey(b)), ()))
        a, b = as_term(a), as_term(b)
        if isinstance(op, ast.Sub):
            return a - b
        if isinstance(op, ast.Mult):
            return a * b
        if isinstance(op, ast.Div):
            return a / b
        if isinstance(op, ast.Pow):
            return a ** b
        name = type(op).__name__
        return Poly.atom(("call", "op_" + name, (a.key(), b.key()), ()))

    @staticmethod
    def _cond_of_dicts(v):
        """A dictionary built here that was filled under a test (its state merged into a conditional)."""
        a = v.as_atom() if isinstance(v, Poly) else None
        return a is not None and a[0] == "cond" and all(isinstance(k, tuple) and k and k[0] == "dict" for _, k in a[1])

    def _is_sequence_term(self, v):
        """An uninterpreted value known to be a list: a concatenation, or the result of a repository function all of
        whose namesakes return lists."""
        a = v.as_atom() if isinstance(v, Poly) else None
        if a is None:
            return False
        if a[0] == "call" and a[1] == "concat":
            return True
        if a[0] in ("call", "mcall") and isinstance(a[1], str):
            return self.I.prog.returns_sequence(a[1].split(".")[-1])
        return False

    def e_UnaryOp(self, e, st):
        v = self.eval(e.operand, st)
        if isinstance(e.op, ast.USub):
            return -as_term(v)
        if isinstance(e.op, ast.UAdd):
            return as_term(v)
        if isinstance(e.op, ast.Not):
            return Poly.atom(g_not(truth_of(v))) if g_not(truth_of(v)) not in (TRUE, FALSE) else (g_not(truth_of(v)) == TRUE)
        if isinstance(e.op, ast.Invert):
            return Poly.atom(("call", "invert", (vkey(v),), ()))
        raise Unsupported("unary op")

    def e_BoolOp(self, e, st):
        gs = [truth_of(self.eval(v, st)) for v in e.values]
        g = g_and(gs) if isinstance(e.op, ast.And) else g_or(gs)
        if g == TRUE:
            return True
        if g == FALSE:
            return False
        return Poly.atom(g)

    def e_Compare(self, e, st):
        left = self.eval(e.left, st)
        gs = []
        for op, right in zip(e.ops, e.comparators):
            r = self.eval(right, st)
            opname = {
                ast.Eq: "==", ast.NotEq: "!=", ast.Lt: "<", ast.LtE: "<=", ast.Gt: ">", ast.GtE: ">=",
                ast.Is: "is", ast.IsNot: "is not", ast.In: "in", ast.NotIn: "not in",
            }[type(op)]
            gs.append(self.compare(opname, left, r))
            left = r
        g = g_and(gs)
        if g == TRUE:
            return True
        if g == FALSE:
            return False
        return Poly.atom(g)

    def compare(self, op, a, b):
        if op in ("in", "not in"):
            g = g_cmp("in", vkey(a), vkey(b), keys=True)
            return g if op == "in" else g_not(g)
        if isinstance(a, str) and isinstance(b, str):
            r = {"==": a == b, "!=": a != b}.get(op)
            if r is not None:
                return TRUE if r else FALSE
        if (a is None or b is None) and op in ("is", "is not", "==", "!="):
            if a is None and b is None:
                return TRUE if op in ("is", "==") else FALSE
        return g_cmp(op, a if not isinstance(a, (str, bool)) and a is not None else as_term(a),
                     b if not isinstance(b, (str, bool)) and b is not None else as_term(b))

    def e_NamedExpr(self, e, st):
        # `(x := value)`: the value, with x bound from here on (the binding is made in the state the expression is
        # evaluated in: a test evaluated before the branches fork binds it for both)
        v = self.eval(e.value, st)
        self.assign(e.target, v, st)
        return v

    def e_IfExp(self, e, st):
        g = known_truth(truth_of(self.eval(e.test, st)), list(Event.prefix) + st.guards)
        if g == TRUE:
            return self.eval(e.body, st)
        if g == FALSE:
            return self.eval(e.orelse, st)
        if any(isinstance(n, ast.Call) for arm in (e.body, e.orelse) for n in ast.walk(arm)):
            # an arm that calls something is evaluated only when it is selected: its effects (and the state changes of
            # an inlined helper) happen under the test, exactly as in the statement form
            s1, s2 = st.fork(g), st.fork(g_not(g))
            v1 = self.eval(e.body, s1)
            v2 = self.eval(e.orelse, s2)
            m = merge_states([s1, s2], len(st.guards))
            st.env.clear()
            st.env.update(m.env)
            return make_cond([(g, v1), (TRUE, v2)])
        return make_cond([(g, self.eval(e.body, st)), (TRUE, self.eval(e.orelse, st))])

    def e_Tuple(self, e, st):
        return ATuple([self.eval(x, st) for x in e.elts])

    def e_List(self, e, st):
        return AList([self.eval(x, st) for x in e.elts])

    def e_Set(self, e, st):
        return ASet([self.eval(x, st) for x in e.elts])

    def e_Dict(self, e, st):
        d = ADict()
        for k, v in zip(e.keys, e.values):
            if k is None:
                raise Unsupported("dict unpacking")
            kv = self.eval(k, st)
            d.items[vkey(kv)] = (kv, self.eval(v, st))
        return d

    def e_JoinedStr(self, e, st):
        pieces = []
        for part in e.values:
            if isinstance(part, ast.Constant) and isinstance(part.value, str):
                pieces.append(part.value)
            elif isinstance(part, ast.FormattedValue) and part.format_spec is None and part.conversion in (-1, 115):
                pieces += _piece_of(self.eval(part.value, st))
            else:
                return Poly.atom(("fstr", ast.unparse(e)))
        return make_str(pieces)

    def e_Lambda(self, e, st):
        # canonical parameter names, so that renaming a lambda's parameter is invisible
        ren = {a.arg: "_a%d" % i for i, a in enumerate(e.args.posonlyargs + e.args.args)}
        import copy as _copy

        e2 = _copy.deepcopy(e)
        for n in ast.walk(e2):
            if isinstance(n, ast.Name) and n.id in ren:
                n.id = ren[n.id]
            elif isinstance(n, ast.arg) and n.arg in ren:
                n.arg = ren[n.arg]
        text = ast.unparse(e2)
        # remember the closure (the values the free names have now), so that map(lambda ...) can apply it at once
        self.I.__dict__.setdefault("lambdas", {})[text] = (e2, dict(st.env), self)
        return Poly.atom(("lambda", text))

    def e_Starred(self, e, st):
        raise Unsupported("starred expression")

    def e_Slice(self, e, st):
        return self.eval_index(e, st)

    def eval_index(self, sl, st):
        if isinstance(sl, ast.Slice):
            parts = [self.eval(x, st) if x is not None else None for x in (sl.lower, sl.upper, sl.step)]
            return Poly.atom(("slice",) + tuple(vkey(p) for p in parts))
        if isinstance(sl, ast.Tuple):
            return ATuple([self.eval_index(x, st) for x in sl.elts])
        return self.eval(sl, st)

    def e_Subscript(self, e, st):
        base = self.eval(e.value, st)
        if isinstance(e.slice, ast.Slice) and e.slice.lower is None and e.slice.upper is None and e.slice.step is None:
            return base  # x[:] is a copy of x: the same value
        idx = self.eval_index(e.slice, st)
        if isinstance(e.slice, ast.Slice) and e.slice.lower is None and e.slice.upper is None and isinstance(e.slice.step, ast.UnaryOp) and isinstance(e.slice.step.op, ast.USub) and isinstance(e.slice.step.operand, ast.Constant) and e.slice.step.operand.value == 1:
            if isinstance(base, (AList, ATuple)) and not getattr(base, "doms", None):
                return (AList if isinstance(base, AList) else ATuple)(list(reversed(base.items)))
            return Poly.atom(("call", "reversed", (vkey(base),), ()))
        if isinstance(e.slice, ast.Slice) and isinstance(base, (AList, ATuple)) and not getattr(base, "doms", None):
            # a constant slice of a concrete sequence is a concrete sequence
            def bound(x):
                if x is None:
                    return True, None
                v = self.eval(x, st)
                if isinstance(v, Poly) and v.is_const() and v.const_value().denominator == 1:
                    return True, int(v.const_value())
                return False, None
            parts = [bound(e.slice.lower), bound(e.slice.upper), bound(e.slice.step)]
            if all(ok for ok, _ in parts) and parts[2][1] != 0:
                return (AList if isinstance(base, AList) else ATuple)(list(base.items[slice(parts[0][1], parts[1][1], parts[2][1])]))
        if isinstance(base, Poly) and isinstance(idx, Poly) and idx.is_const() and idx.const_value().denominator == 1:
            ba0 = base.as_atom()
            if ba0 is not None and ba0[0] == "val" and isinstance(ba0[1], tuple) and ba0[1] and ba0[1][0] == "tuple":
                n0 = len(ba0[1]) - 1
                c0 = int(idx.const_value())
                if -n0 <= c0 < n0:
                    return _value_of_key(ba0[1][1 + (c0 % n0)])  # a constant position of a concrete tuple
        if isinstance(base, AList) and base.items and isinstance(idx, Poly) and not idx.is_const() and all(isinstance(x, ARecord) and x.names == base.items[0].names for x in base.items):
            # records[i] for a computed i: the record of the i-th value of every field
            cols = [AList([x.items[j] for x in base.items], list(base.doms)) for j in range(len(base.items[0].names))]
            return ARecord([Poly.atom(("sub", c.key(), idx.key())) for c in cols], base.items[0].names)
        ba = base.as_atom() if isinstance(base, Poly) else None
        if ba is not None and ba[0] == "sub" and not isinstance(e.slice, (ast.Slice, ast.Tuple)) and isinstance(idx, Poly) and idx.is_const() and idx.const_value().denominator == 1 and idx.const_value() >= 0:
            # x[:k][i] with 0 <= i < k (a prefix taken for unpacking) is x[i]
            sl = key_atom(ba[2]) if _is_polykey(ba[2]) else None
            none_k = vkey(None)
            if sl is not None and sl[0] == "slice" and sl[1] == none_k and sl[3] == none_k:
                hi = _const_of_key(sl[2])
                if hi is not None and idx.const_value() < hi:
                    return Poly.atom(("sub", ba[1], idx.key()))
        if ba is not None and ba[0] == "sub" and not isinstance(e.slice, (ast.Slice, ast.Tuple)) and isinstance(idx, Poly):
            # row = L[i, :]; row[j]  is  L[i, j]
            ik = ba[2]
            if isinstance(ik, tuple) and ik and ik[0] == "tuple" and len(ik) == 3:
                last = key_atom(ik[2]) if _is_polykey(ik[2]) else None
                none = vkey(None)
                if last is not None and last[0] == "slice" and last[1:] == (none, none, none):
                    return Poly.atom(("sub", ba[1], ("tuple", ik[1], idx.key())))
        slot = ("@sub", vkey(base), vkey(idx))
        if slot in st.env:
            return st.env[slot]
        if isinstance(base, (AList, ATuple)) and not getattr(base, "doms", None) and isinstance(idx, Poly) and idx.is_const():
            c = idx.const_value()
            if c.denominator == 1 and -len(base.items) <= int(c) < len(base.items):
                return base.items[int(c)]
        if isinstance(base, AList) and base.doms and base.items and isinstance(idx, Poly) and idx.is_const() and idx.const_value() == -1:
            # the last element of a list being grown by a loop is the element appended last
            last = base.items[-1]
            la = last.as_atom() if isinstance(last, Poly) else None
            if not (la is not None and la[0] == "star"):
                return last
        if isinstance(base, ADict) and vkey(idx) in base.items:
            return base.items[vkey(idx)][1]
        return Poly.atom(("sub", vkey(base), vkey(idx)))

    def comprehension(self, elt_fn, generators, st):
        """Evaluate a comprehension: returns (items, doms)."""
        items, doms = [], []

        def rec(gi, cur):
            if gi == len(generators):
                items.append(elt_fn(cur))
                return
            gen = generators[gi]
            it = self.eval(gen.iter, cur)
            concrete = isinstance(it, (AList, ATuple)) and not getattr(it, "doms", None)
            if not concrete:
                doms.append(vkey(it))
            for el in self.domain_elements(it, gen.iter):
                s2 = State(cur.env, cur.guards)
                present = TRUE
                if _maybe_absent(el):
                    present, el = split_presence(el)
                    present = known_truth(present, s2.guards)
                self.assign(gen.target, el, s2)
                conds = [present] + [truth_of(self.eval(c, s2)) for c in gen.ifs]
                g = g_and(conds)
                if g == FALSE:
                    continue
                if g != TRUE:
                    s2.guards.append(g)
                    s2.env["@filter"] = g_and([s2.env.get("@filter", TRUE), g])
                rec(gi + 1, s2)

        rec(0, State(st.env, st.guards))
        return items, doms

    def e_ListComp(self, e, st):
        def elt(cur):
            v = self.eval(e.elt, cur)
            f = cur.env.get("@filter", TRUE)
            if f != TRUE:
                return make_cond([(f, v), (TRUE, Poly.atom(("absent",)))])
            return v

        if len(e.generators) == 1:
            # the sequence is one of several (`xs + [extra] if flag else xs`): one pass over the positions of the
            # alternatives laid side by side; an element an alternative does not have is absent under its test
            it = self.eval(e.generators[0].iter, st)
            alts = _cond_alternatives(it) if isinstance(it, Poly) else None
            if not (alts is not None and 1 < len(alts) <= 4):
                # (the iterable is evaluated once: a call in it must not be recorded twice)
                g0 = e.generators[0]
                gen = ast.comprehension(target=g0.target, iter=ast.Name(id="@alt", ctx=ast.Load()), ifs=g0.ifs, is_async=0)
                s2 = State(st.env, st.guards)
                s2.env["@alt"] = it
                items, doms = self.comprehension(elt, [gen], s2)
                return AList(items, doms)
            if alts is not None and 1 < len(alts) <= 4:
                g0 = e.generators[0]
                lists, doms = [], []
                for g, v in alts:
                    els = self.domain_elements(v, g0.iter)
                    lists.append((g, AList(list(els))))
                    if not (isinstance(v, (AList, ATuple)) and not getattr(v, "doms", None)):
                        va = v.as_atom() if isinstance(v, Poly) else None
                        dk = va[2][0] if (va is not None and va[0] == "call" and va[1] == "concat") else vkey(v)
                        if dk not in doms:
                            doms.append(dk)
                merged = make_cond(lists)
                if isinstance(merged, AList):
                    gen = ast.comprehension(target=g0.target, iter=ast.Name(id="@alt", ctx=ast.Load()), ifs=g0.ifs, is_async=0)
                    s2 = State(st.env, st.guards)
                    s2.env["@alt"] = AList(list(merged.items))
                    items, d2 = self.comprehension(elt, [gen], s2)
                    return AList(items, doms + [d for d in d2 if d not in doms])
                gen = ast.comprehension(target=g0.target, iter=ast.Name(id="@alt", ctx=ast.Load()), ifs=g0.ifs, is_async=0)
                s2 = State(st.env, st.guards)
                s2.env["@alt"] = it
                items, doms = self.comprehension(elt, [gen], s2)
                return AList(items, doms)
        items, doms = self.comprehension(elt, e.generators, st)
        return AList(items, doms)

    e_GeneratorExp = e_ListComp

    def e_SetComp(self, e, st):
        l = self.e_ListComp(e, st)
        if "set" not in st.env:
            return self.call_named("set", "set", [l], {}, st, e)  # {x for ...} is set([x for ...])
        return Poly.atom(("call", "set", (l.key(),), ()))

    def e_DictComp(self, e, st):
        def elt(cur):
            k, v = self.eval(e.key, cur), self.eval(e.value, cur)
            f = cur.env.get("@filter", TRUE)
            if f != TRUE and isinstance(v, Poly):
                v = make_cond([(f, v), (TRUE, Poly.atom(("absent",)))])  # an entry the filter leaves out
            return ATuple([k, v])

        items, doms = self.comprehension(elt, e.generators, st)
        d = ADict(doms=doms)
        for it in items:
            d.items[vkey(it.items[0])] = (it.items[0], it.items[1])
        return d

    # ------------------------------------------------------------ calls
    def e_Call(self, e, st):
        # evaluate arguments
        args = []
        for a in e.args:
            if isinstance(a, ast.Starred):
                v = self.eval(a.value, st)
                if isinstance(v, (AList, ATuple)) and not getattr(v, "doms", None):
                    args.extend(v.items)
                else:
                    args.append(Poly.atom(("star", vkey(v))))
            else:
                args.append(self.eval(a, st))
        kwargs = {}
        for k in e.keywords:
            if k.arg is None:
                kv = self.eval(k.value, st)
                if isinstance(kv, ADict) and not kv.doms and all(isinstance(kk, str) for kk, _ in kv.items.values()):
                    # f(**{"a": x, "b": y}) with a table built here is f(a=x, b=y)
                    for kk, vv in kv.items.values():
                        kwargs[kk] = vv
                else:
                    kwargs["**"] = kv
            else:
                kwargs[k.arg] = self.eval(k.value, st)
        f = e.func
        dotted = _dotted(f)
        # ---- plain / dotted global function names
        if isinstance(f, ast.Name) and f.id not in st.env:
            mc = self.module_constant(self.module, f.id)
            if isinstance(mc, Poly) and mc.as_atom() is not None and mc.as_atom()[0] in ("attrgetter", "itemgetter") and not kwargs:
                return self.apply_ref(mc, list(args), st, e)
            return self.call_named(f.id, f.id, args, kwargs, st, e)
        if dotted and dotted.split(".")[0] not in st.env and not (dotted.split(".")[0] in ("self", "cls")):
            root = dotted.split(".")[0]
            if root in self.module.imports or root in ("np", "math") or root in STD_ROOTS:
                return self.call_named(dotted, dotted, args, kwargs, st, e)
            # ClassName.method(...)
            ci = self.I.prog.resolve_class(root, self.module)
            if ci is not None and dotted.count(".") == 1:
                m = self.I.prog.method(ci, dotted.split(".")[1])
                if m is not None:
                    folded = self.fold_delegate(m, args, kwargs, st, e)
                    if folded is not None:
                        return folded[0]
                    if self.should_inline(m):
                        is_static = any(d in ("staticmethod",) for d in m.decorators)
                        is_cls = any(d in ("classmethod",) for d in m.decorators)
                        a2 = ([Poly.atom(("g", ci.qualname))] if is_cls else []) + args
                        return self.call_function(m, a2, kwargs, st, e, self_cls=ci)
                    return self.opaque_call(ci.name + "." + m.name, args, kwargs, st, e)
        # ---- method call on a value
        if isinstance(f, ast.Attribute):
            recv = self.eval(f.value, st)
            return self.call_method(recv, f, args, kwargs, st, e)
        if isinstance(f, ast.Name):
            fv = st.env[f.id]
            # a local that holds a function reference, or one of several (`g = a if c else b; g(x)`): the call of the
            # function it holds, under the condition that selects it
            alts = _cond_alternatives(fv) if isinstance(fv, Poly) else None
            refs = alts if alts is not None else ([(TRUE, fv)] if isinstance(fv, Poly) else [])
            fa = fv.as_atom() if isinstance(fv, Poly) else None
            if alts is not None and len(alts) > 1 and all(isinstance(r, Poly) and r.as_atom() is not None and r.as_atom()[0] == "localdef" for _, r in alts):
                # one of several local functions, chosen by a test: the call of each under its test
                outs = []
                for g_, r_ in alts:
                    s2 = State(st.env, st.guards + ([g_] if g_ != TRUE else []))
                    s2.env[f.id] = r_
                    outs.append((g_, self.e_Call(e, s2)))
                    for k_, v_ in s2.env.items():
                        if isinstance(k_, tuple) and k_ not in st.env:
                            st.env[k_] = v_
                return make_cond(outs)
            ld = self.I.__dict__.get("localdefs", {}).get((self.fi.qualname,) + tuple(fa[1:])) if (fa is not None and fa[0] == "localdef") else None
            if ld is not None and len(self.I.stack) < self.I.max_depth and (self.fi.qualname + "." + fa[1]) not in self.I.stack:
                # a function defined inside this one: its body, reading the enclosing function's variables
                from .model import FunctionInfo

                node_, outer, cls_ = ld
                nfi = self.I.prog.functions.get(outer.qualname + "." + fa[1])
                if nfi is None or nfi.node is not node_:
                    nfi = FunctionInfo(outer.qualname + "." + fa[1], node_, self.module, cls=None, parent=outer)
                own = {a.arg for a in node_.args.posonlyargs + node_.args.args + node_.args.kwonlyargs}
                carried = {k: v for k, v in st.env.items() if isinstance(k, tuple) or k not in own}
                # defaults that capture the enclosing function's variables (`def f(col, sample=sample)`) are evaluated
                # in the enclosing frame
                pos_ = node_.args.posonlyargs + node_.args.args
                kwargs = dict(kwargs)
                for prm, dflt in zip(pos_[len(pos_) - len(node_.args.defaults):], node_.args.defaults):
                    if pos_.index(prm) >= len(args) and prm.arg not in kwargs and any(isinstance(x, ast.Name) and x.id in st.env for x in ast.walk(dflt)):
                        kwargs[prm.arg] = self.eval(dflt, st)
                for prm, dflt in zip(node_.args.kwonlyargs, node_.args.kw_defaults):
                    if dflt is not None and prm.arg not in kwargs and any(isinstance(x, ast.Name) and x.id in st.env for x in ast.walk(dflt)):
                        kwargs[prm.arg] = self.eval(dflt, st)
                saved = Event.prefix
                Event.prefix = tuple(saved) + tuple(st.guards)
                try:
                    res, final = _interp_run_with_env(self.I, nfi, list(args), kwargs, cls_, carried)
                finally:
                    Event.prefix = saved
                for k, v in final.env.items():
                    if isinstance(k, tuple):
                        st.env[k] = v
                return res
            if refs and not kwargs and all(isinstance(r, Poly) and r.as_atom() is not None and r.as_atom()[0] in ("g", "attrgetter", "itemgetter", "attr") for _, r in refs):
                # (`deg = graph.out_degree; deg(n)`: a bound method kept in a local is called as map() would call it)
                return make_cond([(g, self.apply_ref(r, list(args), st, e)) for g, r in refs])
            return self.opaque_call("local:" + show(fv) if not isinstance(fv, str) else fv, args, kwargs, st, e)
        raise Unsupported("call of %s" % ast.unparse(f))

    def canonical_name(self, dotted):
        root = dotted.split(".")[0]
        full = dotted
        tgt = self.module.imports.get(root)
        if tgt and root != tgt:
            full = tgt + dotted[len(root):]
        elif not tgt and root in STD_ROOTS and STD_ROOTS[root] != root:
            full = STD_ROOTS[root] + dotted[len(root):]  # the conventional alias of a library a module does not import (specifications)
        elif not tgt and dotted in WELL_KNOWN and self.I.prog.resolve_function(dotted, self.module) is None:
            # a specification (or a module that no longer imports it) naming a standard-library helper by its bare name
            full = WELL_KNOWN[dotted]
        full = full.replace("numpy.", "np.")
        return ALIASES.get(full, ALIASES.get(dotted, full))

    def call_named(self, dotted, shown, args, kwargs, st, node):
        name = self.canonical_name(dotted)
        short = name.split(".")[-1]
        if name in LIB_POSITIONAL and kwargs:
            # library calls whose leading parameters may be given by name: one spelling (positional)
            args, kwargs = list(args), dict(kwargs)
            sig = LIB_POSITIONAL[name]
            while len(args) < len(sig) and sig[len(args)] in kwargs:
                args.append(kwargs.pop(sig[len(args)]))
        if dotted == "str" and len(args) == 1 and not kwargs and "str" not in st.env:
            return make_str(_piece_of(args[0]))
        if name == "collections.defaultdict" and len(args) == 2 and not kwargs and isinstance(args[1], ADict) and args[1].items:
            # defaultdict(f, {k: v ...}) is d = defaultdict(f) followed by the stores d[k] = v
            base = self.call_named(dotted, shown, args[:1], {}, st, node)
            if isinstance(base, Poly):
                for kk, vv in args[1].items.values():
                    st.env[("@sub", vkey(base), vkey(kk))] = vv
                    self.I.events.append(Event("store_sub", [base, kk, vv], {}, st.guards, node))
                return base
        # numpy in-place idioms are canonicalised to one effect: store_content(destination, value)
        if name == "np.copyto" and len(args) >= 2:
            self.I.events.append(Event("store_content", [args[0], args[1]], {}, st.guards, node))
            return None
        if "out" in kwargs and name in ("np.add", "np.subtract", "np.multiply", "np.divide", "log", "exp", "log1p"):
            out = kwargs["out"]
            rest = {k: v for k, v in kwargs.items() if k not in ("out", "order", "dtype")}
            if name in ("np.add", "np.subtract", "np.multiply", "np.divide") and len(args) == 2 and not rest:
                a, b = as_term(args[0]), as_term(args[1])
                res = {"np.add": a + b, "np.subtract": a - b, "np.multiply": a * b, "np.divide": a / b}[name]
            else:
                res = self.call_named(dotted, shown, args, rest, st, node)
            self.I.events.append(Event("store_content", [out, res], {}, st.guards, node))
            return res
        # builtins with abstract semantics
        if dotted in ("np.zeros", "numpy.zeros", "np.ones", "numpy.ones") and isinstance(node, ast.Call) and len(node.args) >= 1 and isinstance(node.args[0], ast.Call) and isinstance(node.args[0].func, ast.Name) and node.args[0].func.id == "len" and len(node.args[0].args) == 1:
            # np.zeros(len(xs)) for a list built here: one zero per element that is present
            src = self.eval(node.args[0].args[0], st)
            if isinstance(src, AList):
                c = Poly.const(0 if dotted.endswith("zeros") else 1)
                items = []
                for x in src.items:
                    if _maybe_absent(x):
                        gp, _ = split_presence(x)
                        items.append(make_cond([(gp, c), (TRUE, Poly.atom(("absent",)))]))
                    else:
                        items.append(c)
                return AList(items, list(src.doms))
        if dotted == "dict" and len(args) == 1 and not kwargs and isinstance(args[0], Poly):
            za = args[0].as_atom()
            if za is not None and za[0] == "call" and za[1] == "zip" and len(za[2]) == 2 and not za[3]:
                # dict(zip(keys, values)) over pseudo-elements is the mapping {key_i: value_i}
                def seq(k):
                    if isinstance(k, tuple) and k and k[0] == "list":
                        return [poly_from_key(x) if _is_polykey(x) else Poly.atom(x) for x in k[1]]
                    if _is_polykey(k):
                        return self.domain_elements(poly_from_key(k), node)
                    return None
                ks, vs = seq(za[2][0]), seq(za[2][1])
                def same_dom():
                    # only the indexing idiom dict(zip([f(x) for x in D], D)): value i is the i-th pseudo-element of
                    # D and key i is computed from it
                    for kk, vv in zip(ks, vs):
                        va = vv.as_atom() if isinstance(vv, Poly) else None
                        if va is None or va[0] != "elem" or len(va) != 3:
                            return False
                        if repr(va) not in repr(vkey(kk)):
                            return False
                    return True
                if ks is not None and vs is not None and len(ks) == len(vs) and 0 < len(ks) <= 16 and same_dom():
                    d = ADict()
                    for kk, vv in zip(ks, vs):
                        d.items[vkey(kk)] = (kk, vv)
                    return d
        if dotted in ("len", "sum") and len(args) == 1 and isinstance(args[0], ASet) and not _set_items_distinct(args[0]):
            # a set built from computed values (`{len(x) for x in xs}`): equal values collapse, so neither the number of
            # elements nor their sum is that of the list the values came from
            return Poly.atom(("call", dotted, (vkey(args[0]),), ()))
        if dotted == "len" and len(args) == 1:
            v = args[0]
            if isinstance(v, (AList, ATuple)) and not getattr(v, "doms", None):
                return Poly.const(len(v.items))
            if isinstance(v, str):
                return Poly.const(len(v))
            if isinstance(v, ADict) and v.items and v.doms and any(_maybe_absent(x) for _, x in v.items.values()):
                tot = Poly.const(0)  # a filtered dict comprehension: one entry per element the filter keeps
                for _, x in v.items.values():
                    tot = tot + _presence(x)
                return tot
            if isinstance(v, AList) and any(_maybe_absent(x) for x in v.items):
                # filtered list: count the elements that are present
                tot = Poly.const(0)
                for x in v.items:
                    tot = tot + _presence(x)
                return tot
            if isinstance(v, AList) and len(v.doms) == 1 and len(v.items) == K_ELEMS:
                return Poly.atom(("call", "len", (v.doms[0],), ()))  # one item per element of the domain
            return Poly.atom(("call", "len", (vkey(v),), ()))
        if dotted == "sum" and args and isinstance(args[0], AList):
            tot = Poly.const(0) if len(args) == 1 else as_term(args[1])
            for it in args[0].items:
                tot = tot + _absent_to_zero(it)
            return tot
        if dotted in ("min", "max") and len(args) >= 2 and all(isinstance(a, Poly) and a.is_const() for a in args):
            fn = min if dotted == "min" else max
            return Poly.const(fn(a.const_value() for a in args))
        if dotted == "range":
            return Poly.atom(("call", "range", tuple(vkey(a) for a in _range_args(args)), ()))
        if dotted in ("filter", "itertools.filterfalse", "filterfalse") and len(args) == 2 and not kwargs and isinstance(args[0], Poly) and "filter" not in st.env and "filterfalse" not in st.env:
            # filter(f, xs) is [x for x in xs if f(x)]; filterfalse its complement
            fref, it = args
            els = self.domain_elements(it, node)
            concrete = isinstance(it, (AList, ATuple)) and not getattr(it, "doms", None)
            doms = list(getattr(it, "doms", [])) if isinstance(it, AList) else ([] if concrete else [vkey(it)])
            out = []
            for e_ in els:
                t = truth_of(self.apply_ref(fref, [e_], st, node))
                if dotted != "filter":
                    t = g_not(t)
                out.append(make_cond([(t, e_), (TRUE, Poly.atom(("absent",)))]))
            return AList(out, doms)
        if dotted == "map" and len(args) == 2 and not kwargs:
            fref, it = args
            els = self.domain_elements(it, node)
            concrete = isinstance(it, (AList, ATuple)) and not getattr(it, "doms", None)
            doms = list(getattr(it, "doms", [])) if isinstance(it, AList) else ([] if concrete else [vkey(it)])
            return AList([self.apply_ref(fref, [e], st, node) for e in els], doms)
        if dotted == "reversed" and len(args) == 1 and isinstance(args[0], (AList, ATuple)) and not getattr(args[0], "doms", None):
            return AList(list(reversed(args[0].items)))
        if dotted == "dict" and len(args) == 1 and not kwargs and isinstance(args[0], Poly) and args[0].as_atom() is not None and args[0].as_atom()[0] in ("attr", "v", "sub"):
            return args[0]  # a copy of a mapping: value semantics
        if dotted == "enumerate" and len(args) == 1 and not kwargs and isinstance(args[0], AList) and args[0].items and len(args[0].doms) == 1 and "enumerate" not in st.env \
                and not any(_maybe_absent(x) or (isinstance(x, Poly) and x.as_atom() is not None and x.as_atom()[0] == "star") for x in args[0].items):
            # a list with one entry per element of D (a comprehension / an append loop without a filter): position i of
            # the list is position i of D
            d = args[0].doms[0]
            return AList([ATuple([Poly.atom(("idx", d, i)), x]) for i, x in enumerate(args[0].items)], list(args[0].doms))
        if dotted in ("zip", "enumerate"):
            return Poly.atom(("call", dotted, tuple(vkey(a) for a in args), tuple(sorted((k, vkey(v)) for k, v in kwargs.items()))))
        if dotted == "float" and len(args) == 1 and isinstance(args[0], str):
            return Poly.atom(("const", {"inf": "inf", "-inf": "-inf"}.get(args[0], args[0])))
        if dotted == "isinstance":
            return Poly.atom(("call", "isinstance", (vkey(args[0]), ("const", ast.unparse(node.args[1]))), ()))
        if dotted == "dict" and not args:
            d = ADict()
            for k, v in kwargs.items():
                d.items[("const", repr(k))] = (k, v)
            return d
        if dotted in ("frozenset", "set") and len(args) == 1 and not kwargs and isinstance(args[0], (AList, ATuple)):
            # a set is insensitive to the order (and multiplicity) of its elements
            if dotted == "set":
                return ASet(list(args[0].items), list(getattr(args[0], "doms", [])))
            return Poly.atom(("call", dotted, tuple(sorted({vkey(i) for i in args[0].items}, key=_k)), ()))
        if dotted == "max" and len(args) == 2 and not kwargs and "max" not in st.env:
            # max(len(x), 1): a length is a non-negative integer, so this is `1 if len(x) == 0 else len(x)`
            for n_, one in ((args[0], args[1]), (args[1], args[0])):
                na = n_.as_atom() if isinstance(n_, Poly) else None
                if na is not None and na[0] == "call" and na[1] == "len" and isinstance(one, Poly) and one.is_const() and one.const_value() == 1:
                    return make_cond([(g_cmp("==", n_, Poly.const(0)), Poly.const(1)), (TRUE, n_)])
        if name in ("operator.attrgetter", "attrgetter") and len(args) == 1 and isinstance(args[0], str) and not kwargs and args[0].isidentifier():
            return Poly.atom(("attrgetter", args[0]))
        if name in ("operator.itemgetter", "itemgetter") and len(args) == 1 and not kwargs:
            return Poly.atom(("itemgetter", vkey(args[0])))
        if dotted in ("sorted", "list", "tuple", "set", "len", "iter") and len(args) == 1 and isinstance(args[0], Poly):
            ka = args[0].as_atom()
            if ka is not None and ka[0] == "mcall" and ka[1] == "keys" and not ka[3] and not ka[4] and _is_polykey(ka[2]):
                args = [poly_from_key(ka[2])] + list(args[1:])  # iterating a mapping is iterating its keys
        if dotted in ("all", "any") and len(args) == 1 and not kwargs and isinstance(args[0], AList) and args[0].items and dotted not in st.env:
            # all(a != x for a in xs)  is  x not in xs ;  any(a == x for a in xs)  is  x in xs
            eqs = []
            for it_ in args[0].items:
                ia = it_.as_atom() if isinstance(it_, Poly) else None
                if dotted == "all" and ia is not None and ia[0] == "not":
                    ia = ia[1]
                elif dotted == "all":
                    ia = None
                if ia is not None and ia[0] == "cmp" and ia[1] == "==":
                    eqs.append((ia[2], ia[3]))
                else:
                    eqs = None
                    break
            if eqs:
                side = 1 if all(p_[1] == eqs[0][1] for p_ in eqs) else (0 if all(p_[0] == eqs[0][0] for p_ in eqs) else None)
                if all(p_ == eqs[0] for p_ in eqs):
                    one = g_cmp("==", eqs[0][0], eqs[0][1], keys=True)
                    return Poly.atom(one if dotted == "any" else g_not(one))
                if side is not None:
                    x = eqs[0][side]
                    others = [p_[1 - side] for p_ in eqs]
                    inside = g_cmp("in", x, ("list", tuple(others)), keys=True)
                    return Poly.atom(inside if dotted == "any" else g_not(inside))
        if dotted == "getattr" and len(args) == 2 and isinstance(args[1], str) and not kwargs and args[1].isidentifier():
            return self.attr_of(args[0], args[1], node.args[0] if isinstance(node, ast.Call) and node.args else None, node, st)
        if dotted == "setattr" and len(args) == 3 and isinstance(args[1], str) and not kwargs and args[1].isidentifier():
            self.store_attr(args[0], args[1], args[2], node.args[0] if isinstance(node, ast.Call) and node.args else None, node, st)
            return None
        if name in ("functools.reduce", "reduce") and len(args) in (2, 3) and not kwargs and isinstance(args[1], (AList, ATuple)) and not getattr(args[1], "doms", None) and isinstance(args[0], Poly):
            # a fold over a concrete sequence is the chain of calls it makes
            items = list(args[1].items)
            fa = args[0].as_atom()
            if (len(args) == 3 or items) and fa is not None and fa[0] in ("g", "attr"):
                acc = args[2] if len(args) == 3 else items.pop(0)
                for x in items:
                    acc = self.apply_ref(args[0], [acc, x], st, node)
                return acc
        if name in ("itertools.islice", "islice") and 2 <= len(args) <= 4 and not kwargs:
            # islice(x, stop) / islice(x, start, stop[, step]) reads as the slice x[start:stop:step]
            parts = [None, args[1], None] if len(args) == 2 else ([args[1], args[2], args[3] if len(args) == 4 else None])
            parts = [None if (p is None or (isinstance(p, Poly) and p.as_atom() == ("const", "None"))) else p for p in parts]
            if isinstance(args[0], (AList, ATuple)) and not getattr(args[0], "doms", None) and all(p is None or (isinstance(p, Poly) and p.is_const() and p.const_value().denominator == 1) for p in parts):
                ints = [None if p is None else int(p.const_value()) for p in parts]
                return AList(list(args[0].items[slice(*ints)]))
            return Poly.atom(("sub", vkey(args[0]), vkey(Poly.atom(("slice",) + tuple(vkey(p) for p in parts)))))
        if dotted == "set" and not args and not kwargs:
            return ASet()
        if dotted == "list" and not args:
            return AList()
        if (name in IDENTITY_CALLS or dotted in IDENTITY_CALLS) and len(args) == 1 and not kwargs.keys() - {"dtype", "order"}:
            return args[0]
        if dotted == "super":
            return Poly.atom(("super",))
        # repository function?
        fi = None
        if "." not in dotted:
            fi = self.I.prog.resolve_function(dotted, self.module)
        else:
            full = self.global_name(dotted.split(".")[0]) + dotted[dotted.index("."):]
            fi = self.I.prog.functions.get(full) or self.I.prog._resolve_dotted_fn(full)
        if fi is None and "." not in dotted and self.fi.qualname.startswith("spec:") and dotted not in self.module.imports:
            # specifications may name the shared numeric helpers without importing them
            fi = self.I.prog.functions.get("phyclone.utils.math." + dotted)
        if fi is not None:
            folded = self.fold_delegate(fi, args, kwargs, st, node)
            if folded is not None:
                return folded[0]
            if self.should_inline(fi):
                return self.call_function(fi, args, kwargs, st, node)
            nm = ALIASES.get(fi.name, fi.name)
            if fi.cls is not None:
                nm = fi.cls.name + "." + fi.name
            return self.opaque_call(nm, args, kwargs, st, node)
        # record types: namedtuple / NamedTuple / dataclass
        if "." not in dotted:
            names = self.I.prog.record_fields(dotted, self.module)
            if names is not None and len(args) + len(kwargs) == len(names) and all(k in names[len(args):] for k in kwargs):
                return ARecord(list(args) + [kwargs[n] for n in names[len(args):]], names)
        # class constructor?
        ci = self.I.prog.resolve_class(dotted, self.module) if "." not in dotted else None
        if ci is not None:
            if self.I.prog.is_new_class(ci) and len(self.I.stack) < self.I.max_depth:
                # a class the specifications cannot know (a small private carrier / builder introduced by a refactoring):
                # a fresh object whose attributes live in the state, __init__ and methods looked into
                self.I.obj_serial = getattr(self.I, "obj_serial", 0) + 1
                obj = Poly.atom(("obj", ci.qualname, self.I.obj_serial))
                init = self.I.prog.method(ci, "__init__")
                if init is not None:
                    self.call_function(init, [obj] + list(args), kwargs, st, node, self_cls=ci)
                elif args or kwargs:
                    raise Unsupported("construction of %s with arguments but no __init__" % ci.name)
                return obj
            return self.opaque_call("new:" + ci.name, args, kwargs, st, node)
        return self.opaque_call(name, args, kwargs, st, node)

    def apply_ref(self, fref, args, st, node):
        """Call a function *reference* (first argument of map): a global function or a bound method."""
        a = fref.as_atom() if isinstance(fref, Poly) else None
        if a is not None and a[0] == "attrgetter" and len(args) == 1:
            return self.attr_of(args[0], a[1], None, node, st)
        if a is not None and a[0] == "itemgetter" and len(args) == 1:
            return Poly.atom(("sub", vkey(args[0]), a[1]))
        if a is not None and a[0] == "g":
            fi = self.I.prog.functions.get(a[1]) or self.I.prog._resolve_dotted_fn(a[1])
            if fi is None and "." not in a[1]:
                fi = self.I.prog.resolve_function(a[1], self.module)
            if fi is not None and self.should_inline(fi):
                return self.call_function(fi, args, {}, st, node)
            if fi is None and a[1] in ("str", "int", "float", "len", "list", "tuple", "set", "sorted", "sum", "max", "min", "abs"):
                return self.call_named(a[1], a[1], list(args), {}, st, node)  # the builtin, with the semantics a direct call has
            nm = a[1].split(".")[-1]
            if fi is None and "." in a[1] and not a[1].startswith("phyclone.") and a[1] not in ALIASES and nm not in ALIASES:
                return self.call_named(a[1], a[1], list(args), {}, st, node)  # a library function: named as a direct call names it
            return self.opaque_call(ALIASES.get(a[1], ALIASES.get(nm, nm)), args, {}, st, node)
        if a is not None and a[0] == "attr" and a[2] == "__contains__" and len(args) == 1:
            return g_cmp("in", args[0], poly_from_key(a[1]) if _is_polykey(a[1]) else Poly.atom(a[1]))  # d.__contains__(x) is `x in d`
        if a is not None and a[0] == "attr":
            self.I.events.append(Event("." + a[2], args, {}, st.guards, node, recv=None))
            return Poly.atom(("mcall", a[2], a[1], tuple(vkey(x) for x in args), ()))
        if a is not None and a[0] == "lambda" and a[1] in self.I.__dict__.get("lambdas", {}):
            lam, env0, frame = self.I.__dict__["lambdas"][a[1]]
            names = [x.arg for x in lam.args.posonlyargs + lam.args.args]
            if len(names) == len(args) and not lam.args.vararg and not lam.args.kwarg and not lam.args.kwonlyargs:
                env = dict(env0)
                env.update(zip(names, args))
                st2 = State(env, st.guards)
                return frame.eval(lam.body, st2)
        raise Unsupported("call through reference %s" % show(fref))

    def fold_delegate(self, fi, args, kwargs, st, node):
        """The helper a reference function F hands its work to (`return helper(<F's parameters>)`), called from anywhere
        but F itself — the recursion of F, now running through the helper — is the call of F with these arguments."""
        dg = self.I.prog.delegates().get(fi.qualname)
        if dg is None or self.fi is dg[0] or kwargs or len(args) != len(dg[1]):
            return None
        F, pos = dg
        fargs = [None] * (max(pos) + 1)
        for a_, j in zip(args, pos):
            fargs[j] = a_
        if any(x is None for x in fargs):
            return None
        nmF = (F.cls.name + "." + F.name) if F.cls is not None else ALIASES.get(F.name, F.name)
        off = 0 if (F.cls is None or "staticmethod" in F.decorators) else 1
        return (self.opaque_call(nmF, fargs[off:], {}, st, node),)

    def should_inline(self, fi):
        q = fi.qualname
        if q in self.I.stack:
            return False  # recursion: keep the recursive call as an uninterpreted atom
        if len(self.I.stack) >= self.I.max_depth:
            return False
        for s in self.I.no_inline:
            if q == s or q.endswith("." + s) or q.split("@")[0].endswith("." + s):
                return False
        for s in self.I.inline:
            if q == s or q.endswith("." + s) or q.split("@")[0].endswith("." + s):
                return True
        if self.I.inline_all_repo:
            return True
        if self.I.prog.is_new_function(fi):
            return True  # a helper newer than the rules: no specification can mention it
        if fi.module.name.endswith("utils.math"):
            return True
        if fi.cls is not None and self.cls is not None and fi.cls in self.I.prog.mro(self.cls) and fi.name not in self.I.opaque_self_methods:
            return True
        if fi.cls is None and fi.module is self.module and fi.parent is None:
            return True
        return False

    def call_function(self, fi, args, kwargs, st, node, self_cls=None):
        sub = self.I
        fi = sub.override.get(fi.qualname, fi)
        saved = Event.prefix
        Event.prefix = tuple(saved) + tuple(st.guards)
        # an array attribute handed to a helper (`self._accumulate(self.log_p, xs)`): an in-place `param += v` inside the
        # helper updates the array the attribute holds, exactly as `a = self.log_p; a += v` does in one function
        planted = []
        if isinstance(node, ast.Call):
            params_ = [a.arg for a in fi.node.args.posonlyargs + fi.node.args.args]
            off_ = len(args) - len(node.args)
            for j, a_ in enumerate(node.args):
                if isinstance(a_, ast.Attribute) and 0 <= off_ + j < len(params_) and off_ + j < len(args):
                    v_ = args[off_ + j]
                    at_ = v_.as_atom() if isinstance(v_, Poly) else None
                    if at_ is not None and at_[0] == "attr" and at_[2] == a_.attr and ("@alias", params_[off_ + j]) not in st.env:
                        st.env[("@alias", params_[off_ + j])] = v_
                        planted.append(("@alias", params_[off_ + j]))
        try:
            res, final = _run_inlined(sub, fi, args, kwargs, self_cls, st)
        finally:
            Event.prefix = saved
            for k_ in planted:
                st.env.pop(k_, None)
        # objects are passed by reference: a helper that edits an argument in place (`t.add_x(...)` as a statement)
        # has edited the caller's object.  Where the argument is a plain local of the caller and the helper never
        # rebinds the parameter, the caller's local now denotes the edited object.
        if isinstance(node, ast.Call) and final is not None:
            params = [a.arg for a in fi.node.args.posonlyargs + fi.node.args.args]
            offset = len(args) - len(node.args)
            rebound = {x.id for n in ast.walk(fi.node) for x in ast.walk(n) if isinstance(x, ast.Name) and isinstance(x.ctx, (ast.Store, ast.Del))}
            pairs = []
            for j, a in enumerate(node.args):
                if isinstance(a, ast.Name) and a.id in st.env and 0 <= offset + j < len(params) and offset + j < len(args):
                    pairs.append((a.id, params[offset + j], args[offset + j]))
            for kw in node.keywords:
                if kw.arg and isinstance(kw.value, ast.Name) and kw.value.id in st.env and kw.arg in params and kw.arg in kwargs:
                    pairs.append((kw.value.id, kw.arg, kwargs[kw.arg]))
            for local, p, oldv in pairs:
                if p in rebound:
                    continue
                newv = final.env.get(p)
                if isinstance(newv, Poly) and isinstance(oldv, Poly) and newv.key() != oldv.key() and "upd" in repr(newv.key())[:4000]:
                    st.env[local] = newv
                elif isinstance(oldv, (ADict, AList)) and newv is not None and newv is not oldv and vkey(newv) != vkey(oldv):
                    # a container filled on some paths of the helper only (the paths were forked, so the helper worked on
                    # copies): the caller's container is the merged one
                    st.env[local] = newv
        return res

    def call_method(self, recv, f, args, kwargs, st, node):
        name = f.attr
        if isinstance(recv, str) and name == "format":
            import string

            try:
                pieces, auto = [], 0
                for lit, field, spec, conv in string.Formatter().parse(recv):
                    if lit:
                        pieces.append(lit)
                    if field is None:
                        continue
                    if spec or conv not in (None, "s") or any(c in field for c in ".[") :
                        raise ValueError("format spec")
                    if field == "":
                        v = args[auto]
                        auto += 1
                    elif field.isdigit():
                        v = args[int(field)]
                    else:
                        v = kwargs[field]
                    pieces += _piece_of(v)
                return make_str(pieces)
            except (ValueError, IndexError, KeyError):
                pass
        # abstract containers
        if isinstance(recv, ASet) and name == "add" and len(args) == 1:
            name = "append"
        if isinstance(recv, ASet) and name == "update" and len(args) == 1:
            name = "extend"
        if isinstance(recv, AList):
            if name == "append" and len(args) == 1:
                recv.items.append(args[0])
                for d in self.I.loop_doms:
                    if d is not None:
                        for x in d:
                            if x not in recv.doms:
                                recv.doms.append(x)
                return None
            if name == "extend" and len(args) == 1:
                if isinstance(args[0], (AList, ATuple)):
                    recv.items.extend(args[0].items)
                    recv.doms.extend(getattr(args[0], "doms", []))
                else:
                    ra = args[0].as_atom() if isinstance(args[0], Poly) else None
                    if ra is not None and ra[0] == "call" and ra[1] in ("itertools.repeat", "repeat") and len(ra[2]) == 2 and not ra[3]:
                        # extend(repeat(x, n)) is `for _ in range(n): append(x)`: same pseudo-elements, same domain
                        x = poly_from_key(ra[2][0]) if _is_polykey(ra[2][0]) else Poly.atom(ra[2][0])
                        recv.items.extend([x] * K_ELEMS)
                        recv.doms.append(Poly.atom(("call", "range", (ra[2][1],), ())).key())
                        return None
                    recv.doms.append(vkey(args[0]))
                    recv.items.append(Poly.atom(("star", vkey(args[0]))))
                return None
            if name == "copy" and not args:
                return type(recv)(recv.items, recv.doms)
        if isinstance(recv, ADict) and name == "setdefault" and len(args) == 2 and not kwargs and not recv.items and isinstance(args[1], AList) and not args[1].items and isinstance(f.value, ast.Name):
            # d = {}; d.setdefault(k, []).append(x)  is  d = defaultdict(list); d[k].append(x)
            dd = Poly.atom(("call", "collections.defaultdict", (Poly.atom(("g", "list")).key(),), ()))
            for k2, v2 in list(st.env.items()):
                if v2 is recv:
                    st.env[k2] = dd
            return Poly.atom(("sub", dd.key(), vkey(args[0])))
        if isinstance(recv, Poly) and name == "setdefault" and len(args) == 2 and not kwargs and isinstance(args[1], AList) and not args[1].items:
            ra = recv.as_atom()
            if ra is not None and ra[0] == "call" and ra[1] == "collections.defaultdict":
                return Poly.atom(("sub", recv.key(), vkey(args[0])))
        if isinstance(recv, ADict):
            if name == "items" and (recv.items or not recv.doms):
                return AList([ATuple([k, v]) for k, v in recv.items.values()], list(recv.doms))
            if name == "values" and (recv.items or not recv.doms):
                return AList([v for k, v in recv.items.values()], list(recv.doms))
            if name == "keys" and (recv.items or not recv.doms):
                return AList([k for k, v in recv.items.values()], list(recv.doms))
            if name == "get" and args and vkey(args[0]) in recv.items:
                return recv.items[vkey(args[0])][1]
        # super().method(...)
        if isinstance(recv, Poly) and recv.as_atom() == ("super",) and self.cls is not None:
            mro = self.I.prog.mro(self.cls)
            for c in mro[1:]:
                if name in c.methods:
                    m = c.methods[name]
                    selfv = st.env.get(self.fi.node.args.args[0].arg) if self.fi.node.args.args else None
                    if self.should_inline(m) or True:
                        if m.qualname in self.I.stack or len(self.I.stack) >= self.I.max_depth:
                            break
                        return self.call_function(m, [selfv] + args, kwargs, st, node, self_cls=c)
            return self.opaque_call("super." + name, args, kwargs, st, node)
        # method of the current class on self
        ci = self.class_of(recv, f.value, st)
        if ci is not None:
            m = self.I.prog.method(ci, name)
            if m is not None and self.should_inline(m):
                is_static = "staticmethod" in m.decorators
                a2 = args if is_static else [recv] + args
                return self.call_function(m, a2, kwargs, st, node, self_cls=ci)
        if isinstance(recv, Poly):
            # a method newer than the rules that exactly one class of the repository defines, called on a value whose
            # class is not known (`other._identity_key()`): that method
            cands = [fi_ for fi_ in self.I.prog.functions.values() if fi_.name == name and fi_.cls is not None and "@" not in fi_.qualname]
            if len(cands) == 1 and self.I.prog.is_new_function(cands[0]) and "staticmethod" not in cands[0].decorators and "classmethod" not in cands[0].decorators and self.should_inline(cands[0]):
                return self.call_function(cands[0], [recv] + args, kwargs, st, node, self_cls=cands[0].cls)
        if name in ("extend", "append") and len(args) == 1 and isinstance(recv, Poly) and isinstance(f.value, ast.Name) and f.value.id in st.env:
            # in-place growth of an opaque sequence held in a local: rebind the local to the concatenation
            self.opaque_mcall(name, recv, args, kwargs, st, node)
            tail = args[0] if name == "extend" else AList([args[0]])
            st.env[f.value.id] = Poly.atom(("call", "concat", (vkey(recv), vkey(tail)), ()))
            return None
        if name == "copy" and not args and not kwargs and self.I.copy_is_identity:
            # value semantics: a copy equals its original (aliasing is decided by the AST rules, not here)
            return recv
        return self.opaque_mcall(name, recv, args, kwargs, st, node)

    def opaque_call(self, name, args, kwargs, st, node):
        if name.startswith("new:") and kwargs:
            # constructor: the parameters are those of the class's __init__
            try:
                ci = self.I.prog.cls(name[4:])
                init = self.I.prog.method(ci, "__init__") if ci is not None else None
            except AnalysisError:
                init = None
            if init is not None:
                ps = list(init.params)[1:]
                args, kwargs = list(args), dict(kwargs)
                while kwargs and len(args) < len(ps) and ps[len(args)] in kwargs:
                    args.append(kwargs.pop(ps[len(args)]))
        elif not name.startswith("new:"):
            done = False
            if kwargs and name.count(".") == 1:
                # Class.method(...): the parameters are those of that method
                cs = [c for c in self.I.prog.classes.values() if c.name == name.split(".")[0]]
                m = self.I.prog.method(cs[0], name.split(".")[1]) if len(cs) == 1 else None
                if m is not None:
                    ps = list(m.params)
                    if "staticmethod" not in m.decorators:
                        ps = ps[1:]
                    args, kwargs = list(args), dict(kwargs)
                    while kwargs and len(args) < len(ps) and ps[len(args)] in kwargs:
                        args.append(kwargs.pop(ps[len(args)]))
                    done = True
            if not done:
                args, kwargs = self._positionalise(name.split(".")[-1], args, kwargs, False)
        self.I.events.append(Event(name, args, kwargs, st.guards, node))
        if name in self.I.commutative and len(args) >= 2:
            a0, a1 = sorted(args[:2], key=lambda x: _k(vkey(x)))
            args = [a0, a1] + list(args[2:])
        return Poly.atom(("call", name, tuple(vkey(a) for a in args), tuple(sorted(((k, vkey(v)) for k, v in kwargs.items()), key=_k))))

    def _positionalise(self, name, args, kwargs, method):
        """`f(a, k=b)` and `f(a, b)` are one call when every repository function of that name takes `k` as its next
        positional parameter (keyword instead of positional argument is a refactoring, not a change)."""
        if not kwargs:
            return args, kwargs
        cands = [fi for fi in self.I.prog.functions.values() if fi.name == name and (fi.cls is not None) == method and all(k in fi.params for k in kwargs)]
        if not cands:
            return args, kwargs
        args, kwargs = list(args), dict(kwargs)
        while kwargs:
            nxt = set()
            for fi in cands:
                ps = list(fi.params)
                if method and "staticmethod" not in fi.decorators:
                    ps = ps[1:]
                nxt.add(ps[len(args)] if len(args) < len(ps) else None)
            if len(nxt) != 1 or None in nxt or next(iter(nxt)) not in kwargs:
                break
            args.append(kwargs.pop(next(iter(nxt))))
        return args, kwargs

    _IN_VIEWS = ("predecessors", "in_edges", "in_degree", "predecessor_indices")
    _OUT_VIEWS = ("successors", "out_edges", "out_degree", "successor_indices")

    @staticmethod
    def _distinct_nodes(k1, k2):
        """Two different pseudo-elements of one node collection (`G.nodes`, `G.node_indices()`, a mapping's keys): different nodes."""
        a, b = key_atom(k1) if _is_polykey(k1) else None, key_atom(k2) if _is_polykey(k2) else None
        if a is None or b is None or a[0] != "elem" or b[0] != "elem" or a[1] != b[1] or a[2] == b[2]:
            return False
        d = key_atom(a[1]) if _is_polykey(a[1]) else None
        while d is not None and d[0] == "call" and d[1] in ("list", "tuple", "sorted") and len(d[2]) == 1 and _is_polykey(d[2][0]):
            d = key_atom(d[2][0])
        return d is not None and ((d[0] == "attr" and d[2] in ("nodes",)) or (d[0] == "mcall" and d[1] in ("nodes", "node_indices", "keys")))

    def opaque_mcall(self, name, recv, args, kwargs, st, node):
        if name in self._IN_VIEWS + self._OUT_VIEWS and len(args) == 1 and not kwargs and isinstance(recv, Poly) and isinstance(args[0], Poly):
            # adding the edge (a, b) changes the predecessors of b and the successors of a, of no other node: a view of
            # another node asked of the graph after the edit is the view asked before it
            nk = args[0].key()
            inward = name in self._IN_VIEWS

            def strip(k, depth=0):
                a_ = key_atom(k) if _is_polykey(k) else None
                if a_ is None or depth > 12:
                    return k
                if a_[0] == "upd" and a_[1] == "add_edge" and len(a_[3]) >= 2 and self._distinct_nodes(nk, a_[3][1] if inward else a_[3][0]):
                    return strip(a_[2], depth + 1)
                if a_[0] == "cond":
                    alts = [strip(v, depth + 1) for _, v in a_[1]]
                    if alts and all(x == alts[0] for x in alts):
                        return alts[0]  # the same graph, as far as this node's view goes, whichever way the test went
                return k

            rk = strip(recv.key())
            if rk != recv.key():
                recv = poly_from_key(rk) if _is_polykey(rk) else Poly.atom(rk)
        if name == "update" and isinstance(recv, Poly) and ((len(args) == 1 and not kwargs and isinstance(args[0], ADict) and args[0].items) or (not args and kwargs and "**" not in kwargs)):
            # mapping.update({k: v, ...}) / mapping.update(k=v, ...) is the sequence of stores mapping[k] = v
            pairs = [(kk, vv) for kk, vv in args[0].items.values()] if args else [(k, v) for k, v in kwargs.items()]
            for kk, vv in pairs:
                st.env[("@sub", vkey(recv), vkey(kk))] = vv
                self.I.events.append(Event("store_sub", [recv, kk, vv], {}, st.guards, node))
            return None
        if name == "get" and len(args) == 2 and not kwargs and args[1] is None:
            args = args[:1]  # d.get(k, None) is d.get(k)
        if name == "get" and len(args) == 1 and not kwargs and isinstance(recv, Poly) and (recv.as_atom() or ("",))[0] in ("v", "attr", "sub"):
            # d.get(k): the entry d[k] when there is one (and None, which `is None` tests, when there is not)
            t = Poly.atom(("sub", vkey(recv), vkey(args[0])))
            _GET_TERMS.add(t.key())
            slot = ("@sub", vkey(recv), vkey(args[0]))
            return st.env.get(slot, t)
        if name == "get" and len(args) == 2 and not kwargs and isinstance(recv, Poly) and (recv.as_atom() or ("",))[0] in ("v", "attr", "sub"):
            # d.get(k, default): d[k] if k in d else default
            t = Poly.atom(("sub", vkey(recv), vkey(args[0])))
            slot = ("@sub", vkey(recv), vkey(args[0]))
            return make_cond([(g_cmp("in", args[0], recv), st.env.get(slot, t)), (TRUE, args[1])])
        if name == "pop" and len(args) == 1 and not kwargs and isinstance(recv, Poly):
            ra = recv.as_atom()
            if ra is not None and ra[0] == "attr":
                # `x = obj.table.pop(k)` is `x = obj.table[k]; del obj.table[k]` (for a mapping and for a list)
                val = Poly.atom(("sub", vkey(recv), vkey(args[0])))
                self.I.events.append(Event("del", [val], {}, st.guards, node))
                return val
        args, kwargs = self._positionalise(name, args, kwargs, True)
        self.I.events.append(Event("." + name, args, kwargs, st.guards, node, recv=recv))
        if name == "sum" and not args and not kwargs:
            return Poly.atom(("call", "sum", (vkey(recv),), ()))  # x.sum() is sum(x)
        if name in ("sum", "max", "min") and isinstance(recv, Poly) and set(kwargs) <= {"axis", "keepdims"} and len(args) <= 1:
            # array.sum(axis=k) is np.sum(array, axis=k) (the event above records the spelling; the value is one term)
            self.I.events.pop()
            return self.call_named("np." + name, "np." + name, [recv] + list(args), dict(kwargs), st, node)
        return Poly.atom(("mcall", name, vkey(recv), tuple(vkey(a) for a in args), tuple(sorted(((k, vkey(v)) for k, v in kwargs.items()), key=_k))))


def _run_inlined(interp, fi, args, kwargs, self_cls, st):
    # object state (attribute / subscript stores) is shared between caller and callee
    carried = {k: v for k, v in st.env.items() if isinstance(k, tuple)}
    res, final = _interp_run_with_env(interp, fi, list(args), kwargs, self_cls, carried)
    for k, v in final.env.items():
        if isinstance(k, tuple):
            st.env[k] = v
    return res, final


_USE_DEFAULT = object()


LIB_POSITIONAL = {
    "scipy.stats.gamma.rvs": ["a"], "scipy.stats.beta.rvs": ["a", "b"], "scipy.stats.bernoulli.rvs": ["p"],
    "scipy.stats.gamma.logpdf": ["x", "a"], "scipy.stats.beta.logpdf": ["x", "a", "b"],
}

CLASS_CONSTANTS = set()  # names bound in exactly one way in class bodies of the program under analysis (filled by Interp)


def _load_class_constants(prog):
    key = id(prog)
    if getattr(_load_class_constants, "_done", None) == key:
        return
    _load_class_constants._done = key
    bound, inst = {}, set()
    for ci in prog.classes.values():
        for st_ in ci.node.body:
            if isinstance(st_, (ast.Assign, ast.AnnAssign)) and getattr(st_, "value", None) is not None:
                for t in (st_.targets if isinstance(st_, ast.Assign) else [st_.target]):
                    if isinstance(t, ast.Name):
                        bound.setdefault(t.id, set()).add(ast.dump(st_.value))
        for n in ast.walk(ci.node):
            if isinstance(n, ast.Attribute) and isinstance(n.ctx, (ast.Store, ast.Del)):
                inst.add(n.attr)
    for m in prog.modules.values():
        for n in ast.walk(m.tree):
            if isinstance(n, ast.Attribute) and isinstance(n.ctx, (ast.Store, ast.Del)):
                inst.add(n.attr)
            if isinstance(n, ast.Call) and isinstance(n.func, ast.Name) and n.func.id == "setattr":
                inst.add("*")
    CLASS_CONSTANTS.clear()
    if "*" not in inst or True:
        CLASS_CONSTANTS.update(k for k, v in bound.items() if len(v) == 1 and k not in inst and k.isupper() or (len(v) == 1 and k not in inst and k.startswith("_") and k.upper() == k))


def _interp_run_with_env(interp, fi, args, kwargs, self_cls, carried):
    node = fi.node
    params = [a.arg for a in node.args.posonlyargs + node.args.args]
    env = dict(carried)
    kwargs = dict(kwargs)
    defaults = node.args.defaults
    ndef = len(defaults)
    frame = Frame(interp, fi, self_cls or fi.cls)
    for i, p in enumerate(params):
        if i < len(args) and args[i] is not _USE_DEFAULT:
            env[p] = args[i]
        elif p in kwargs:
            env[p] = kwargs.pop(p)
        elif i >= len(params) - ndef:
            env[p] = frame.eval(defaults[i - (len(params) - ndef)], State({}))
        else:
            raise Unsupported("missing argument %s inlining %s" % (p, fi.qualname))
    for a, d in zip(node.args.kwonlyargs, node.args.kw_defaults):
        if a.arg in kwargs:
            env[a.arg] = kwargs.pop(a.arg)
        elif d is not None:
            env[a.arg] = frame.eval(d, State({}))
    if node.args.vararg:
        env[node.args.vararg.arg] = AList(args[len(params):])
    if node.args.kwarg:
        env[node.args.kwarg.arg] = ADict({("const", repr(k)): (k, v) for k, v in kwargs.items()})
    entry = State(env, clone=False)
    if interp.assume and not interp.stack:
        g0 = truth_of(frame.eval(ast.parse(interp.assume, mode="eval").body, State(env, clone=False)))
        if g0 != TRUE:
            entry.guards.append(g0)
    interp.stack.append(fi.qualname)
    try:
        # the callee shares the caller's container objects (an append inside it is visible outside)
        outs = frame.exec_block(node.body, entry)
    finally:
        interp.stack.pop()
    rets, finals = [], []
    for st, oc in outs:
        if oc[0] == "return":
            rets.append((g_and(st.guards), oc[1]))
            finals.append(st)
        elif oc[0] == "fall":
            rets.append((g_and(st.guards), None))
            finals.append(st)
        elif oc[0] == "raise":
            rets.append((g_and(st.guards), Poly.atom(("raise", oc[1]))))
        else:
            raise Unsupported("%s escapes %s" % (oc[0], fi.qualname))
    result = make_cond(_close(rets))
    merged = merge_states(finals, 0) if finals else State(env)
    if len(interp.stack) == 0:
        # top-level function: keep the raw paths (guard list, returned value) for path-wise rules
        interp.paths = [(list(st.guards), oc[1] if oc[0] == "return" else (None if oc[0] == "fall" else Poly.atom(("raise", oc[1])))) for st, oc in outs]
    return result, merged


def rewrite(v, fn):
    """Bottom-up rewriting of every atom inside an abstract value: `fn(atom)` returns an atom, a Poly or None
    (unchanged).  Used for vocabulary normalisations that a sibling rule justifies (e.g. a forwarding wrapper)."""
    def rk(k):
        if _is_polykey(k):
            return rewrite(poly_from_key(k), fn).key()
        if isinstance(k, tuple) and k and isinstance(k[0], str):
            a = tuple(rk(x) if isinstance(x, tuple) else x for x in k)
            r = fn(a)
            if r is None:
                return a
            return r.key() if isinstance(r, Poly) else r
        if isinstance(k, tuple):
            return tuple(rk(x) if isinstance(x, tuple) else x for x in k)
        return k

    if isinstance(v, Poly):
        out = Poly.const(0)
        for m, c in v.terms.items():
            term = Poly.const(c)
            for a, pw in m:
                a2 = tuple(rk(x) if isinstance(x, tuple) else x for x in a)
                r = fn(a2)
                base = Poly.atom(a2) if r is None else (r if isinstance(r, Poly) else Poly.atom(r))
                term = term * (base ** Poly.const(pw))
            out = out + term
        return out
    if isinstance(v, ATuple):
        return ATuple([rewrite(x, fn) for x in v.items])
    if isinstance(v, AList):
        return type(v)([rewrite(x, fn) for x in v.items], v.doms)
    if isinstance(v, tuple):
        return rk(v)
    return v


def rewrite_events(evs, fn):
    out = []
    for e in evs:
        n = Event(e.name, [rewrite(a, fn) for a in e.args], {k: rewrite(x, fn) for k, x in e.kwargs.items()}, [rewrite(g, fn) for g in e.guards], e.node, recv=rewrite(e.recv, fn) if e.recv is not None else None)
        n.full_guards = [rewrite(g, fn) for g in e.full_guards]
        out.append(n)
    return out


def subst_key(k, mapping):
    """Rebuild key `k` with every occurrence of a key in `mapping` (key -> Poly) replaced."""
    if k in mapping:
        return mapping[k].key() if isinstance(mapping[k], Poly) else mapping[k]
    if _is_polykey(k):
        return subst(poly_from_key(k), mapping).key()
    if isinstance(k, tuple):
        return tuple(subst_key(x, mapping) for x in k)
    return k


def subst(v, mapping):
    """Substitute atoms / sub-keys inside an abstract value.  `mapping`: key -> Poly."""
    if isinstance(v, Poly):
        if v.key() in mapping:
            return mapping[v.key()]
        out = Poly.const(0)
        for m, c in v.terms.items():
            term = Poly.const(c)
            for a, pw in m:
                pk = Poly.atom(a).key()
                if pk in mapping:
                    base = mapping[pk]
                elif a in mapping:
                    base = mapping[a]
                else:
                    base = Poly.atom(tuple(subst_key(x, mapping) if isinstance(x, tuple) else x for x in a))
                term = term * (base ** Poly.const(pw))
            out = out + term
        return out
    if isinstance(v, ATuple):
        return ATuple([subst(x, mapping) for x in v.items])
    if isinstance(v, AList):
        return AList([subst(x, mapping) for x in v.items], v.doms)
    if isinstance(v, tuple):
        return subst_key(v, mapping)
    return v


def _absent_to_zero(v):
    """Inside a sum, a filtered-out comprehension element contributes nothing."""
    t = as_term(v)
    a = t.as_atom()
    if a is not None and a[0] == "cond":
        alts = []
        for g, val in a[1]:
            if val == Poly.atom(("absent",)).key():
                alts.append((g, Poly.const(0)))
            else:
                alts.append((g, poly_from_key(val) if _is_polykey(val) else Poly.atom(("val", val))))
        return as_term(make_cond(alts))
    if a == ("absent",):
        return Poly.const(0)
    return t


def split_presence(v):
    """(guard under which a possibly filtered-out list element is present, its value when present)."""
    a = as_term(v).as_atom()
    absent = Poly.atom(("absent",)).key()
    if a == ("absent",):
        return FALSE, v
    earlier, pres, alts = [], [], []
    for g, val in a[1]:
        eff = g_and([g_not(x) for x in earlier] + [g])
        if val != absent:
            pres.append(eff)
            alts.append((g, poly_from_key(val) if _is_polykey(val) else Poly.atom(("val", val))))
        earlier.append(g)
    return g_or(pres), make_cond(_close(alts))


def _maybe_absent(v):
    a = as_term(v).as_atom() if not isinstance(v, (AList, ATuple, ADict)) else None
    if a == ("absent",):
        return True
    return a is not None and a[0] == "cond" and any(val == Poly.atom(("absent",)).key() for _, val in a[1])


def _presence(v):
    """1 where the (possibly filtered-out) list element is present, 0 where it is absent."""
    a = as_term(v).as_atom() if not isinstance(v, (AList, ATuple, ADict)) else None
    if a == ("absent",):
        return Poly.const(0)
    if a is not None and a[0] == "cond":
        absent = Poly.atom(("absent",)).key()
        return as_term(make_cond([(g, Poly.const(0) if val == absent else Poly.const(1)) for g, val in a[1]]))
    return Poly.const(1)


def _is_polykey(k):
    return isinstance(k, tuple) and len(k) >= 1 and k[0] == "poly"


def _range_args(args):
    if len(args) == 1:
        return [Poly.const(0), args[0]]
    return args


def _load(target):
    t = ast.parse(ast.unparse(target), mode="eval").body
    return t


def _dotted(e):
    parts = []
    while isinstance(e, ast.Attribute):
        parts.append(e.attr)
        e = e.value
    if isinstance(e, ast.Name):
        parts.append(e.id)
        return ".".join(reversed(parts))
    return None


# --------------------------------------------------------------------------- random interpretation
class Valuation:
    """Pseudo-random valuation of atoms and truth assignment of guards for one trial."""

    def __init__(self, trial, salt="pcstatic", base=None):
        self.trial = trial
        self.salt = salt
        self.cache = {}
        # guard truths are decided by `base` (the first attempt's valuation of the same trial), so that
        # a retry with fresh atom values explores the same guard scenario
        self.base = base
        self.tcache = {}

    def _h(self, key, salted=True):
        d = hashlib.blake2b(((self.salt if salted else "") + "|%d|" % self.trial + repr(key)).encode(), digest_size=8).digest()
        return int.from_bytes(d, "big") / 2.0**64

    def rand(self, key):
        return 0.25 + 0.6 * self._h(("val", key))

    def truth(self, g):
        if g == TRUE:
            return True
        if g == FALSE:
            return False
        t = g[0]
        if t == "not":
            return not self.truth(g[1])
        if t == "and":
            return all(self.truth(x) for x in g[1])
        if t == "or":
            return any(self.truth(x) for x in g[1])
        if t == "truth" and isinstance(g[1], tuple) and not (_is_polykey(g[1]) and False):
            # `if xs:` on a sized value is `len(xs) != 0`: one test, two spellings
            la = g[1]
            ka = key_atom(la) if (_is_polykey(la) or (isinstance(la, tuple) and la and isinstance(la[0], str))) else None
            if ka is not None and ka[0] in ("v", "attr", "sub", "mcall", "call", "elem", "elemv", "upd") and not (ka[0] == "call" and ka[1] in ("isinstance", "hasattr", "callable", "bool", "any", "all")):
                return not self.truth(g_cmp("==", Poly.atom(("call", "len", (Poly.atom(ka).key(),), ())), Poly.const(0)))
        if self.base is not None:
            return self.base.truth(g)
        if g in self.tcache:
            return self.tcache[g]
        # congruent truth assignment: a test is identified by the *images* of its operands, so that
        # two differently written but equal tests get the same truth value
        try:
            img = (g[0],) + tuple(x if isinstance(x, str) else self.image(x) for x in g[1:])
        except (ValueError, OverflowError, ZeroDivisionError):
            img = g
        r = self._h(("guard", img), salted=False) < 0.5
        self.tcache[g] = r
        return r

    def image(self, k):
        """Numeric image of a key: makes uninterpreted atoms congruent (equal arguments, however
        they are written, give equal values)."""
        if isinstance(k, tuple):
            if _is_polykey(k):
                ka = key_atom(k)
                if ka is not None and ka[0] == "call" and ka[1] in ("set", "frozenset") and not ka[3]:
                    return self.image(ka)  # a set wrapped as a term: its structural image (order / spelling free)
                if ka is not None and ka[0] == "cond":
                    # a conditional value denotes, in this scenario, the alternative whose guard holds
                    for g, v in ka[1]:
                        if self.truth(g):
                            return self.image(v)
                if ka is not None and ka[0] in ("cmp", "not", "and", "or", "truth"):
                    return 1.0 if self.truth(ka) else 0.0
                return _round(self.poly(k))
            if k and isinstance(k[0], str):
                if k[0] == "const" and len(k) == 2 and k[1] in ("True", "False"):
                    return 1.0 if k[1] == "True" else 0.0  # the literal and the value of a test with this truth are one value
                if k[0] in ("const", "g", "fstr", "lambda", "localdef", "super", "absent", "raise", "undef"):
                    return k
                if k[0] in ("cmp", "not", "and", "or", "truth"):
                    return 1.0 if self.truth(k) else 0.0
                if k[0] == "list":
                    return ("list", tuple(self.image(x) for x in k[1] if not self.is_absent_key(x)))
                if k[0] == "call" and k[1] in ("set", "frozenset") and not k[3]:
                    elems = k[2]
                    if len(elems) == 1 and isinstance(elems[0], tuple) and elems[0] and elems[0][0] in ("list", "tuple") and isinstance(elems[0][1] if len(elems[0]) > 1 else None, tuple) and elems[0][0] == "list":
                        elems = elems[0][1]  # set([a, b]) / {x for ...} is the set of the elements
                    return (k[1], tuple(sorted({repr(self.image(x)) for x in elems if not self.is_absent_key(x)})))
                if k[0] in ("tuple", "dict", "slice", "val"):
                    return (k[0],) + tuple(self.image(x) for x in k[1:])
                return _round(self.atom(k))
            return tuple(self.image(x) for x in k)
        return k

    def poly(self, p):
        if isinstance(p, Poly):
            p = p.key()
        if p in self.cache:
            return self.cache[p]
        tot = 0.0
        for m, c in p[1:]:
            v = float(c)
            for a, pw in m:
                v *= self.atom(a) ** pw
            tot += v
        self.cache[p] = tot
        return tot

    def value_of_key(self, k):
        if _is_polykey(k):
            return self.poly(k)
        # containers and other structured keys: a value determined by their image (so that two
        # differently written but equal lists denote the same number)
        img = self.image(k)
        if isinstance(img, float):
            return img
        return self.rand(img)

    def atom(self, a):
        t = a[0]
        if t in ("cmp", "not", "and", "or", "truth"):
            return 1.0 if self.truth(a) else 0.0
        if t == "p":
            return self.poly(a[1])
        if t == "call" and a[1] in INTERPRETED and len(a[2]) == 1 and not a[3]:
            x = self.value_of_key(a[2][0])
            if a[1] == "log":
                return math.log(x)
            if a[1] == "exp":
                return math.exp(x)
            if a[1] == "log1p":
                return math.log1p(x)
            if a[1] == "lgamma":
                return math.lgamma(x)
            if a[1] == "sqrt":
                return math.sqrt(x)
        if t == "cond":
            for g, v in a[1]:
                if self.truth(g):
                    return self.value_of_key(v)
            return self.rand(("nocase", a))
        if t == "val":
            return self.value_of_key(a[1])
        if t == "pow":
            return self.poly(a[1]) ** self.poly(a[2])
        if t == "const":
            if a[1] == "inf":
                return float("inf")
            if a[1] == "-inf":
                return float("-inf")
        if a in self.cache:
            return self.cache[a]
        if t == "attr" and len(a) == 3 and a[2] in CLASS_CONSTANTS:
            # a constant bound in a class body (never through an instance): the same value whichever object of the
            # repository it is read from (`self._ROOT_NODE_NAME`, `subtree._ROOT_NODE_NAME`, `cls._ROOT_NODE_NAME`)
            r = self.rand(("classconst", a[2]))
            self.cache[a] = r
            return r
        if t == "strcat":
            # the text denoted in this scenario: conditional pieces resolved, nested concatenations flattened,
            # adjacent literals merged — then one value per distinct text
            flat = []

            def put(x):
                if isinstance(x, str):
                    if flat and isinstance(flat[-1], str):
                        flat[-1] += x
                    elif x:
                        flat.append(x)
                else:
                    flat.append(x)

            def walk(piece, depth=0):
                if isinstance(piece, tuple) and len(piece) == 2 and piece[0] == "lit":
                    put(piece[1])
                    return
                ka = key_atom(piece) if isinstance(piece, tuple) else None
                if ka is not None and ka[0] == "cond" and depth < 20:
                    for g, v in ka[1]:
                        if self.truth(g):
                            walk(v, depth + 1)
                            return
                if ka is not None and ka[0] == "strcat" and depth < 20:
                    for q in ka[1]:
                        walk(q, depth + 1)
                    return
                if isinstance(piece, tuple) and piece and piece[0] == "const" and isinstance(piece[1], str) and piece[1][:1] in "'\"":
                    try:
                        put(ast.literal_eval(piece[1]))
                        return
                    except (ValueError, SyntaxError):
                        pass
                put(("v", self.image(piece)))

            for q in a[1]:
                walk(q)
            r = self.rand(("strcat", tuple(flat)))
            self.cache[a] = r
            return r
        # graph library synonyms: the in/out-degree of a node is the number of its predecessors / successors
        if t == "mcall" and a[1] in ("in_degree", "out_degree") and len(a[3]) == 1 and not a[4]:
            other = ("mcall", "predecessors" if a[1] == "in_degree" else "successors", a[2], a[3], ())
            r = self.atom(("call", "len", (Poly.atom(other).key(),), ()))
            self.cache[a] = r
            return r
        # one mapping, two ways to walk it: `for k in d: d[k]` and `for k, v in d.items()` name the same key and value
        if t == "elemk" and len(a) == 3:
            a2 = ("elem", a[1], a[2])
            r = self.atom(a2)
            self.cache[a] = r
            return r
        tk = None
        if t == "sub" and len(a) == 3 and isinstance(a[2], tuple) and a[2]:
            tk = a[2]
            if _is_polykey(tk):
                ta = key_atom(tk)
                tk = ta[1] if ta is not None and ta[0] == "val" and isinstance(ta[1], tuple) else None
            if not (tk and tk[0] == "tuple" and len(tk) >= 3 and not any(_is_polykey(x) and (key_atom(x) or ("",))[0] == "slice" for x in tk[1:])):
                tk = None
        if tk is not None:
            # X[i, j] names the same element as X[i][j] (all components plain positions, no slice)
            cur = a[1]
            for x in tk[1:]:
                cur = Poly.atom(("sub", cur, x)).key()
            r = self.atom(key_atom(cur))  # (the atom's own value, not its rounded image: both spellings must hash alike)
            self.cache[a] = r
            return r
        if t == "sub" and len(a) == 3 and _is_polykey(a[1]) and _const_of_key(a[2]) in (0, 1):
            # the i-th pair of M.items(), taken apart by position: the i-th key / value of M
            ea = key_atom(a[1])
            if ea is not None and ea[0] == "elem" and len(ea) == 3 and _is_polykey(ea[1]):
                da = key_atom(ea[1])
                if da is not None and da[0] == "mcall" and da[1] == "items" and not da[3] and not da[4]:
                    r = self.atom(("elemk" if _const_of_key(a[2]) == 0 else "elemv", da[2], ea[2]))
                    self.cache[a] = r
                    return r
        if t == "sub" and len(a) == 3:
            ia = key_atom(a[2]) if isinstance(a[2], tuple) else None
            if ia is not None and ia[0] in ("elem", "elemk") and len(ia) == 3 and ia[1] == a[1]:
                r = self.atom(("elemv", a[1], ia[2]))
                self.cache[a] = r
                return r
        r = self.rand(tuple(x if isinstance(x, (str, int)) else self.image(x) for x in a))
        self.cache[a] = r
        return r

    def is_absent_key(self, k):
        """Does key `k` denote, under this valuation, a filtered-out list element?"""
        a = key_atom(k) if isinstance(k, tuple) else None
        while a is not None and a[0] == "cond":
            nxt = None
            for g, val in a[1]:
                if self.truth(g):
                    nxt = val
                    break
            if nxt is None:
                return False
            a = key_atom(nxt)
        return a == ("absent",)

    def value(self, v):
        """Numeric image of an abstract value (containers map to tuples of images)."""
        if isinstance(v, Poly):
            if self.is_absent_key(v.key()):
                return "ABSENT"
            a = v.as_atom()
            if a is not None and a[0] == "cond":
                # a container chosen by a test denotes, in this scenario, the container that is chosen
                for g, k in a[1]:
                    if self.truth(g):
                        if isinstance(k, tuple) and k and k[0] in ("tuple", "list"):
                            return self.value(_value_of_key(k))
                        break
            return self.poly(v)
        if isinstance(v, ASet):
            return ("set", tuple(sorted({repr(self.value(i)) for i in v.items if self.value(i) != "ABSENT"})))
        if isinstance(v, AList):
            # a list is compared as the sequence of its *present* elements
            return tuple(x for x in (self.value(i) for i in v.items) if x != "ABSENT")
        if isinstance(v, ATuple):
            return tuple(self.value(i) for i in v.items)
        if isinstance(v, ADict):
            return tuple(sorted(((_k(k), self.value(x[1])) for k, x in v.items.items())))
        if isinstance(v, tuple):
            return self.truth(v)
        return v


def _round(x):
    if isinstance(x, float):
        if x != x or x in (float("inf"), float("-inf")):
            return repr(x)
        return float("%.9e" % x)
    return x


TRIALS = 64


def equivalent(a, b, trials=TRIALS):
    """(equal?, how, witness).  how ∈ {"identical normal forms", "random interpretation"}."""
    if vkey(a) == vkey(b):
        return True, "identical normal forms", None
    bad = 0
    for t in range(trials):
        verdicts = []
        wit = None
        for attempt in range(8):
            val = Valuation(t, salt="s%d" % attempt, base=None if attempt == 0 else Valuation(t, salt="s0"))
            ea = eb = False
            try:
                va = val.value(a)
            except (ValueError, OverflowError, ZeroDivisionError):
                va, ea = "<undefined>", True
            try:
                vb = val.value(b)
            except (ValueError, OverflowError, ZeroDivisionError):
                vb, eb = "<undefined>", True
            if ea and eb:
                continue  # both sides are undefined at this valuation: no verdict
            # one side is undefined (log of a non-positive number, division by zero) where the other is not:
            # the terms differ at this valuation
            ok = (not ea and not eb) and _close_vals(va, vb)
            verdicts.append(ok)
            if not ok and wit is None:
                wit = {"trial": t, "left": va, "right": vb}
            if ok or len(verdicts) >= 3:
                break
        if not verdicts:
            bad += 1
            continue
        # a genuine difference persists under fresh atom values in the same guard scenario; a
        # rounding artefact of the congruence hashing does not
        if not any(verdicts):
            return False, "random interpretation", wit
    if bad > trials // 2:
        raise Unsupported("terms could not be evaluated under random interpretation")
    return True, "random interpretation (%d trials)" % (trials - bad), None


def _close_vals(x, y):
    if isinstance(x, tuple) and isinstance(y, tuple):
        return len(x) == len(y) and all(_close_vals(p, q) for p, q in zip(x, y))
    if isinstance(x, (int, float)) and isinstance(y, (int, float)) and not isinstance(x, bool) and not isinstance(y, bool):
        if x == y:
            return True
        if x != x or y != y:
            return False
        if x in (float("inf"), float("-inf")) or y in (float("inf"), float("-inf")):
            return False  # an infinite value equals only itself (inf <= 1e-9 * inf would accept any pair)
        return abs(x - y) <= 1e-9 * max(1.0, abs(x), abs(y))
    return x == y


# --------------------------------------------------------------------------- spec helpers
def spec_function(prog, source, like=None):
    """Parse a specification written as a Python function in the same term language.  `like` is a
    FunctionInfo whose module/class context (imports, helper resolution) the spec is read in."""
    from .model import FunctionInfo

    tree = ast.parse(source.strip("\n"))
    node = tree.body[0]
    if not isinstance(node, ast.FunctionDef):
        raise AnalysisError("spec must be a single function")
    ast.increment_lineno(node, 0)
    fi = FunctionInfo("spec." + node.name, node, like.module if like else next(iter(prog.modules.values())), cls=like.cls if like else None)
    return fi
