"""Program model: parse every product module of the repository with the stdlib `ast`.

Nothing here imports or executes repository code.  A module that fails to parse, or an
anchor (function / class) that a rule names and that no longer exists, raises
AnalysisError, which the driver reports as ANALYSIS-ERROR (exit 2), never as a pass.
"""
import ast
import hashlib
import os


class AnalysisError(Exception):
    """The analysis itself cannot proceed (anchor vanished, unrecognised shape...)."""


REPO = os.environ.get("PCSTATIC_REPO", "/repo")
PKG = "phyclone"


class Module:
    def __init__(self, name, path, source):
        self.name = name
        self.path = path
        self.source = source
        try:
            self.tree = ast.parse(source, filename=path)
        except SyntaxError as e:  # the build would reject it too
            raise AnalysisError("module %s does not parse: %s" % (path, e))
        self.imports = {}  # local name -> dotted target
        self._collect_imports()

    def _collect_imports(self):
        pkg_parts = self.name.split(".")
        is_pkg = os.path.basename(self.path) == "__init__.py"
        for node in ast.walk(self.tree):
            if isinstance(node, ast.Import):
                for a in node.names:
                    if a.asname:
                        self.imports[a.asname] = a.name
                    else:
                        self.imports[a.name.split(".")[0]] = a.name.split(".")[0]
            elif isinstance(node, ast.ImportFrom):
                if node.level:
                    base = pkg_parts if is_pkg else pkg_parts[:-1]
                    if node.level > 1:
                        base = base[: len(base) - (node.level - 1)]
                    mod = ".".join(base + ([node.module] if node.module else []))
                else:
                    mod = node.module or ""
                for a in node.names:
                    if a.name == "*":
                        self.imports.setdefault("*", []).append(mod)
                    else:
                        self.imports[a.asname or a.name] = mod + "." + a.name


class FunctionInfo:
    def __init__(self, qualname, node, module, cls=None, parent=None):
        self.qualname = qualname
        self.node = node
        self.module = module
        self.cls = cls  # ClassInfo or None
        self.parent = parent  # enclosing FunctionInfo for nested defs
        self.name = node.name

    @property
    def params(self):
        a = self.node.args
        return [x.arg for x in a.posonlyargs + a.args] + ([a.vararg.arg] if a.vararg else []) + [
            x.arg for x in a.kwonlyargs
        ] + ([a.kwarg.arg] if a.kwarg else [])

    @property
    def decorators(self):
        return [ast.unparse(d) for d in self.node.decorator_list]

    def where(self, node=None):
        n = node if node is not None else self.node
        return "%s:%s" % (os.path.relpath(self.module.path, REPO), getattr(n, "lineno", "?"))

    def __repr__(self):
        return "<fn %s>" % self.qualname


class ClassInfo:
    def __init__(self, qualname, node, module):
        self.qualname = qualname
        self.node = node
        self.module = module
        self.name = node.name
        self.methods = {}  # name -> FunctionInfo (last definition wins, like Python)
        self.properties = {}  # name -> {"getter": FunctionInfo, "setter": FunctionInfo}
        self.bases = [ast.unparse(b) for b in node.bases]
        self.slots = None
        for st in node.body:
            if isinstance(st, ast.Assign) and any(
                isinstance(t, ast.Name) and t.id == "__slots__" for t in st.targets
            ):
                v = st.value
                if isinstance(v, ast.Constant) and isinstance(v.value, str):
                    self.slots = [v.value]
                elif isinstance(v, (ast.Tuple, ast.List)):
                    self.slots = [e.value for e in v.elts if isinstance(e, ast.Constant)]

    def where(self, node=None):
        n = node if node is not None else self.node
        return "%s:%s" % (os.path.relpath(self.module.path, REPO), getattr(n, "lineno", "?"))


class Program:
    def __init__(self, repo=None, include_tests=False):
        self.repo = repo or REPO
        self.modules = {}
        self.functions = {}
        self.classes = {}
        root = os.path.join(self.repo, PKG)
        if not os.path.isdir(root):
            raise AnalysisError("package directory %s not found" % root)
        for dirpath, dirnames, filenames in os.walk(root):
            dirnames.sort()
            if not include_tests and os.path.basename(dirpath) == "tests":
                dirnames[:] = []
                continue
            dirnames[:] = [d for d in dirnames if d != "__pycache__" and (include_tests or d != "tests")]
            for fn in sorted(filenames):
                if not fn.endswith(".py"):
                    continue
                path = os.path.join(dirpath, fn)
                rel = os.path.relpath(path, self.repo)[:-3].replace(os.sep, ".")
                if rel.endswith(".__init__"):
                    rel = rel[: -len(".__init__")]
                with open(path, encoding="utf-8") as fh:
                    src = fh.read()
                self.modules[rel] = Module(rel, path, src)
        for m in self.modules.values():
            self._index(m)

    # ------------------------------------------------------------------ indexing
    def _index(self, m):
        def visit(body, prefix, cls, parent):
            for st in body:
                if isinstance(st, (ast.FunctionDef, ast.AsyncFunctionDef)):
                    q = prefix + "." + st.name
                    fi = FunctionInfo(q, st, m, cls=cls, parent=parent)
                    decos = [ast.unparse(d) for d in st.decorator_list]
                    if cls is not None and parent is None:
                        kind = None
                        for d in decos:
                            if d == "property":
                                kind = "getter"
                            elif d.endswith(".setter"):
                                kind = "setter"
                            elif d.endswith(".getter"):
                                kind = "getter"
                        if kind:
                            cls.properties.setdefault(st.name, {})[kind] = fi
                            q = q + "@" + kind
                            fi.qualname = q
                        else:
                            cls.methods[st.name] = fi
                    self.functions[q] = fi
                    visit(st.body, q, None, fi)
                elif isinstance(st, ast.ClassDef):
                    q = prefix + "." + st.name
                    ci = ClassInfo(q, st, m)
                    self.classes[q] = ci
                    visit(st.body, q, ci, None)
                elif isinstance(st, (ast.If, ast.Try, ast.With)):
                    for sub in ("body", "orelse", "finalbody"):
                        visit(getattr(st, sub, []) or [], prefix, cls, parent)

        visit(m.tree.body, m.name, None, None)

    # ------------------------------------------------------------------ lookup
    def fn(self, suffix):
        """Unique function whose qualified name ends with `suffix` (dotted)."""
        hits = [f for q, f in self.functions.items() if q == suffix or q.endswith("." + suffix)]
        if len(hits) != 1:
            raise AnalysisError(
                "anchor function %r: expected exactly one match, found %d (%s)"
                % (suffix, len(hits), ", ".join(sorted(h.qualname for h in hits)) or "none")
            )
        return hits[0]

    def has_fn(self, suffix):
        return any(q == suffix or q.endswith("." + suffix) for q in self.functions)

    def cls(self, suffix):
        hits = [c for q, c in self.classes.items() if q == suffix or q.endswith("." + suffix)]
        if len(hits) != 1:
            raise AnalysisError(
                "anchor class %r: expected exactly one match, found %d" % (suffix, len(hits))
            )
        return hits[0]

    def module(self, suffix):
        hits = [m for q, m in self.modules.items() if q == suffix or q.endswith("." + suffix)]
        if len(hits) != 1:
            raise AnalysisError("anchor module %r: %d matches" % (suffix, len(hits)))
        return hits[0]

    def mro(self, ci):
        """Linearised ancestors inside the repository (single inheritance here)."""
        out = [ci]
        seen = {ci.qualname}
        cur = ci
        while True:
            nxt = None
            for b in cur.bases:
                c = self.resolve_class(b.split(".")[-1], cur.module)
                if c is not None and c.qualname not in seen:
                    nxt = c
                    break
            if nxt is None:
                return out
            out.append(nxt)
            seen.add(nxt.qualname)
            cur = nxt

    def resolve_class(self, name, module):
        """Class named `name` as seen from `module` (own definition, import, re-export)."""
        q = module.name + "." + name
        if q in self.classes:
            return self.classes[q]
        tgt = module.imports.get(name)
        if tgt:
            return self._resolve_dotted_class(tgt)
        return None

    def _resolve_dotted_class(self, dotted, depth=0):
        if dotted in self.classes:
            return self.classes[dotted]
        if depth > 4:
            return None
        modname, _, name = dotted.rpartition(".")
        m = self.modules.get(modname)
        if m is not None:
            tgt = m.imports.get(name)
            if tgt:
                return self._resolve_dotted_class(tgt, depth + 1)
            for star in m.imports.get("*", []):
                r = self._resolve_dotted_class(star + "." + name, depth + 1)
                if r:
                    return r
        return None

    def resolve_function(self, name, module, depth=0):
        """Module-level function named `name` as seen from `module`."""
        q = module.name + "." + name
        if q in self.functions:
            return self.functions[q]
        tgt = module.imports.get(name)
        if tgt:
            return self._resolve_dotted_fn(tgt)
        for star in module.imports.get("*", []):
            r = self._resolve_dotted_fn(star + "." + name)
            if r:
                return r
        return None

    def _resolve_dotted_fn(self, dotted, depth=0):
        if dotted in self.functions:
            return self.functions[dotted]
        if depth > 4:
            return None
        modname, _, name = dotted.rpartition(".")
        m = self.modules.get(modname)
        if m is not None:
            tgt = m.imports.get(name)
            if tgt:
                return self._resolve_dotted_fn(tgt, depth + 1)
            for star in m.imports.get("*", []):
                r = self._resolve_dotted_fn(star + "." + name, depth + 1)
                if r:
                    return r
        return None

    def method(self, ci, name):
        for c in self.mro(ci):
            if name in c.methods:
                return c.methods[name]
        return None

    def prop(self, ci, name, kind="getter"):
        for c in self.mro(ci):
            if name in c.properties and kind in c.properties[name]:
                return c.properties[name][kind]
        return None

    def subclasses(self, ci):
        out = []
        for c in self.classes.values():
            if c is not ci and ci in self.mro(c):
                out.append(c)
        return out

    # ------------------------------------------------------------------ stats
    def stats(self):
        calls = 0
        for m in self.modules.values():
            for n in ast.walk(m.tree):
                if isinstance(n, ast.Call):
                    calls += 1
        return {
            "modules": len(self.modules),
            "classes": len(self.classes),
            "functions": len(self.functions),
            "call_sites": calls,
            "lines": sum(m.source.count("\n") + 1 for m in self.modules.values()),
        }

    def digest(self):
        h = hashlib.sha256()
        for k in sorted(self.modules):
            h.update(k.encode())
            h.update(self.modules[k].source.encode())
        return h.hexdigest()[:16]
