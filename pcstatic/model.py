"""Program model: parse every product module of the repository with the stdlib `ast`.

Nothing here imports or executes repository code.  A module that fails to parse, or an
anchor (function / class) that a rule names and that no longer exists, raises
AnalysisError, which the driver reports as ANALYSIS-ERROR (exit 2), never as a pass.
"""
import ast
import hashlib
import os


class AnalysisError(Exception):
    """The analysis itself cannot proceed (anchor vanished, unrecognised shape...)."""


REPO = os.environ.get("PCSTATIC_REPO", "/repo")
PKG = "phyclone"


class _Degenerate(ast.NodeTransformer):
    """A generator function is modelled as the function that returns the list of what it yields:

        def g(...):                      def g(...):
            ...                              __yielded = []
            yield e                 ==>      __yielded.append(e)
            yield from it                    __yielded.extend(it)
            return                           return __yielded
                                             return __yielded

    `for x in g(...)`, `list(g(...))`, `sum(g(...))`, `zip(g(...), ...)` then read as they do over a list.  The model
    is eager: effects of the generator body are ordered before those of the consumer's loop body (DESIGN 0.8).
    A generator that receives values (`x = yield e`) is left alone; the interpreters reject it as unsupported."""

    ACC = "__yielded"

    @staticmethod
    def _own(fn):
        out, todo = [], list(fn.body)
        while todo:
            n = todo.pop()
            out.append(n)
            for c in ast.iter_child_nodes(n):
                if not isinstance(c, (ast.FunctionDef, ast.AsyncFunctionDef, ast.Lambda, ast.ClassDef)):
                    todo.append(c)
        return out

    def visit_FunctionDef(self, fn):
        self.generic_visit(fn)  # nested definitions first
        own = self._own(fn)
        ys = [n for n in own if isinstance(n, (ast.Yield, ast.YieldFrom))]
        if not ys:
            return fn
        as_stmt = {id(n.value) for n in own if isinstance(n, ast.Expr) and isinstance(n.value, (ast.Yield, ast.YieldFrom))}
        if any(id(y) not in as_stmt for y in ys):
            return fn
        acc = self.ACC

        def rewrite(stmts):
            out = []
            for st in stmts:
                if isinstance(st, ast.Expr) and isinstance(st.value, ast.Yield):
                    v = st.value.value or ast.Constant(value=None)
                    call = ast.Call(func=ast.Attribute(value=ast.Name(id=acc, ctx=ast.Load()), attr="append", ctx=ast.Load()), args=[v], keywords=[])
                    out.append(ast.copy_location(ast.Expr(value=call), st))
                elif isinstance(st, ast.Expr) and isinstance(st.value, ast.YieldFrom):
                    call = ast.Call(func=ast.Attribute(value=ast.Name(id=acc, ctx=ast.Load()), attr="extend", ctx=ast.Load()), args=[st.value.value], keywords=[])
                    out.append(ast.copy_location(ast.Expr(value=call), st))
                elif isinstance(st, ast.Return):
                    out.append(ast.copy_location(ast.Return(value=ast.Name(id=acc, ctx=ast.Load())), st))
                elif isinstance(st, (ast.FunctionDef, ast.AsyncFunctionDef, ast.ClassDef)):
                    out.append(st)
                else:
                    for field in ("body", "orelse", "finalbody"):
                        if isinstance(getattr(st, field, None), list) and getattr(st, field) and isinstance(getattr(st, field)[0], ast.stmt):
                            setattr(st, field, rewrite(getattr(st, field)))
                    for h in getattr(st, "handlers", []) or []:
                        h.body = rewrite(h.body)
                    for c in getattr(st, "cases", []) or []:
                        c.body = rewrite(c.body)
                    out.append(st)
            return out

        first = fn.body[0]
        init = ast.copy_location(ast.Assign(targets=[ast.Name(id=acc, ctx=ast.Store())], value=ast.List(elts=[], ctx=ast.Load())), first)
        last = fn.body[-1]
        fin = ast.Return(value=ast.Name(id=acc, ctx=ast.Load()))
        fin.lineno = fin.end_lineno = getattr(last, "end_lineno", last.lineno)
        fin.col_offset = fin.end_col_offset = 0
        doc = []
        body = list(fn.body)
        if isinstance(first, ast.Expr) and isinstance(first.value, ast.Constant) and isinstance(first.value.value, str):
            doc, body = [first], body[1:]
        fn.body = doc + [init] + rewrite(body) + [fin]
        fn._was_generator = True
        ast.fix_missing_locations(fn)
        return fn


class Module:
    def __init__(self, name, path, source):
        self.name = name
        self.path = path
        self.source = source
        try:
            self.tree = ast.parse(source, filename=path)
        except SyntaxError as e:  # the build would reject it too
            raise AnalysisError("module %s does not parse: %s" % (path, e))
        if "yield" in source:
            self.tree = _Degenerate().visit(self.tree)
        self.imports = {}  # local name -> dotted target
        self._collect_imports()

    def _collect_imports(self):
        pkg_parts = self.name.split(".")
        is_pkg = os.path.basename(self.path) == "__init__.py"
        for node in ast.walk(self.tree):
            if isinstance(node, ast.Import):
                for a in node.names:
                    if a.asname:
                        self.imports[a.asname] = a.name
                    else:
                        self.imports[a.name.split(".")[0]] = a.name.split(".")[0]
            elif isinstance(node, ast.ImportFrom):
                if node.level:
                    base = pkg_parts if is_pkg else pkg_parts[:-1]
                    if node.level > 1:
                        base = base[: len(base) - (node.level - 1)]
                    mod = ".".join(base + ([node.module] if node.module else []))
                else:
                    mod = node.module or ""
                for a in node.names:
                    if a.name == "*":
                        self.imports.setdefault("*", []).append(mod)
                    else:
                        self.imports[a.asname or a.name] = mod + "." + a.name


class FunctionInfo:
    def __init__(self, qualname, node, module, cls=None, parent=None):
        self.qualname = qualname
        self.node = node
        self.module = module
        self.cls = cls  # ClassInfo or None
        self.parent = parent  # enclosing FunctionInfo for nested defs
        self.name = node.name

    @property
    def params(self):
        a = self.node.args
        return [x.arg for x in a.posonlyargs + a.args] + ([a.vararg.arg] if a.vararg else []) + [
            x.arg for x in a.kwonlyargs
        ] + ([a.kwarg.arg] if a.kwarg else [])

    @property
    def decorators(self):
        return [ast.unparse(d) for d in self.node.decorator_list]

    def where(self, node=None):
        n = node if node is not None else self.node
        return "%s:%s" % (os.path.relpath(self.module.path, REPO), getattr(n, "lineno", "?"))

    def __repr__(self):
        return "<fn %s>" % self.qualname


class StaticAlias(FunctionInfo):
    """`name = staticmethod(f)` in a class body: method `name` of the class, with the body of module function f."""

    @property
    def decorators(self):
        return ["staticmethod"]


class ClassInfo:
    def __init__(self, qualname, node, module):
        self.qualname = qualname
        self.node = node
        self.module = module
        self.name = node.name
        self.methods = {}  # name -> FunctionInfo (last definition wins, like Python)
        self.properties = {}  # name -> {"getter": FunctionInfo, "setter": FunctionInfo}
        self.bases = [ast.unparse(b) for b in node.bases]
        self.slots = None
        for st in node.body:
            if isinstance(st, ast.Assign) and any(
                isinstance(t, ast.Name) and t.id == "__slots__" for t in st.targets
            ):
                v = st.value
                if isinstance(v, ast.Constant) and isinstance(v.value, str):
                    self.slots = [v.value]
                elif isinstance(v, (ast.Tuple, ast.List)):
                    self.slots = [e.value for e in v.elts if isinstance(e, ast.Constant)]

    def where(self, node=None):
        n = node if node is not None else self.node
        return "%s:%s" % (os.path.relpath(self.module.path, REPO), getattr(n, "lineno", "?"))


class Program:
    def __init__(self, repo=None, include_tests=False):
        self.repo = repo or REPO
        self.modules = {}
        self.functions = {}
        self.classes = {}
        root = os.path.join(self.repo, PKG)
        if not os.path.isdir(root):
            raise AnalysisError("package directory %s not found" % root)
        for dirpath, dirnames, filenames in os.walk(root):
            dirnames.sort()
            if not include_tests and os.path.basename(dirpath) == "tests":
                dirnames[:] = []
                continue
            dirnames[:] = [d for d in dirnames if d != "__pycache__" and (include_tests or d != "tests")]
            for fn in sorted(filenames):
                if not fn.endswith(".py"):
                    continue
                path = os.path.join(dirpath, fn)
                rel = os.path.relpath(path, self.repo)[:-3].replace(os.sep, ".")
                if rel.endswith(".__init__"):
                    rel = rel[: -len(".__init__")]
                with open(path, encoding="utf-8") as fh:
                    src = fh.read()
                self.modules[rel] = Module(rel, path, src)
        self._aliases = []
        for m in self.modules.values():
            self._index(m)
        self._normalise_pending = os.environ.get("PCSTATIC_NORMALISE") is not None  # experimental, off: see DESIGN 0.8
        for ci, name, m, target in self._aliases:
            fi = self.resolve_function(target, m)
            if fi is not None and name not in ci.methods:
                alias = StaticAlias(ci.qualname + "." + name, fi.node, fi.module, cls=ci)
                alias.name = name
                ci.methods[name] = alias
                self.functions[alias.qualname] = alias
        self.normalise()

    def normalise(self):
        """Read every function of the reference tree with the helpers *newer than the rules* that it calls at statement
        level folded back into its body (astutil.inline_new_helpers): the rules that read statements then see the shape
        they were written for.  A no-op on a tree without such helpers."""
        if not getattr(self, "_normalise_pending", False):
            return
        self._normalise_pending = False
        from .astutil import inline_new_helpers

        if not any(self.is_new_function(f) for f in self.functions.values()):
            return
        for fi in list(self.functions.values()):
            if self.is_new_function(fi) or fi.parent is not None:
                continue
            try:
                node = inline_new_helpers(self, fi)
            except RecursionError:
                continue
            if ast.dump(node) != ast.dump(fi.node):
                fi.original_node = fi.node
                fi.node = node

    # ------------------------------------------------------------------ indexing
    def _index(self, m):
        def visit(body, prefix, cls, parent):
            for st in body:
                if isinstance(st, (ast.FunctionDef, ast.AsyncFunctionDef)):
                    q = prefix + "." + st.name
                    fi = FunctionInfo(q, st, m, cls=cls, parent=parent)
                    decos = [ast.unparse(d) for d in st.decorator_list]
                    if cls is not None and parent is None:
                        kind = None
                        for d in decos:
                            if d == "property":
                                kind = "getter"
                            elif d.endswith(".setter"):
                                kind = "setter"
                            elif d.endswith(".getter"):
                                kind = "getter"
                        if kind:
                            cls.properties.setdefault(st.name, {})[kind] = fi
                            q = q + "@" + kind
                            fi.qualname = q
                        else:
                            cls.methods[st.name] = fi
                    self.functions[q] = fi
                    visit(st.body, q, None, fi)
                elif isinstance(st, ast.ClassDef):
                    q = prefix + "." + st.name
                    ci = ClassInfo(q, st, m)
                    self.classes[q] = ci
                    visit(st.body, q, ci, None)
                elif cls is not None and parent is None and isinstance(st, ast.Assign) and len(st.targets) == 1 and isinstance(st.targets[0], ast.Name):
                    # `name = staticmethod(module_function)` in a class body: the method is that function
                    v = st.value
                    if isinstance(v, ast.Call) and isinstance(v.func, ast.Name) and v.func.id == "staticmethod" and len(v.args) == 1 and isinstance(v.args[0], ast.Name) and not v.keywords:
                        self._aliases.append((cls, st.targets[0].id, m, v.args[0].id))
                elif isinstance(st, (ast.If, ast.Try, ast.With)):
                    for sub in ("body", "orelse", "finalbody"):
                        visit(getattr(st, sub, []) or [], prefix, cls, parent)

        visit(m.tree.body, m.name, None, None)

    # ------------------------------------------------------------------ lookup
    def fn(self, suffix):
        """Unique function whose qualified name ends with `suffix` (dotted)."""
        hits = [f for q, f in self.functions.items() if q == suffix or q.endswith("." + suffix)]
        if not hits and suffix.count(".") >= 1:
            # Class.method where the method is now inherited from a base class inside the repository
            cname, mname = suffix.rsplit(".", 1)
            cs = [c for q, c in self.classes.items() if q == cname or q.endswith("." + cname)]
            if len(cs) == 1:
                kind = None
                if "@" in mname:
                    mname, kind = mname.split("@")
                m = self.prop(cs[0], mname, kind) if kind else self.method(cs[0], mname)
                if m is not None:
                    if m.cls is not None and m.cls is not cs[0]:
                        # the inherited method *as a method of the subclass*: `self.step()` inside it resolves in the
                        # subclass (a template method whose steps the subclass overrides)
                        b = FunctionInfo(cs[0].qualname + "." + m.name, m.node, m.module, cls=cs[0], parent=m.parent)
                        return b
                    return m
        if len(hits) != 1:
            raise AnalysisError(
                "anchor function %r: expected exactly one match, found %d (%s)"
                % (suffix, len(hits), ", ".join(sorted(h.qualname for h in hits)) or "none")
            )
        return hits[0]

    def has_fn(self, suffix):
        return any(q == suffix or q.endswith("." + suffix) for q in self.functions)

    def cls(self, suffix):
        hits = [c for q, c in self.classes.items() if q == suffix or q.endswith("." + suffix)]
        if len(hits) != 1:
            raise AnalysisError(
                "anchor class %r: expected exactly one match, found %d" % (suffix, len(hits))
            )
        return hits[0]

    def module(self, suffix):
        hits = [m for q, m in self.modules.items() if q == suffix or q.endswith("." + suffix)]
        if len(hits) != 1:
            raise AnalysisError("anchor module %r: %d matches" % (suffix, len(hits)))
        return hits[0]

    def mro(self, ci):
        """Linearised ancestors inside the repository (single inheritance here)."""
        out = [ci]
        seen = {ci.qualname}
        cur = ci
        while True:
            nxt = None
            for b in cur.bases:
                c = self.resolve_class(b.split(".")[-1], cur.module)
                if c is not None and c.qualname not in seen:
                    nxt = c
                    break
            if nxt is None:
                return out
            out.append(nxt)
            seen.add(nxt.qualname)
            cur = nxt

    def resolve_class(self, name, module):
        """Class named `name` as seen from `module` (own definition, import, re-export)."""
        q = module.name + "." + name
        if q in self.classes:
            return self.classes[q]
        tgt = module.imports.get(name)
        if tgt:
            return self._resolve_dotted_class(tgt)
        return None

    def _resolve_dotted_class(self, dotted, depth=0):
        if dotted in self.classes:
            return self.classes[dotted]
        if depth > 4:
            return None
        modname, _, name = dotted.rpartition(".")
        m = self.modules.get(modname)
        if m is not None:
            tgt = m.imports.get(name)
            if tgt:
                return self._resolve_dotted_class(tgt, depth + 1)
            for star in m.imports.get("*", []):
                r = self._resolve_dotted_class(star + "." + name, depth + 1)
                if r:
                    return r
        return None

    def resolve_function(self, name, module, depth=0):
        """Module-level function named `name` as seen from `module`."""
        q = module.name + "." + name
        if q in self.functions:
            return self.functions[q]
        tgt = module.imports.get(name)
        if tgt:
            return self._resolve_dotted_fn(tgt)
        for star in module.imports.get("*", []):
            r = self._resolve_dotted_fn(star + "." + name)
            if r:
                return r
        return None

    def _resolve_dotted_fn(self, dotted, depth=0):
        if dotted in self.functions:
            return self.functions[dotted]
        if depth > 4:
            return None
        modname, _, name = dotted.rpartition(".")
        m = self.modules.get(modname)
        if m is not None:
            tgt = m.imports.get(name)
            if tgt:
                return self._resolve_dotted_fn(tgt, depth + 1)
            for star in m.imports.get("*", []):
                r = self._resolve_dotted_fn(star + "." + name, depth + 1)
                if r:
                    return r
        return None

    def method(self, ci, name):
        for c in self.mro(ci):
            if name in c.methods:
                return c.methods[name]
        return None

    def prop(self, ci, name, kind="getter"):
        for c in self.mro(ci):
            if name in c.properties and kind in c.properties[name]:
                return c.properties[name][kind]
        return None

    # ------------------------------------------------------------------ names newer than the rules
    _REF = None

    @classmethod
    def _reference(cls):
        if cls._REF is None:
            import json

            path = os.path.join(os.path.dirname(os.path.abspath(__file__)), "reference_names.json")
            try:
                with open(path) as fh:
                    d = json.load(fh)
            except OSError:
                raise AnalysisError("pcstatic/reference_names.json is missing (tools/gen_reference_names.py)")
            cls._REF = (frozenset(d["functions"]), frozenset(d["classes"]), frozenset(d.get("globals", ())), {k: frozenset(v) for k, v in d.get("params", {}).items()})
        return cls._REF

    def is_new_function(self, fi):
        """Introduced after the rules were written (no function of that name in the reference tree): an extracted
        helper.  No specification can mention it, so the interpreters look inside it."""
        fns, classes = self._reference()[:2]
        if fi.cls is not None and fi.cls.name not in classes:
            return True
        return fi.name not in fns

    def is_unpassed_new_param(self, fi, pname):
        """`pname` is a parameter with a default that the reference tree's function of that name does not have (a
        refactoring added an option) and that no call site in the repository supplies: inside the repository it always
        holds its default."""
        ref = self._reference()[3].get(fi.name)
        if ref is None or pname in ref:
            return False
        a = fi.node.args
        pos = [x.arg for x in a.posonlyargs + a.args]
        has_default = (pname in pos and pos.index(pname) >= len(pos) - len(a.defaults)) or any(x.arg == pname and d is not None for x, d in zip(a.kwonlyargs, a.kw_defaults))
        if not has_default:
            return False
        idx = pos.index(pname) if pname in pos else None
        for m in self.modules.values():
            for c in ast.walk(m.tree):
                if not isinstance(c, ast.Call):
                    continue
                f = c.func
                nm = f.attr if isinstance(f, ast.Attribute) else (f.id if isinstance(f, ast.Name) else None)
                if nm != fi.name and not (fi.name == "__init__" and fi.cls is not None and nm == fi.cls.name):
                    continue
                if any(isinstance(x, ast.Starred) for x in c.args) or any(k.arg is None or k.arg == pname for k in c.keywords):
                    return False
                if idx is not None:
                    shift = 1 if (fi.cls is not None and "staticmethod" not in fi.decorators and pos and pos[0] in ("self", "cls")) else 0
                    if len(c.args) > idx - shift:
                        return False
        return True

    def is_new_global(self, name):
        """A module-level immutable table / constant of the repository that the reference tree does not have (introduced
        by a refactoring)."""
        short = name.split(".")[-1]
        if short in self._reference()[2]:
            return False
        cache = self.__dict__.setdefault("_modvars", None)
        if cache is None:
            cache = set()
            for m in self.modules.values():
                for st in m.tree.body:
                    if isinstance(st, (ast.Assign, ast.AnnAssign)) and getattr(st, "value", None) is not None:
                        v = st.value
                        # immutable tables only: a module-level dict / list / set is state (a memo table, a registry),
                        # and a comparison that differs through one differs
                        frozen = isinstance(v, (ast.Tuple, ast.Constant)) or (isinstance(v, ast.Call) and ast.unparse(v.func).split(".")[-1] in ("frozenset", "tuple", "MappingProxyType"))
                        if not frozen:
                            continue
                        for t in (st.targets if isinstance(st, ast.Assign) else [st.target]):
                            if isinstance(t, ast.Name):
                                cache.add(t.id)
            self.__dict__["_modvars"] = cache
        return short in cache

    def is_new_class(self, ci):
        return ci.name not in self._reference()[1]

    def returns_sequence(self, name):
        """Every repository function / method called `name` returns a list on every path (literal, comprehension,
        list(...) / sorted(...), a concatenation of those, or a local bound only to such)."""
        cache = self.__dict__.setdefault("_retseq", {})
        if name in cache:
            return cache[name]
        cache[name] = False
        fns = [f for f in self.functions.values() if f.name == name and "@" not in f.qualname]
        if not fns:
            return False

        def is_seq(e, defs, depth=0):
            if isinstance(e, (ast.List, ast.ListComp)):
                return True
            if isinstance(e, ast.Call) and isinstance(e.func, ast.Name) and e.func.id in ("list", "sorted"):
                return True
            if isinstance(e, ast.BinOp) and isinstance(e.op, ast.Add):
                return is_seq(e.left, defs, depth) or is_seq(e.right, defs, depth)
            if isinstance(e, ast.Name) and depth < 3 and e.id in defs:
                return all(is_seq(v, defs, depth + 1) for v in defs[e.id])
            return False

        ok = True
        for f in fns:
            defs = {}
            for n in ast.walk(f.node):
                if isinstance(n, ast.Assign) and len(n.targets) == 1 and isinstance(n.targets[0], ast.Name):
                    defs.setdefault(n.targets[0].id, []).append(n.value)
            rets = [n for n in ast.walk(f.node) if isinstance(n, ast.Return)]
            if not rets or not all(r.value is not None and is_seq(r.value, defs) for r in rets):
                ok = False
        cache[name] = ok
        return ok

    def delegates(self):
        """{qualname of a helper newer than the rules: (F, positions)} where the reference function F hands its work to
        the helper with `return helper(<parameters of F>)`: helper(a_0, a_1, ...) is F called with a_j as its parameter
        number positions[j].  Lets a recursion that now runs through the helper be read as the recursion of F."""
        if getattr(self, "_delegates", None) is None:
            out = {}
            for F in self.functions.values():
                if self.is_new_function(F):
                    continue
                a = F.node.args
                params = [x.arg for x in a.posonlyargs + a.args]
                for n in ast.walk(F.node):
                    if not (isinstance(n, ast.Return) and isinstance(n.value, ast.Call) and not n.value.keywords):
                        continue
                    c = n.value
                    if not all(isinstance(x, ast.Name) and x.id in params for x in c.args):
                        continue
                    if isinstance(c.func, ast.Name):
                        G = self.resolve_function(c.func.id, F.module)
                        if G is None or G.cls is not None:
                            continue
                    elif isinstance(c.func, ast.Attribute) and isinstance(c.func.value, ast.Name) and F.cls is not None and c.func.value.id in (F.cls.name, "cls", "self"):
                        G = self.method(F.cls, c.func.attr)
                        if G is None or "staticmethod" not in G.decorators:
                            continue
                    else:
                        continue
                    if not self.is_new_function(G):
                        continue
                    names = [x.id for x in c.args]
                    if len(set(names)) != len(names) or len(G.params) != len(names):
                        continue
                    if G.qualname in out and out[G.qualname][0] is not F:
                        out[G.qualname] = None  # handed to by two different functions: ambiguous
                    elif G.qualname not in out:
                        out[G.qualname] = (F, [params.index(x) for x in names])
            self._delegates = {k: v for k, v in out.items() if v is not None}
        return self._delegates

    def returns_record(self, name, only=None):
        """Field names if every repository function called `name` returns, on every path, a record of one type built in
        place (`return Rec(a, b)` / `Rec(x=a, y=b)`, NamedTuple or namedtuple): the positions and the field names then
        name the same components of the call's result.  None otherwise."""
        cache = self.__dict__.setdefault("_retrec", {})
        ck = (name, only.qualname if only is not None else None)
        if ck in cache:
            return cache[ck]
        cache[ck] = None
        fns = [only] if only is not None else [f for f in self.functions.values() if f.name == name and "@" not in f.qualname]
        if not fns:
            return None
        fields = None
        for f in fns:
            rets = [r for r in ast.walk(f.node) if isinstance(r, ast.Return)]
            if not rets:
                return None
            for r in rets:
                v = r.value
                if isinstance(v, ast.Name):
                    defs = [a.value for a in ast.walk(f.node) if isinstance(a, ast.Assign) and any(isinstance(t, ast.Name) and t.id == v.id for t in a.targets)]
                    v = defs[0] if len(defs) == 1 else None
                if not (isinstance(v, ast.Call) and isinstance(v.func, ast.Name)):
                    return None
                fl = self.record_fields(v.func.id, f.module)
                if not fl or (fields is not None and fl != fields):
                    return None
                # dataclasses are not sequences: only tuple-like records have positions
                fields = fl
        cache[ck] = fields
        return fields

    def record_fields(self, name, module, depth=0):
        """Field names if `name`, as seen from `module`, is a record type: `X = namedtuple("X", [...])`, a
        `typing.NamedTuple` subclass, or a `@dataclass` without a hand-written __init__.  None otherwise."""
        if depth > 4:
            return None
        for st in module.tree.body:
            if isinstance(st, ast.Assign) and len(st.targets) == 1 and isinstance(st.targets[0], ast.Name) and st.targets[0].id == name and isinstance(st.value, ast.Call):
                fn = ast.unparse(st.value.func)
                if fn.split(".")[-1] == "namedtuple" and len(st.value.args) >= 2:
                    f = st.value.args[1]
                    if isinstance(f, ast.Constant) and isinstance(f.value, str):
                        return f.value.replace(",", " ").split()
                    if isinstance(f, (ast.List, ast.Tuple)) and all(isinstance(e, ast.Constant) and isinstance(e.value, str) for e in f.elts):
                        return [e.value for e in f.elts]
                return None
            if isinstance(st, ast.ClassDef) and st.name == name:
                decos = [ast.unparse(d.func if isinstance(d, ast.Call) else d).split(".")[-1] for d in st.decorator_list]
                bases = [ast.unparse(b).split(".")[-1] for b in st.bases]
                if "dataclass" in decos or "NamedTuple" in bases:
                    if any(isinstance(x, ast.FunctionDef) and x.name in ("__init__", "__post_init__", "__new__") for x in st.body):
                        return None
                    return [x.target.id for x in st.body if isinstance(x, ast.AnnAssign) and isinstance(x.target, ast.Name)]
                return None
        tgt = module.imports.get(name)
        if tgt and "." in tgt:
            mod, _, nm = tgt.rpartition(".")
            m = self.modules.get(mod)
            if m is not None:
                return self.record_fields(nm, m, depth + 1)
        return None

    def subclasses(self, ci):
        out = []
        for c in self.classes.values():
            if c is not ci and ci in self.mro(c):
                out.append(c)
        return out

    # ------------------------------------------------------------------ stats
    def stats(self):
        calls = 0
        for m in self.modules.values():
            for n in ast.walk(m.tree):
                if isinstance(n, ast.Call):
                    calls += 1
        return {
            "modules": len(self.modules),
            "classes": len(self.classes),
            "functions": len(self.functions),
            "call_sites": calls,
            "lines": sum(m.source.count("\n") + 1 for m in self.modules.values()),
        }

    def digest(self):
        h = hashlib.sha256()
        for k in sorted(self.modules):
            h.update(k.encode())
            h.update(self.modules[k].source.encode())
        return h.hexdigest()[:16]
