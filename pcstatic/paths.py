"""Structured path walker over function bodies.

The repository's product code has no generators, no goto-like flow and one try/except (a
division guard in utils/dev.py); every body is a tree of if/for/while/with/return/raise/break/
continue/assert.  Paths are *abstract*: loops are taken zero times and once, both arms of every
`if` are taken, predicates are opaque syntax (no feasibility reasoning, hence no solver).
"""
import ast

from .model import AnalysisError


class Step:
    __slots__ = ("node", "kind", "taken")

    def __init__(self, node, kind, taken=None):
        self.node = node
        self.kind = kind  # 'stmt' | 'test' | 'iter' | 'with'
        self.taken = taken  # for tests: True/False; for iter: 0/1 iterations

    def __repr__(self):
        t = ast.unparse(self.node).split("\n")[0][:60]
        return "<%s %s %s>" % (self.kind, self.taken, t)


def enumerate_paths(body, max_paths=20000):
    """List of (steps, outcome) with outcome in 'fall' | 'return' | 'raise'."""
    out = _block(body, max_paths)
    res = []
    for steps, oc in out:
        if oc in ("break", "continue"):
            raise AnalysisError("break/continue outside a loop")
        res.append((steps, oc))
    return res


def _block(stmts, cap):
    live = [[]]
    done = []
    for s in stmts:
        nxt = []
        for prefix in live:
            for steps, oc in _stmt(s, cap):
                if oc == "fall":
                    nxt.append(prefix + steps)
                else:
                    done.append((prefix + steps, oc))
        live = nxt
        if len(live) + len(done) > cap:
            raise AnalysisError("path explosion (> %d abstract paths)" % cap)
        if not live:
            break
    return done + [(p, "fall") for p in live]


def _stmt(s, cap):
    if isinstance(s, ast.If):
        outs = []
        for steps, oc in _block(s.body, cap):
            outs.append(([Step(s.test, "test", True)] + steps, oc))
        for steps, oc in _block(s.orelse, cap):
            outs.append(([Step(s.test, "test", False)] + steps, oc))
        return outs
    if isinstance(s, (ast.For, ast.While)):
        head = s.iter if isinstance(s, ast.For) else s.test
        outs = []
        # zero iterations
        for steps, oc in _block(s.orelse, cap):
            outs.append(([Step(head, "iter", 0)] + steps, oc))
        # one iteration
        for steps, oc in _block(s.body, cap):
            pre = [Step(head, "iter", 1)] + steps
            if oc in ("fall", "continue"):
                for st2, oc2 in _block(s.orelse, cap):
                    outs.append((pre + st2, oc2))
            elif oc == "break":
                outs.append((pre, "fall"))
            else:
                outs.append((pre, oc))
        return outs
    if isinstance(s, ast.With):
        outs = []
        for steps, oc in _block(s.body, cap):
            outs.append(([Step(s, "with")] + steps, oc))
        return outs
    if isinstance(s, ast.Try):
        outs = []
        for steps, oc in _block(s.body, cap):
            if oc == "fall":
                for st2, oc2 in _block(s.orelse, cap):
                    for st3, oc3 in _block(s.finalbody, cap):
                        outs.append((steps + st2 + st3, oc2 if oc3 == "fall" else oc3))
            else:
                for st3, oc3 in _block(s.finalbody, cap):
                    outs.append((steps + st3, oc if oc3 == "fall" else oc3))
        for h in s.handlers:
            for steps, oc in _block(h.body, cap):
                for st3, oc3 in _block(s.finalbody, cap):
                    outs.append(([Step(h, "stmt")] + steps + st3, oc if oc3 == "fall" else oc3))
        return outs
    if isinstance(s, ast.Return):
        return [([Step(s, "stmt")], "return")]
    if isinstance(s, ast.Raise):
        return [([Step(s, "stmt")], "raise")]
    if isinstance(s, ast.Break):
        return [([Step(s, "stmt")], "break")]
    if isinstance(s, ast.Continue):
        return [([Step(s, "stmt")], "continue")]
    if isinstance(s, (ast.FunctionDef, ast.AsyncFunctionDef, ast.ClassDef)):
        return [([], "fall")]
    if isinstance(s, ast.Match):
        raise AnalysisError("match statement not supported by the path walker")
    return [([Step(s, "stmt")], "fall")]


def must_follow(body, is_a, is_b, normal_exits=("fall", "return")):
    """For every path and every step matching `is_a`, some later step on that path must match `is_b`
    before a normal exit.  Returns list of offending (step_a, path) pairs (empty = holds)."""
    bad = []
    seen = set()
    for steps, oc in enumerate_paths(body):
        if oc not in normal_exits:
            continue
        for i, st in enumerate(steps):
            if is_a(st):
                if not any(is_b(x) for x in steps[i + 1:]):
                    key = id(st.node)
                    if key not in seen:
                        seen.add(key)
                        bad.append((st, steps))
    return bad


def must_precede(body, is_a, is_b, normal_exits=("fall", "return")):
    """Every step matching `is_b` must be preceded on its path by a step matching `is_a`."""
    bad = []
    seen = set()
    for steps, oc in enumerate_paths(body):
        for i, st in enumerate(steps):
            if is_b(st) and not any(is_a(x) for x in steps[:i]):
                if id(st.node) not in seen:
                    seen.add(id(st.node))
                    bad.append((st, steps))
    return bad


def guards_of(node, pmap):
    """The (test, polarity) pairs of the `if`/`while`/loop-else constructs that enclose `node`."""
    out = []
    cur = node
    parent = pmap.get(id(cur))
    while parent is not None:
        if isinstance(parent, ast.If):
            if any(cur is x for x in parent.body):
                out.append((parent.test, True))
            elif any(cur is x for x in parent.orelse):
                out.append((parent.test, False))
        elif isinstance(parent, ast.While):
            if any(cur is x for x in parent.body):
                out.append((parent.test, True))
        elif isinstance(parent, ast.IfExp):
            if cur is parent.body:
                out.append((parent.test, True))
            elif cur is parent.orelse:
                out.append((parent.test, False))
        cur = parent
        parent = pmap.get(id(cur))
    return out


def dominating_tests(body, target):
    """Tests (node, polarity) that hold on *every* abstract path reaching the statement containing
    `target` (identity), including early-exit guards such as `if c: return`."""
    common = None
    for steps, oc in enumerate_paths(body):
        idx = None
        for i, st in enumerate(steps):
            if any(n is target for n in ast.walk(st.node)) if st.kind != "with" else False:
                idx = i
                break
        if idx is None:
            continue
        tests = set()
        for st in steps[:idx]:
            if st.kind == "test":
                tests.add((ast.unparse(st.node), st.taken))
        common = tests if common is None else (common & tests)
    return common or set()
