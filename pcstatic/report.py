"""Check context: obligations, violations, known findings, evidence, exit codes.

Exit 0: every obligation discharged (or only listed known findings fire).
Exit 1: at least one violation not listed in known_findings.json; prints
        `VIOLATION property=<id> replay=<path>` plus one diagnosable line each.
Exit 2: ANALYSIS-ERROR (anchor vanished, instance count below the confirmed minimum,
        unrecognised shape, checker crashed).  Never a VIOLATION line.
"""
import ast
import json
import os
import time

from .model import AnalysisError

VERIF = os.path.dirname(os.path.dirname(os.path.abspath(__file__)))
EVIDENCE_DIR = os.environ.get("PCSTATIC_EVIDENCE_DIR", os.path.join(VERIF, "evidence"))
KNOWN_FILE = os.path.join(VERIF, "known_findings.json")


def norm_stmt(node_or_text):
    """Normalised statement text: ast.unparse output, single line, so that a reformat
    (quotes, line breaks, spacing) does not move a finding key."""
    if isinstance(node_or_text, ast.AST):
        t = ast.unparse(node_or_text)
    else:
        t = str(node_or_text)
        try:
            t = ast.unparse(ast.parse(t))
        except SyntaxError:
            pass
    return " ".join(t.split())


class Ctx:
    def __init__(self, prop_id, tier, prog, quiet=False):
        self.prop_id = prop_id
        self.tier = tier
        self.prog = prog
        self.quiet = quiet
        self.t0 = time.time()
        self.obligations = []  # dicts
        self.violations = []
        self.known_hits = []
        self.notes = []
        self.assumptions = []
        self.samples = []
        self.rule_min = {}  # rule -> min instances
        self.rule_desc = {}
        self.functions_analysed = set()
        self.extra = {}
        self.selftest = None
        try:
            with open(KNOWN_FILE) as fh:
                kf = json.load(fh)
        except FileNotFoundError:
            kf = {"known": [], "fixed": []}
        self.known = [k for k in kf.get("known", []) if k.get("property") == prop_id]

    # ---- declaring rules -------------------------------------------------
    def rule(self, rule, desc, min_instances):
        self.rule_min[rule] = min_instances
        self.rule_desc[rule] = desc

    def analysed(self, *fns):
        for f in fns:
            self.functions_analysed.add(getattr(f, "qualname", str(f)))

    def note(self, text):
        self.notes.append(text)

    def assume(self, text):
        if text not in self.assumptions:
            self.assumptions.append(text)

    def sample(self, obj):
        if len(self.samples) < 40:
            self.samples.append(obj)

    # ---- recording results ------------------------------------------------
    def ok(self, rule, instance, where="", detail=""):
        self.obligations.append(
            {"rule": rule, "instance": instance, "where": where, "status": "discharged", "detail": detail}
        )

    def fail(self, rule, instance, where, why, construct=None, stmt=None):
        """A rule instance that does not hold.  `construct` (qualified name) and `stmt`
        (normalised statement text) key the finding, never the line number."""
        key = {
            "property": self.prop_id,
            "rule": rule,
            "construct": construct or instance,
            "stmt": norm_stmt(stmt) if stmt is not None else "",
        }
        rec = {"rule": rule, "instance": instance, "where": where, "why": why, "key": key}
        for k in self.known:
            if (
                k.get("rule") == key["rule"]
                and k.get("construct") == key["construct"]
                and k.get("stmt", "") == key["stmt"]
            ):
                rec["known"] = k.get("what", "")
                self.known_hits.append(rec)
                self.obligations.append(
                    {"rule": rule, "instance": instance, "where": where, "status": "known-finding", "detail": why}
                )
                return
        self.violations.append(rec)
        self.obligations.append(
            {"rule": rule, "instance": instance, "where": where, "status": "VIOLATED", "detail": why}
        )

    def check(self, cond, rule, instance, where, why, construct=None, stmt=None, detail=""):
        if cond:
            self.ok(rule, instance, where, detail)
        else:
            self.fail(rule, instance, where, why, construct=construct, stmt=stmt)
        return bool(cond)

    def soft(self, rule_fn, *args, **kwargs):
        """Run one rule; an analysis error in it is deferred so that the remaining rules (and the shared
        premises) still run: a violation any of them establishes must not be hidden by a rule that lost its
        footing on the same change.  With no violation at the end, the first deferred error is raised (exit 2)."""
        if not hasattr(self, "deferred"):
            self.deferred = []
        try:
            return rule_fn(self, *args, **kwargs)
        except AnalysisError as e:
            self.deferred.append(e)
            self.note("rule %s could not be analysed: %s" % (getattr(rule_fn, "__name__", rule_fn), str(e)[:300]))
            return None
        except Exception as e:  # noqa: BLE001 - a rule that depends on the result of a deferred one, or of one that stopped at a violation
            if not self.deferred and not self.violations:
                raise
            self.deferred.append(AnalysisError("%s failed after an earlier rule could not be analysed: %s: %s" % (getattr(rule_fn, "__name__", rule_fn), type(e).__name__, e)))
            return None

    # ---- finishing ---------------------------------------------------------
    def instance_counts(self):
        counts = {}
        for o in self.obligations:
            counts[o["rule"]] = counts.get(o["rule"], 0) + 1
        return counts

    def finish(self):
        counts = self.instance_counts()
        if getattr(self, "deferred", None) and not self.violations:
            raise self.deferred[0]
        for rule, mn in self.rule_min.items():
            # a recorded violation stands on its own; the vacuity guard is for runs that report none
            if counts.get(rule, 0) < mn and not self.violations:
                raise AnalysisError(
                    "rule %s matched %d instances, fewer than the %d confirmed by hand "
                    "(a rule that matches nothing passes vacuously)" % (rule, counts.get(rule, 0), mn)
                )
        wall = time.time() - self.t0
        n_ob = len(self.obligations)
        n_dis = sum(1 for o in self.obligations if o["status"] == "discharged")
        distinct = len({(o["rule"], o["instance"]) for o in self.obligations})
        st = self.prog.stats()
        coverage = {
            "explanation": (
                "Static analysis (stdlib ast over %d product modules, %d functions, %d call sites of /repo's "
                "working tree; repository code is never imported or executed).  Each obligation is one "
                "instance of a structural rule (see rules) that is a necessary condition of the property; "
                "it is discharged when the construct found in the source satisfies the rule's oracle."
                % (st["modules"], st["functions"], st["call_sites"])
            ),
            "obligations": n_ob,
            "discharged": n_dis,
            "known_findings": len(self.known_hits),
            "evaluations": max(n_ob, 1),
            "distinct_nontrivial": distinct,
            "rule": "one evaluation per rule instance (rule id + construct); distinct = distinct (rule, construct) pairs; "
            "an instance is non-trivial because every rule has a confirmed minimum instance count and fails closed below it",
            "rules": {
                r: {"description": self.rule_desc.get(r, ""), "min_instances": self.rule_min.get(r, 0), "instances": counts.get(r, 0)}
                for r in sorted(set(list(self.rule_min) + list(counts)))
            },
            "samples": self.samples[:40] or [o for o in self.obligations[:10]],
            "instances": self.obligations,
            "functions_analysed": sorted(self.functions_analysed),
            "program": st,
            "source_digest": self.prog.digest(),
            "checker_cmd": "./check %s --tier %s" % (self.prop_id, self.tier),
            "trusted_base": ["CPython ast module", "numpy/scipy/numba/rustworkx/pandas semantics as documented"],
            "notes": self.notes,
            "exhaustive": True,
        }
        coverage.update(self.extra)
        if self.selftest is not None:
            coverage["selftest"] = self.selftest
        ev = {
            "property_id": self.prop_id,
            "tier": self.tier,
            "seed": int(os.environ.get("VERIF_SEED", "0") or 0),
            "level": "other",
            "coverage": coverage,
            "assumptions": self.assumptions,
            "wall_s": round(wall, 3),
            "violations": len(self.violations),
        }
        os.makedirs(EVIDENCE_DIR, exist_ok=True)
        with open(os.path.join(EVIDENCE_DIR, self.prop_id + ".json"), "w") as fh:
            json.dump(ev, fh, indent=1, default=str)
        if not self.quiet:
            print(
                "property=%s tier=%s modules=%d functions=%d call_sites=%d obligations=%d discharged=%d wall=%.2fs"
                % (self.prop_id, self.tier, st["modules"], st["functions"], st["call_sites"], n_ob, n_dis, wall)
            )
            for r in sorted(counts):
                print("  rule %-4s instances=%-3d (min %d)  %s" % (r, counts[r], self.rule_min.get(r, 0), self.rule_desc.get(r, "")))
        for k in self.known_hits:
            print(
                "KNOWN-FINDING: property=%s rule=%s %s at %s: %s"
                % (self.prop_id, k["rule"], k["key"]["construct"], k["where"], k["why"])
            )
        if self.violations:
            vpath = os.path.join(EVIDENCE_DIR, self.prop_id + ".violation.json")
            with open(vpath, "w") as fh:
                json.dump(self.violations, fh, indent=1, default=str)
            for v in self.violations:
                print("%s  rule=%s  instance=%s  %s" % (v["where"], v["rule"], v["instance"], v["why"]))
            print("VIOLATION property=%s replay=%s" % (self.prop_id, vpath))
            return 1
        # no violation on this run: a replay file left by an earlier failing run would be stale
        stale = os.path.join(EVIDENCE_DIR, self.prop_id + ".violation.json")
        if os.path.exists(stale):
            try:
                os.remove(stale)
            except OSError:
                pass
        return 0
