"""Driver: ./check <ID> [--tier quick|thorough] [--repo PATH]"""
import argparse
import importlib
import os
import sys
import traceback


def main(argv=None):
    ap = argparse.ArgumentParser()
    ap.add_argument("prop")
    ap.add_argument("--tier", default=os.environ.get("VERIF_TIER") or "quick", choices=["quick", "thorough"])
    ap.add_argument("--repo", default=None)
    ap.add_argument("--quiet", action="store_true")
    ap.add_argument("--no-selftest", action="store_true")
    args = ap.parse_args(argv)
    if args.repo:
        os.environ["PCSTATIC_REPO"] = args.repo
    from . import model

    if args.repo:
        model.REPO = args.repo
    from .model import AnalysisError, Program
    from .report import Ctx

    pid = args.prop.upper()

    class _Quiet:  # a reader that closes the pipe early must not change the verdict
        def __init__(self, s):
            self.s = s

        def write(self, x):
            try:
                return self.s.write(x)
            except BrokenPipeError:
                return len(x)

        def flush(self):
            try:
                self.s.flush()
            except BrokenPipeError:
                pass

    sys.stdout = _Quiet(sys.stdout)
    try:
        prog = Program(model.REPO)
        ctx = Ctx(pid, args.tier, prog, quiet=args.quiet)
        mod = importlib.import_module("pcstatic.props." + pid)
        mod.run(ctx)
        if args.tier == "thorough" and not args.no_selftest:
            from . import selftest

            selftest.run_for_property(ctx, pid)
        rc = ctx.finish()
    except AnalysisError as e:
        if "ctx" in locals() and ctx.violations:
            # a violation established before the analysis lost its footing stands on its own
            ctx.note("analysis stopped early: %s" % e)
            print("note: analysis stopped after a violation was established (%s)" % str(e)[:200])
            ctx.rule_min = {}
            return ctx.finish()
        print("ANALYSIS-ERROR property=%s %s: %s" % (pid, type(e).__name__, e))
        return 2
    except Exception as e:  # a crash of the checker is a broken analysis, never a verdict
        traceback.print_exc()
        print("ANALYSIS-ERROR property=%s checker crashed: %s: %s" % (pid, type(e).__name__, e))
        return 2
    return rc


if __name__ == "__main__":
    sys.exit(main())
