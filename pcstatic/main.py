"""Driver: ./check <ID> [--tier quick|thorough] [--repo PATH]"""
import argparse
import importlib
import os
import sys
import traceback


def main(argv=None):
    ap = argparse.ArgumentParser()
    ap.add_argument("prop")
    ap.add_argument("--tier", default=os.environ.get("VERIF_TIER") or "quick", choices=["quick", "thorough"])
    ap.add_argument("--repo", default=None)
    ap.add_argument("--quiet", action="store_true")
    ap.add_argument("--no-selftest", action="store_true")
    args = ap.parse_args(argv)
    if args.repo:
        os.environ["PCSTATIC_REPO"] = args.repo
    from . import model

    if args.repo:
        model.REPO = args.repo
    from .model import AnalysisError, Program
    from .report import Ctx

    pid = args.prop.upper()

    class _Quiet:  # a reader that closes the pipe early must not change the verdict
        def __init__(self, s):
            self.s = s

        def write(self, x):
            try:
                return self.s.write(x)
            except BrokenPipeError:
                return len(x)

        def flush(self):
            try:
                self.s.flush()
            except BrokenPipeError:
                pass

    sys.stdout = _Quiet(sys.stdout)
    try:
        prog = Program(model.REPO)
        ctx = Ctx(pid, args.tier, prog, quiet=args.quiet)
        mod = importlib.import_module("pcstatic.props." + pid)
        mod.run(ctx)
        if args.tier == "thorough":
            # deep pass: the same rules once more with loops unrolled over three pseudo-elements instead of two
            # and four times as many random-interpretation trials; whatever it finds beyond the first pass counts
            from . import termflow

            old = termflow.K_ELEMS, termflow.TRIALS
            termflow.K_ELEMS, termflow.TRIALS = 3, 256
            try:
                deep = Ctx(pid, args.tier, prog, quiet=True)
                try:
                    mod.run(deep)
                    deep_error = None
                except AnalysisError as e:
                    deep_error = str(e)
            finally:
                termflow.K_ELEMS, termflow.TRIALS = old
            seen = {(v["key"]["rule"], v["key"]["construct"], v["key"]["stmt"]) for v in ctx.violations}
            extra = [v for v in deep.violations if (v["key"]["rule"], v["key"]["construct"], v["key"]["stmt"]) not in seen]
            for v in extra:
                ctx.fail(v["rule"], v["instance"] + " [deep pass]", v["where"], v["why"], construct=v["key"]["construct"], stmt=v["key"]["stmt"])
            ctx.extra["deep_pass"] = {"unrolling": 3, "trials": 256, "obligations": len(deep.obligations), "discharged": sum(1 for o in deep.obligations if o["status"] == "discharged"), "new_violations": len(extra), "analysis_error": deep_error}
            if not args.quiet:
                print("  deep pass (3 pseudo-elements, 256 trials): %d obligations, %d discharged, %d new violations" % (len(deep.obligations), ctx.extra["deep_pass"]["discharged"], len(extra)))
            if deep_error and not ctx.violations:
                raise AnalysisError("deep pass: " + deep_error)
        if args.tier == "thorough" and not args.no_selftest:
            from . import selftest

            selftest.run_for_property(ctx, pid)
        rc = ctx.finish()
    except AnalysisError as e:
        if "ctx" in locals() and ctx.violations:
            # a violation established before the analysis lost its footing stands on its own
            ctx.note("analysis stopped early: %s" % e)
            print("note: analysis stopped after a violation was established (%s)" % str(e)[:200])
            ctx.rule_min = {}
            return ctx.finish()
        print("ANALYSIS-ERROR property=%s %s: %s" % (pid, type(e).__name__, e))
        return 2
    except Exception as e:  # a crash of the checker is a broken analysis, never a verdict
        if "ctx" in locals() and ctx.violations:
            # ... but a violation established before the crash stands on its own (a later rule read what the
            # violating rule, having reported, no longer computed)
            ctx.note("analysis stopped early: %s: %s" % (type(e).__name__, e))
            print("note: analysis stopped after a violation was established (%s: %s)" % (type(e).__name__, str(e)[:200]))
            ctx.rule_min = {}
            return ctx.finish()
        traceback.print_exc()
        print("ANALYSIS-ERROR property=%s checker crashed: %s: %s" % (pid, type(e).__name__, e))
        return 2
    return rc


if __name__ == "__main__":
    sys.exit(main())
