"""Small AST helpers shared by the rules."""
import ast


def dotted(e):
    parts = []
    while isinstance(e, ast.Attribute):
        parts.append(e.attr)
        e = e.value
    if isinstance(e, ast.Name):
        parts.append(e.id)
        return ".".join(reversed(parts))
    if isinstance(e, ast.Call):
        inner = dotted(e.func)
        if inner:
            parts.append(inner + "()")
            return ".".join(reversed(parts))
    return None


def call_name(call):
    """Dotted name of the callee, e.g. 'self.swarm.add_particle', 'np.log', 'Tree'."""
    return dotted(call.func) or ast.unparse(call.func)


def last_name(call):
    f = call.func
    if isinstance(f, ast.Attribute):
        return f.attr
    if isinstance(f, ast.Name):
        return f.id
    return None


def calls(node, name=None, last=None):
    """All Call nodes under `node` (in source order) filtered by dotted name or last component."""
    out = []
    for n in ast.walk(node):
        if isinstance(n, ast.Call):
            if name is not None and call_name(n) != name:
                continue
            if last is not None and last_name(n) != last:
                continue
            out.append(n)
    out.sort(key=lambda n: (n.lineno, n.col_offset))
    return out


def kwarg(call, name):
    for k in call.keywords:
        if k.arg == name:
            return k.value
    return None


def arg(call, pos, name=None):
    if pos is not None and pos < len(call.args):
        return call.args[pos]
    if name:
        return kwarg(call, name)
    return None


def u(node):
    """Normalised one-line text of a node."""
    return " ".join(ast.unparse(node).split()) if node is not None else ""


def parents(root):
    """child id -> parent node."""
    m = {}
    for p in ast.walk(root):
        for c in ast.iter_child_nodes(p):
            m[id(c)] = p
    return m


def enclosing_stmt(node, pmap):
    cur = node
    while cur is not None and not isinstance(cur, ast.stmt):
        cur = pmap.get(id(cur))
    return cur


def ancestors(node, pmap):
    cur = pmap.get(id(node))
    while cur is not None:
        yield cur
        cur = pmap.get(id(cur))


def names_in(node):
    return {n.id for n in ast.walk(node) if isinstance(n, ast.Name)}


def assigned_names(stmt):
    out = set()
    for n in ast.walk(stmt):
        if isinstance(n, ast.Name) and isinstance(n.ctx, (ast.Store, ast.Del)):
            out.add(n.id)
    return out


def is_const(node, value):
    return isinstance(node, ast.Constant) and node.value == value and type(node.value) is type(value)


def simple_stmts(body):
    """Every simple statement under a body, in source order (compound statements are descended)."""
    out = []
    for st in body:
        if isinstance(st, (ast.If, ast.For, ast.While, ast.With, ast.Try)):
            for fld in ("body", "orelse", "finalbody"):
                out.extend(simple_stmts(getattr(st, fld, []) or []))
            for h in getattr(st, "handlers", []) or []:
                out.extend(simple_stmts(h.body))
        elif isinstance(st, (ast.FunctionDef, ast.AsyncFunctionDef, ast.ClassDef)):
            continue
        else:
            out.append(st)
    return out


def attr_chain_root(e):
    while isinstance(e, (ast.Attribute, ast.Subscript)):
        e = e.value
    return e


def stores_to_attr(node, attr):
    """Assignment-like statements under node whose target is `<x>.<attr>`."""
    out = []
    for n in ast.walk(node):
        if isinstance(n, (ast.Assign, ast.AugAssign, ast.AnnAssign)):
            tg = n.targets if isinstance(n, ast.Assign) else [n.target]
            for t in tg:
                for x in ast.walk(t):
                    if isinstance(x, ast.Attribute) and x.attr == attr and isinstance(x.ctx, ast.Store):
                        out.append(n)
    return out


def func_defaults(fnode):
    """param name -> default expression node."""
    a = fnode.args
    pos = a.posonlyargs + a.args
    out = {}
    for p, d in zip(pos[len(pos) - len(a.defaults):], a.defaults):
        out[p.arg] = d
    for p, d in zip(a.kwonlyargs, a.kw_defaults):
        if d is not None:
            out[p.arg] = d
    return out
