"""Small AST helpers shared by the rules."""
import ast


def dotted(e):
    parts = []
    while isinstance(e, ast.Attribute):
        parts.append(e.attr)
        e = e.value
    if isinstance(e, ast.Name):
        parts.append(e.id)
        return ".".join(reversed(parts))
    if isinstance(e, ast.Call):
        inner = dotted(e.func)
        if inner:
            parts.append(inner + "()")
            return ".".join(reversed(parts))
    return None


def call_name(call):
    """Dotted name of the callee, e.g. 'self.swarm.add_particle', 'np.log', 'Tree'."""
    return dotted(call.func) or ast.unparse(call.func)


def last_name(call):
    f = call.func
    if isinstance(f, ast.Attribute):
        return f.attr
    if isinstance(f, ast.Name):
        return f.id
    return None


def calls(node, name=None, last=None):
    """All Call nodes under `node` (in source order) filtered by dotted name or last component."""
    out = []
    for n in ast.walk(node):
        if isinstance(n, ast.Call):
            if name is not None and call_name(n) != name:
                continue
            if last is not None and last_name(n) != last:
                continue
            out.append(n)
    out.sort(key=lambda n: (n.lineno, n.col_offset))
    return out


def kwarg(call, name):
    for k in call.keywords:
        if k.arg == name:
            return k.value
    return None


def arg(call, pos, name=None):
    if pos is not None and pos < len(call.args):
        return call.args[pos]
    if name:
        return kwarg(call, name)
    return None


def u(node):
    """Normalised one-line text of a node."""
    return " ".join(ast.unparse(node).split()) if node is not None else ""


def parents(root):
    """child id -> parent node."""
    m = {}
    for p in ast.walk(root):
        for c in ast.iter_child_nodes(p):
            m[id(c)] = p
    return m


def enclosing_stmt(node, pmap):
    cur = node
    while cur is not None and not isinstance(cur, ast.stmt):
        cur = pmap.get(id(cur))
    return cur


def ancestors(node, pmap):
    cur = pmap.get(id(node))
    while cur is not None:
        yield cur
        cur = pmap.get(id(cur))


def names_in(node):
    return {n.id for n in ast.walk(node) if isinstance(n, ast.Name)}


def assigned_names(stmt):
    out = set()
    for n in ast.walk(stmt):
        if isinstance(n, ast.Name) and isinstance(n.ctx, (ast.Store, ast.Del)):
            out.add(n.id)
    return out


def is_const(node, value):
    return isinstance(node, ast.Constant) and node.value == value and type(node.value) is type(value)


def simple_stmts(body):
    """Every simple statement under a body, in source order (compound statements are descended)."""
    out = []
    for st in body:
        if isinstance(st, (ast.If, ast.For, ast.While, ast.With, ast.Try)):
            for fld in ("body", "orelse", "finalbody"):
                out.extend(simple_stmts(getattr(st, fld, []) or []))
            for h in getattr(st, "handlers", []) or []:
                out.extend(simple_stmts(h.body))
        elif isinstance(st, (ast.FunctionDef, ast.AsyncFunctionDef, ast.ClassDef)):
            continue
        else:
            out.append(st)
    return out


def attr_chain_root(e):
    while isinstance(e, (ast.Attribute, ast.Subscript)):
        e = e.value
    return e


def stores_to_attr(node, attr):
    """Assignment-like statements under node whose target is `<x>.<attr>`."""
    out = []
    for n in ast.walk(node):
        if isinstance(n, (ast.Assign, ast.AugAssign, ast.AnnAssign)):
            tg = n.targets if isinstance(n, ast.Assign) else [n.target]
            for t in tg:
                for x in ast.walk(t):
                    if isinstance(x, ast.Attribute) and x.attr == attr and isinstance(x.ctx, ast.Store):
                        out.append(n)
    return out


def func_defaults(fnode):
    """param name -> default expression node."""
    a = fnode.args
    pos = a.posonlyargs + a.args
    out = {}
    for p, d in zip(pos[len(pos) - len(a.defaults):], a.defaults):
        out[p.arg] = d
    for p, d in zip(a.kwonlyargs, a.kw_defaults):
        if d is not None:
            out[p.arg] = d
    return out


# --------------------------------------------------------------------------------------------------
# Syntactic inlining of helpers newer than the rules (for the rules that read statements, not terms)
# --------------------------------------------------------------------------------------------------
def inline_new_helpers(prog, fi, depth=2):
    """A copy of `fi.node` in which statement-level calls of repository helpers *newer than the rules* (same class
    through self / cls / the freshly built object, or same module) are replaced by the helper's body: parameters
    substituted by the argument expressions (plain names / attributes; anything else is bound to a fresh local
    first), the helper's other locals renamed, `t = helper(...)` followed by `t = <returned expression>`.  Guard
    clauses (`if c: return`) become `if c: ... else: <rest>`.  Calls the transformation cannot express are left as
    they are.  Line numbers of inlined statements are those of the helper."""
    import copy

    counter = [0]

    def resolve(call, owner):
        f = call.func
        if isinstance(f, ast.Name):
            g = prog.resolve_function(f.id, owner.module)
            return (g, None) if g is not None and g.cls is None else (None, None)
        if isinstance(f, ast.Attribute) and isinstance(f.value, ast.Name) and owner.cls is not None:
            g = prog.method(owner.cls, f.attr)
            if g is not None:
                return g, f.value
        return None, None

    def body_of(g, call, recv, target):
        a = g.node.args
        if a.vararg or a.kwarg or any(isinstance(x, ast.Starred) for x in call.args) or any(k.arg is None for k in call.keywords):
            return None
        params = [x.arg for x in a.posonlyargs + a.args]
        decos = g.decorators
        bound = {}
        if g.cls is not None and "staticmethod" not in decos:
            if not params:
                return None
            bound[params[0]] = recv if "classmethod" not in decos else ast.Name(id="cls", ctx=ast.Load())
            params = params[1:]
        if len(call.args) > len(params):
            return None
        for p, x in zip(params, call.args):
            bound[p] = x
        for k in call.keywords:
            if k.arg not in params + [x.arg for x in a.kwonlyargs] or k.arg in bound:
                return None
            bound[k.arg] = k.value
        defaults = dict(zip([x.arg for x in (a.posonlyargs + a.args)][len(a.posonlyargs + a.args) - len(a.defaults):], a.defaults))
        for x, d in zip(a.kwonlyargs, a.kw_defaults):
            if d is not None:
                defaults[x.arg] = d
        for p in params + [x.arg for x in a.kwonlyargs]:
            if p not in bound:
                if p not in defaults:
                    return None
                bound[p] = defaults[p]
        stmts = list(g.node.body)
        if stmts and isinstance(stmts[0], ast.Expr) and isinstance(stmts[0].value, ast.Constant) and isinstance(stmts[0].value.value, str):
            stmts = stmts[1:]
        if any(isinstance(n, (ast.Yield, ast.YieldFrom, ast.FunctionDef, ast.Lambda, ast.Global, ast.Nonlocal)) for s in stmts for n in ast.walk(s)):
            return None
        counter[0] += 1
        tag = "__h%d_" % counter[0]
        stored = {n.id for s in stmts for n in ast.walk(s) if isinstance(n, ast.Name) and isinstance(n.ctx, (ast.Store, ast.Del))}
        pre, subst = [], {}
        for p, x in bound.items():
            simple = isinstance(x, (ast.Name, ast.Constant)) or (isinstance(x, ast.Attribute) and isinstance(x.value, ast.Name))
            if simple and p not in stored:
                subst[p] = x
            else:
                nm = tag + p
                pre.append(ast.Assign(targets=[ast.Name(id=nm, ctx=ast.Store())], value=x))
                subst[p] = ast.Name(id=nm, ctx=ast.Load())
        rename = {v: tag + v for v in stored if v not in bound}

        class Sub(ast.NodeTransformer):
            def visit_Name(self, n):
                if n.id in subst and isinstance(n.ctx, ast.Load):
                    return copy.deepcopy(subst[n.id])
                if n.id in subst and isinstance(subst[n.id], ast.Name):
                    return ast.Name(id=subst[n.id].id, ctx=n.ctx)
                if n.id in rename:
                    return ast.Name(id=rename[n.id], ctx=n.ctx)
                return n

        def convert(sts):
            """Statements with the helper's returns expressed: the last `return e` is the value; `if c: return` guards
            wrap the rest.  None if a return sits where this cannot express it."""
            out = []
            for i, st in enumerate(sts):
                if isinstance(st, ast.Return):
                    if i != len(sts) - 1:
                        return None
                    if target == "return":
                        out.append(st)
                    elif st.value is not None and target is not None:
                        out.append(ast.Assign(targets=[copy.deepcopy(target)], value=st.value))
                    elif st.value is not None and not isinstance(st.value, (ast.Name, ast.Constant)):
                        out.append(ast.Expr(value=st.value))
                    return out
                if isinstance(st, ast.If) and st.body and isinstance(st.body[-1], ast.Return) and not st.orelse and not any(isinstance(n, ast.Return) for s in st.body[:-1] for n in ast.walk(s)):
                    inner = convert(st.body)
                    rest = convert(sts[i + 1:])
                    if inner is None or rest is None:
                        return None
                    out.append(ast.If(test=st.test, body=inner or [ast.Pass()], orelse=rest))
                    return out
                if any(isinstance(n, ast.Return) for n in ast.walk(st)):
                    return None
                out.append(st)
            return out

        conv = convert(stmts)
        if conv is None:
            return None
        res = pre + [Sub().visit(copy.deepcopy(s)) for s in conv]
        for s in res:
            ast.copy_location(s, call)
            ast.fix_missing_locations(s)
        return res

    def rewrite(stmts, owner, d):
        out = []
        for st in stmts:
            call, target = None, None
            if isinstance(st, ast.Expr) and isinstance(st.value, ast.Call):
                call = st.value
            elif isinstance(st, ast.Assign) and len(st.targets) == 1 and isinstance(st.value, ast.Call) and isinstance(st.targets[0], (ast.Name, ast.Attribute, ast.Tuple)):
                call, target = st.value, st.targets[0]
            elif isinstance(st, ast.Return) and isinstance(st.value, ast.Call):
                call, target = st.value, "return"
            if call is not None and d > 0:
                g, recv = resolve(call, owner)
                if g is not None and g is not owner and prog.is_new_function(g):
                    body = body_of(g, call, recv, target)
                    if body is not None:
                        out.extend(rewrite(body, g if g.cls is None else owner, d - 1))
                        continue
            n = copy.copy(st)
            for f in ("body", "orelse", "finalbody"):
                if isinstance(getattr(n, f, None), list) and getattr(n, f) and isinstance(getattr(n, f)[0], ast.stmt):
                    setattr(n, f, rewrite(getattr(n, f), owner, d))
            out.append(n)
        return out

    node = copy.copy(fi.node)
    node.body = rewrite(list(fi.node.body), fi, depth)
    return node


def new_helper_scope(prog, fi, depth=2):
    """`fi` and the functions newer than the rules that it calls (module functions by name, methods through self /
    cls), transitively to `depth`: the code an anchored function was split into by a refactoring."""
    out, todo = [], [(fi, 0)]
    while todo:
        g, d = todo.pop(0)
        if any(g is x for x in out):
            continue
        out.append(g)
        if d >= depth:
            continue
        for c in ast.walk(g.node):
            if not isinstance(c, ast.Call):
                continue
            h = None
            if isinstance(c.func, ast.Name):
                h = prog.resolve_function(c.func.id, g.module)
            elif isinstance(c.func, ast.Attribute) and isinstance(c.func.value, ast.Name) and c.func.value.id in ("self", "cls") and g.cls is not None:
                h = prog.method(g.cls, c.func.attr)
            if h is not None and prog.is_new_function(h):
                todo.append((h, d + 1))
    return out


def cli_forwards(command_node, flag, callee_name, callee_params, param):
    """Does the click command `command_node` hand the value of its option `flag` to parameter `param` of the one call
    of `callee_name` in its body?  Either the command collects **kwargs and passes **kwargs on (click names the value
    after the option, so names must agree), or it names the option's variable explicitly at the parameter's position /
    as that keyword.  Returns (ok, why)."""
    var = None
    for d in command_node.decorator_list:
        if isinstance(d, ast.Call) and call_name(d).split(".")[-1] in ("option", "argument"):
            strs = [a.value for a in d.args if isinstance(a, ast.Constant) and isinstance(a.value, str)]
            if flag in strs or flag in [x.split("/")[0] for x in strs]:
                plain = [x for x in strs if not x.startswith("-")]
                longs = [x.split("/")[0] for x in strs if x.startswith("--")]  # `--flag/--no-flag` is named after the first
                var = plain[0] if plain else (longs[0][2:].replace("-", "_") if longs else None)
    if var is None:
        return False, "the command has no option %s" % flag
    cs = [c for c in ast.walk(command_node) if isinstance(c, ast.Call) and call_name(c).split(".")[-1] == callee_name]
    if len(cs) != 1:
        return False, "the command calls %s %d times" % (callee_name, len(cs))
    c = cs[0]
    a = command_node.args
    if a.kwarg is not None and any(k.arg is None and isinstance(k.value, ast.Name) and k.value.id == a.kwarg.arg for k in c.keywords):
        if var != param:
            return False, "click passes the value as %r but %s takes %r" % (var, callee_name, param)
        rebound = [n for n in ast.walk(command_node) if isinstance(n, (ast.Subscript,)) and isinstance(n.value, ast.Name) and n.value.id == a.kwarg.arg and isinstance(n.ctx, (ast.Store, ast.Del))]
        popped = [n for n in ast.walk(command_node) if isinstance(n, ast.Call) and isinstance(n.func, ast.Attribute) and n.func.attr in ("pop", "clear", "update", "setdefault") and isinstance(n.func.value, ast.Name) and n.func.value.id == a.kwarg.arg]
        if rebound or popped:
            return False, "the keyword dictionary is edited before it is forwarded"
        return True, ""
    names = [x.arg for x in a.posonlyargs + a.args + a.kwonlyargs]
    if var not in names:
        return False, "the command does not receive %r" % var
    stores = [n for n in ast.walk(command_node) if isinstance(n, ast.Name) and n.id == var and isinstance(n.ctx, ast.Store)]
    if stores:
        return False, "%r is rebound before the call" % var
    if any(isinstance(x, ast.Starred) for x in c.args):
        return False, "star-arguments"
    if param in callee_params:
        i = callee_params.index(param)
        if i < len(c.args):
            v = c.args[i]
            return (isinstance(v, ast.Name) and v.id == var), "position %d of the call is %s" % (i, ast.unparse(v))
    for k in c.keywords:
        if k.arg == param:
            return (isinstance(k.value, ast.Name) and k.value.id == var), "%s=%s" % (param, ast.unparse(k.value))
    return False, "the call does not pass %s: %s falls back to its default whatever the command line says" % (param, callee_name)
