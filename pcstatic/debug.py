"""Developer aid (not used by the checks): locate where two terms differ under a valuation.

    locate(got, want, trial) -> list of (path, got-subterm, want-subterm) for the deepest positions at which the
    images of structurally parallel sub-terms differ.
"""
from .termflow import Valuation, show_key, vkey, _is_polykey, poly_from_key


def _img(val, k):
    try:
        if _is_polykey(k):
            return val.poly(poly_from_key(k))
        return val.image(k)
    except Exception as e:  # noqa
        return "<%s>" % type(e).__name__


def locate(got, want, trial=0, salt="s0", limit=6):
    val = Valuation(trial, salt=salt)
    out = []

    def walk(a, b, path):
        if len(out) >= limit:
            return True
        if a == b:
            return False
        if not (isinstance(a, tuple) and isinstance(b, tuple)):
            out.append((path, a, b))
            return True
        ia, ib = _img(val, a), _img(val, b)
        if repr(ia) == repr(ib):
            return False
        if len(a) == len(b) and a and b and (not isinstance(a[0], str) or a[0] == b[0]):
            hit = False
            for i, (x, y) in enumerate(zip(a, b)):
                if isinstance(x, tuple) and isinstance(y, tuple):
                    if walk(x, y, path + (i,)):
                        hit = True
                elif x != y:
                    out.append((path + (i,), x, y))
                    hit = True
            if hit:
                return True
        out.append((path, a, b))
        return True

    walk(vkey(got) if not isinstance(got, tuple) else got, vkey(want) if not isinstance(want, tuple) else want, ())
    return out


def report(got, want, trial=0, depth=4):
    lines = []
    for path, a, b in locate(got, want, trial):
        sa = show_key(a, 0) if isinstance(a, tuple) else repr(a)
        sb = show_key(b, 0) if isinstance(b, tuple) else repr(b)
        lines.append("at %s\n   got : %s\n   want: %s" % (path, sa[:1500], sb[:1500]))
    return "\n".join(lines)
