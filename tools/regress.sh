#!/bin/sh
# development helper: all checks (quick), all catalogues, all seeded changes; prints only what is not ok
cd "$(dirname "$0")/.."
for i in $(seq -w 1 20); do ( ./check C$i --quiet >/tmp/.reg_C$i.out 2>&1; echo "C$i exit=$? $(grep -c KNOWN-FINDING /tmp/.reg_C$i.out) known" ) & done | sort | grep -v "exit=0" 
wait
echo "-- catalogues"
for i in $(seq -w 1 20); do echo C$i; done | xargs -P 5 -I{} sh -c '/venv/bin/python -B -m pcstatic.selftest {} 2>&1 | grep -E "MISSED|FALSE-ALARM|stale|Traceback|Error" | cut -c1-220'
echo "-- seeded"
/venv/bin/python tools/run_seeded.py 2>&1 | grep -v CAUGHT
rm -f /tmp/.reg_C*.out
echo "-- done"
