#!/venv/bin/python
"""Confirm and import behaviour-preserving refactorings produced by independent sub-agents.

    tools/import_benign.py /tmp/benign_out/A5 [...]     # each holds 1/..6/ with patch.diff, demo.py, notes.md

For every change: export /repo HEAD into a scratch directory, check that the demo (which asserts on values recorded
from the unchanged code) passes on the clean copy AND with the patch applied, that the package byte-compiles, and —
once per agent directory, with all its patches applied together, as the agents did — that the pinned test command
gives the baseline.  Confirmed changes are copied to /verif/benign/<Ax>-<k>/ with a meta.json."""
import json
import os
import re
import shutil
import subprocess
import sys
import tempfile

VERIF = os.path.dirname(os.path.dirname(os.path.abspath(__file__)))
PY = "/venv/bin/python"
SUITE = [PY, "-m", "pytest", "-ra", "-q", "-p", "no:cacheprovider", "--timeout=900", "--continue-on-collection-errors"]
BASE_FAILED = ["phyclone/tests/test_proposal_caching.py::FullyAdaptedTest::test_no_parent_tree_or_particle", "phyclone/tests/test_proposal_caching.py::SemiAdaptedTest::test_no_parent_tree_or_particle"]


def sh(cmd, cwd, env=None, timeout=3000):
    e = dict(os.environ)
    e.update(env or {})
    p = subprocess.run(cmd, cwd=cwd, env=e, capture_output=True, text=True, timeout=timeout)
    return p.returncode, p.stdout + p.stderr


def fresh():
    tmp = tempfile.mkdtemp(prefix="benignchk_")
    subprocess.check_call("git -C /repo archive HEAD | tar -x -C %s" % tmp, shell=True)
    return tmp


def apply(tmp, patch):
    rc, out = sh(["git", "apply", "--unsafe-paths", "--directory=" + tmp, patch], "/")
    if rc != 0:
        rc, out = sh(["patch", "-p1", "-s", "-i", patch], tmp)
    return rc == 0


def main(argv):
    head = subprocess.check_output(["git", "-C", "/repo", "rev-parse", "--short", "HEAD"], text=True).strip()
    for d in argv:
        agent = os.path.basename(d.rstrip("/"))
        ks = sorted(k for k in os.listdir(d) if k.isdigit() and os.path.exists(os.path.join(d, k, "patch.diff")) and os.path.exists(os.path.join(d, k, "demo.py")))
        good = []
        for k in ks:
            src = os.path.join(d, k)
            tmp = fresh()
            try:
                env = {"PYTHONPATH": tmp}
                rc0, _ = sh([PY, os.path.join(src, "demo.py")], tmp, env, timeout=900)
                ok_apply = apply(tmp, os.path.join(src, "patch.diff"))
                rcc, _ = sh([PY, "-m", "compileall", "-q", "phyclone"], tmp)
                rc1, out1 = sh([PY, os.path.join(src, "demo.py")], tmp, env, timeout=900) if ok_apply else (99, "")
                res = {"name": "%s-%s" % (agent, k), "demo_clean": rc0, "applies": ok_apply, "compiles": rcc == 0, "demo_patched": rc1}
                print(json.dumps(res), flush=True)
                if rc0 == 0 and ok_apply and rcc == 0 and rc1 == 0:
                    good.append(k)
            finally:
                shutil.rmtree(tmp, ignore_errors=True)
        # suite once with all confirmed patches of this agent together
        tmp = fresh()
        try:
            applied = [k for k in good if apply(tmp, os.path.join(d, k, "patch.diff"))]
            rcs, outs = sh(SUITE, tmp, {"PYTHONPATH": tmp})
            m = re.search(r"(\d+) failed, (\d+) passed(?:, \d+ \w+)*, (\d+) error", outs)
            failed = sorted(set(re.findall(r"^FAILED (\S+)", outs, re.M)))
            suite_ok = bool(m) and m.group(2) == "85" and failed == BASE_FAILED
            summary = outs.strip().splitlines()[-1][:200] if outs.strip() else ""
            print(json.dumps({"agent": agent, "applied_together": applied, "suite_ok": suite_ok, "suite": summary}), flush=True)
        finally:
            shutil.rmtree(tmp, ignore_errors=True)
        if not suite_ok:
            continue
        for k in applied:
            src = os.path.join(d, k)
            dst = os.path.join(VERIF, "benign", "%s-%s" % (agent, k))
            os.makedirs(dst, exist_ok=True)
            for f in ("patch.diff", "demo.py", "notes.md"):
                if os.path.exists(os.path.join(src, f)):
                    shutil.copy(os.path.join(src, f), os.path.join(dst, f))
            notes = open(os.path.join(src, "notes.md")).read() if os.path.exists(os.path.join(src, "notes.md")) else ""
            pm = re.search(r"C\d\d", notes)
            json.dump({
                "property": pm.group(0) if pm else None,
                "origin": "independent sub-agent given only two property texts and a scratch worktree; asked for behaviour-preserving refactorings",
                "confirmed": {"repo_head": head, "demo_on_clean_copy": "exit 0", "demo_with_patch": "exit 0", "package_compiles": True,
                              "test_suite_with_all_patches_of_this_agent": summary},
            }, open(os.path.join(dst, "meta.json"), "w"), indent=1)


if __name__ == "__main__":
    main(sys.argv[1:])
