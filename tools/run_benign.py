#!/venv/bin/python
"""Run every check against behaviour-preserving refactorings.

    tools/run_benign.py [DIR ...]        # default: every directory under /verif/benign with a patch.diff

Each patch is applied to a scratch copy of /repo/phyclone (parsed only) and all twenty checks are run on it.
Exit 1 from any check is a FALSE ALARM; exit 2 is an analysis error (the refactoring left the shapes the rules
understand: not an alarm, but recorded).  Exit status 0 iff no check alarms."""
import os
import shutil
import subprocess
import sys
import tempfile
from concurrent.futures import ThreadPoolExecutor

VERIF = os.path.dirname(os.path.dirname(os.path.abspath(__file__)))
ALL = ["C%02d" % i for i in range(1, 21)]


def run_one(d):
    tmp = tempfile.mkdtemp(prefix="benign_")
    try:
        shutil.copytree("/repo/phyclone", os.path.join(tmp, "phyclone"), ignore=shutil.ignore_patterns("__pycache__"))
        p = subprocess.run(["patch", "-p1", "-s", "--no-backup-if-mismatch", "-i", os.path.join(d, "patch.diff")], cwd=tmp, capture_output=True, text=True)
        if p.returncode != 0:
            return d, None, "patch does not apply"
        res = {}
        for c in ALL:
            env = dict(os.environ, PCSTATIC_EVIDENCE_DIR=os.path.join(tmp, "ev"))
            r = subprocess.run([sys.executable, "-B", "-m", "pcstatic.main", c, "--repo", tmp, "--quiet"], cwd=VERIF, env=env, capture_output=True, text=True)
            if r.returncode != 0:
                out = r.stdout + r.stderr
                lines = [l for l in out.splitlines() if "  rule=" in l or "ANALYSIS-ERROR" in l]
                res[c] = (r.returncode, lines[:3])
        return d, res, None
    finally:
        shutil.rmtree(tmp, ignore_errors=True)


def main(argv):
    dirs = [a for a in argv if not a.startswith("--")]
    if not dirs:
        root = os.path.join(VERIF, "benign")
        dirs = sorted(os.path.join(root, x) for x in os.listdir(root) if os.path.exists(os.path.join(root, x, "patch.diff")))
    rc = 0
    with ThreadPoolExecutor(max_workers=12) as ex:
        for d, res, err in ex.map(run_one, dirs):
            name = os.path.basename(d.rstrip("/"))
            if err:
                print("%-12s %s" % (name, err))
                continue
            alarms = {c: v for c, v in res.items() if v[0] == 1}
            aes = {c: v for c, v in res.items() if v[0] == 2}
            print("%-12s %s%s" % (name, "silent" if not alarms else "FALSE-ALARM " + ",".join(sorted(alarms)), ("  analysis-error: " + ",".join(sorted(aes))) if aes else ""))
            for c, (code, lines) in sorted(res.items()):
                for l in lines[:2]:
                    print("      %s: %s" % (c, l.strip()[:260]))
            if alarms:
                rc = 1
    return rc


if __name__ == "__main__":
    sys.exit(main(sys.argv[1:]))
