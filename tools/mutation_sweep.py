#!/venv/bin/python
"""Mutation sweep of the *checker*: which small edits of the product code does no rule notice?

    tools/mutation_sweep.py [--modules SUBSTR,SUBSTR] [--limit N] [--out FILE]

Generates first-order mutants of /repo/phyclone (operator swaps, comparison flips, numeric constants
+-1, dropped statements, swapped sibling attributes), writes each into a scratch copy of the package
(under $(mktemp -d), removed afterwards; the copy is only parsed, never imported or run), runs all twenty
rule modules in-process on it and records which rules fire.  Survivors are the places where the
framework is blind; they are triaged by hand (many are behaviour-neutral).  This is a development tool:
it is not referenced by MANIFEST.json.
"""
import ast
import copy
import importlib
import json
import multiprocessing as mp
import os
import shutil
import sys
import tempfile
import time

VERIF = os.path.dirname(os.path.dirname(os.path.abspath(__file__)))
sys.path.insert(0, VERIF)
ALL = ["C%02d" % i for i in range(1, 21)]

SWAP_BIN = {ast.Add: ast.Sub, ast.Sub: ast.Add, ast.Mult: ast.Div, ast.Div: ast.Mult}
SWAP_CMP = {ast.Lt: ast.LtE, ast.LtE: ast.Lt, ast.Gt: ast.GtE, ast.GtE: ast.Gt, ast.Eq: ast.NotEq, ast.NotEq: ast.Eq, ast.Is: ast.IsNot, ast.IsNot: ast.Is, ast.In: ast.NotIn, ast.NotIn: ast.In}
ATTR_SWAP = {"log_p": "log_p_one", "log_p_one": "log_p", "outlier_prob": "outlier_prob_not", "outlier_prob_not": "outlier_prob",
             "_node_indices": "_node_indices_rev", "_node_indices_rev": "_node_indices", "log_r": "log_p", "roots": "nodes", "nodes": "roots",
             "tree_roots": "tree_nodes", "tree_nodes": "tree_roots", "particles": "log_weights"}


def mutants_of(path, src):
    tree = ast.parse(src)
    nodes = list(ast.walk(tree))
    out = []
    for i, n in enumerate(nodes):
        ln = getattr(n, "lineno", 0)
        if isinstance(n, ast.BinOp) and type(n.op) in SWAP_BIN:
            out.append((i, "binop", type(n.op).__name__ + "->" + SWAP_BIN[type(n.op)].__name__, ln))
        elif isinstance(n, ast.Compare) and len(n.ops) == 1 and type(n.ops[0]) in SWAP_CMP:
            out.append((i, "cmp", type(n.ops[0]).__name__ + "->" + SWAP_CMP[type(n.ops[0])].__name__, ln))
        elif isinstance(n, ast.Constant) and isinstance(n.value, (int, float)) and not isinstance(n.value, bool):
            out.append((i, "const", "%r->%r" % (n.value, n.value + 1), ln))
        elif isinstance(n, ast.Expr) and isinstance(n.value, ast.Call):
            out.append((i, "dropcall", ast.unparse(n)[:50], ln))
        elif isinstance(n, ast.AugAssign):
            out.append((i, "dropaug", ast.unparse(n)[:50], ln))
        elif isinstance(n, ast.Attribute) and n.attr in ATTR_SWAP:
            out.append((i, "attr", n.attr + "->" + ATTR_SWAP[n.attr], ln))
        elif isinstance(n, ast.UnaryOp) and isinstance(n.op, (ast.USub, ast.Not)):
            out.append((i, "unary", "drop " + type(n.op).__name__, ln))
        elif isinstance(n, ast.If) and not n.orelse and len(n.body) == 1 and isinstance(n.body[0], (ast.Return, ast.Continue)):
            out.append((i, "dropguard", ast.unparse(n.test)[:50], ln))
    return out


def apply(src, idx, kind):
    tree = ast.parse(src)
    nodes = list(ast.walk(tree))
    n = nodes[idx]
    if kind == "binop":
        n.op = SWAP_BIN[type(n.op)]()
    elif kind == "cmp":
        n.ops = [SWAP_CMP[type(n.ops[0])]()]
    elif kind == "const":
        n.value = n.value + 1
    elif kind in ("dropcall", "dropaug", "dropguard"):
        for p in ast.walk(tree):
            for fld in ("body", "orelse", "finalbody"):
                b = getattr(p, fld, None)
                if isinstance(b, list) and n in b:
                    b[b.index(n)] = ast.Pass()
    elif kind == "attr":
        n.attr = ATTR_SWAP[n.attr]
    elif kind == "unary":
        for p in ast.walk(tree):
            for fld, val in ast.iter_fields(p):
                if val is n:
                    setattr(p, fld, n.operand)
                elif isinstance(val, list) and n in val:
                    val[val.index(n)] = n.operand
    ast.fix_missing_locations(tree)
    return ast.unparse(tree)


_W = {}


def _init():
    d = tempfile.mkdtemp(prefix="msweep_")
    shutil.copytree("/repo/phyclone", os.path.join(d, "phyclone"), ignore=shutil.ignore_patterns("__pycache__", "tests"))
    _W["dir"] = d
    os.environ["PCSTATIC_EVIDENCE_DIR"] = os.path.join(d, "ev")
    from pcstatic import model

    _W["mods"] = {pid: importlib.import_module("pcstatic.props." + pid) for pid in ALL}


def _enclosing(src, lineno):
    tree = ast.parse(src)
    best = ""
    for n in ast.walk(tree):
        if isinstance(n, (ast.FunctionDef, ast.ClassDef)) and n.lineno <= lineno <= (n.end_lineno or n.lineno):
            best = n.name if not best else best + "." + n.name if False else n.name
    # nearest enclosing function name with its class
    stack = []

    def visit(node, prefix):
        for c in ast.iter_child_nodes(node):
            if isinstance(c, (ast.FunctionDef, ast.ClassDef)):
                if c.lineno <= lineno <= (c.end_lineno or c.lineno):
                    stack.append(c.name)
                    visit(c, prefix)
            else:
                visit(c, prefix)

    visit(tree, "")
    return ".".join(stack)


def _work(job):
    rel, src, idx, kind, detail, ln = job
    from pcstatic.model import AnalysisError, Program
    from pcstatic.report import Ctx

    d = _W["dir"]
    path = os.path.join(d, rel)
    try:
        new = apply(src, idx, kind)
        compile(new, path, "exec")
    except Exception as e:
        return {"file": rel, "line": ln, "kind": kind, "detail": detail, "status": "invalid"}
    with open(path, "w") as fh:
        fh.write(new)
    fired, errors = {}, {}
    try:
        prog = Program(d)
        for pid in ALL:
            ctx = Ctx(pid, "quick", prog, quiet=True)
            try:
                _W["mods"][pid].run(ctx)
                if ctx.violations:
                    fired[pid] = sorted({v["rule"] for v in ctx.violations})
            except AnalysisError as e:
                if ctx.violations:
                    fired[pid] = sorted({v["rule"] for v in ctx.violations})
                else:
                    errors[pid] = str(e)[:120]
            except Exception as e:
                errors[pid] = "CRASH %s: %s" % (type(e).__name__, str(e)[:100])
    finally:
        with open(path, "w") as fh:
            fh.write(src)
    return {"file": rel, "line": ln, "func": _enclosing(src, ln), "kind": kind, "detail": detail, "status": "killed" if fired else ("error" if errors else "survived"), "fired": fired, "errors": errors}


def main(argv):
    mods = None
    limit = None
    out = os.path.join(VERIF, "notes", "mutation_sweep.jsonl")
    it = iter(argv)
    for a in it:
        if a == "--modules":
            mods = next(it).split(",")
        elif a == "--limit":
            limit = int(next(it))
        elif a == "--out":
            out = next(it)
    jobs = []
    for dp, dn, fn in os.walk("/repo/phyclone"):
        dn[:] = [x for x in dn if x not in ("tests", "__pycache__")]
        for f in sorted(fn):
            if not f.endswith(".py"):
                continue
            p = os.path.join(dp, f)
            rel = os.path.relpath(p, "/repo")
            if mods and not any(m in rel for m in mods):
                continue
            if rel.endswith("cli.py") or rel.endswith("dev.py") or "cluster_outlier_probabilities" in rel:
                continue
            src = open(p).read()
            for idx, kind, detail, ln in mutants_of(p, src):
                jobs.append((rel, src, idx, kind, detail, ln))
    if limit:
        import random

        random.Random(int(os.environ.get("VERIF_SEED", "0") or 0)).shuffle(jobs)
        jobs = jobs[:limit]
    t0 = time.time()
    res = []
    with mp.Pool(16, initializer=_init) as pool:
        for r in pool.imap_unordered(_work, jobs, chunksize=4):
            res.append(r)
            if len(res) % 100 == 0:
                print("%d/%d  %.0fs" % (len(res), len(jobs), time.time() - t0), file=sys.stderr)
    with open(out, "w") as fh:
        for r in sorted(res, key=lambda r: (r["file"], r["line"], r["kind"])):
            fh.write(json.dumps(r) + "\n")
    tot = {}
    for r in res:
        tot[r["status"]] = tot.get(r["status"], 0) + 1
    print("mutants: %d  %s  (%.0f s)  -> %s" % (len(res), tot, time.time() - t0, out))
    # per function summary of survivors
    surv = {}
    for r in res:
        if r["status"] == "survived":
            surv.setdefault((r["file"], r.get("func", "")), []).append("%s@%d %s" % (r["kind"], r["line"], r["detail"]))
    for (f, fn), ms in sorted(surv.items()):
        print("%-46s %-40s %d survived" % (f, fn, len(ms)))


if __name__ == "__main__":
    main(sys.argv[1:])
