#!/venv/bin/python
"""Write pcstatic/reference_names.json: the short names of every function / method / class of the tree the rules
were written against.  The interpreters use it for one thing only: a repository function or class whose name is NOT
in the list was introduced after the rules were written (an extracted helper, a small carrier class), so no
specification can mention it, and it is inlined / instantiated instead of being kept as an uninterpreted call.
Regenerate after the reference tree changes:  tools/gen_reference_names.py [repo]
"""
import ast
import json
import os
import sys

sys.path.insert(0, os.path.dirname(os.path.dirname(os.path.abspath(__file__))))
from pcstatic.model import Program  # noqa: E402

prog = Program(sys.argv[1] if len(sys.argv) > 1 else "/repo")
out = {
    "functions": sorted({fi.name for fi in prog.functions.values()}),
    "classes": sorted({ci.name for ci in prog.classes.values()}),
    "params": {name: sorted({p for fi in prog.functions.values() if fi.name == name for p in fi.params}) for name in sorted({fi.name for fi in prog.functions.values()})},
    "globals": sorted({t.id for m in prog.modules.values() for st in m.tree.body if isinstance(st, (ast.Assign, ast.AnnAssign))
                       for t in (st.targets if isinstance(st, ast.Assign) else [st.target]) if isinstance(t, ast.Name)}),
}
path = os.path.join(os.path.dirname(os.path.dirname(os.path.abspath(__file__))), "pcstatic", "reference_names.json")
json.dump(out, open(path, "w"), indent=0)
print(len(out["functions"]), "function names,", len(out["classes"]), "class names ->", path)
