#!/venv/bin/python
"""Developer aid: apply one catalogue variant to a scratch copy and print the full output of the check.
    tools/one_variant.py C15 benign-from_dict-locals-renamed-and-get-default [other property to run]
"""
import os, shutil, subprocess, sys, tempfile
sys.path.insert(0, os.path.dirname(os.path.dirname(os.path.abspath(__file__))))
from pcstatic import model, selftest

pid, name = sys.argv[1], sys.argv[2]
run_as = sys.argv[3] if len(sys.argv) > 3 else pid
v = [x for x in selftest.variants_for(pid) if x["name"] == name][0]
d = tempfile.mkdtemp(prefix="pcst_")
try:
    shutil.copytree(os.path.join(model.REPO, "phyclone"), os.path.join(d, "phyclone"), ignore=shutil.ignore_patterns("__pycache__", "tests"))
    for e in v.get("edits") or [v]:
        p = os.path.join(d, e["file"])
        s = open(p).read()
        assert s.count(e["old"]) == 1, e["file"]
        open(p, "w").write(s.replace(e["old"], e["new"]))
    env = dict(os.environ, PCSTATIC_EVIDENCE_DIR=os.path.join(d, "ev"))
    r = subprocess.run([sys.executable, "-B", "-m", "pcstatic.main", run_as, "--repo", d, "--tier", "quick"], cwd=selftest.VERIF, env=env, capture_output=True, text=True)
    print("\n".join(l for l in (r.stdout + r.stderr).splitlines() if "rule=" in l or "ANALYSIS" in l or "VIOLATION" in l))
    print("exit", r.returncode)
finally:
    shutil.rmtree(d, ignore_errors=True)
