#!/venv/bin/python
"""Regenerate /verif/MANIFEST.json from the table below (keeps it valid while checks are added)."""
import json
import os
import sys

VERIF = os.path.dirname(os.path.dirname(os.path.abspath(__file__)))

# property -> (claimed text, note (what is NOT decided / trusted base), technique, design_ref)
CLAIMS = {
    "C01": (
        "Decides the structural premises of particle-Gibbs invariance on every path of the code: the run command and the library "
        "plumb the permutation density into the kernel, one target object per chain, the four-arm incremental weight and the last-step "
        "correction equal their specification (TermFlow: symbolic terms compared by normal form / random interpretation), every computed "
        "weight reaches add_particle, slot 0 holds the retained particle with agreeing [1:] slices, the retained path is weighted like a "
        "free particle, the order is drawn from the current tree, the final draw uses the normalised weights. Each is a necessary "
        "condition: breaking it changes the stationary law.",
        "Not decided: sufficiency (the PG theorem), numerical exactness, numpy's generator. Trusted: CPython ast, numpy/scipy semantics.",
        "formula extraction (reaching definitions + inlining) compared with a specification by random interpretation; wiring/def-use rules over the AST",
        "§4 C01",
    ),
}

NOT_BUILT_REASON = "check not built yet in this round (planned: see DESIGN.md §4)"

ALL = ["C%02d" % i for i in range(1, 21)]


def main():
    checks = []
    na = []
    for pid in ALL:
        if pid in CLAIMS and os.path.exists(os.path.join(VERIF, "pcstatic", "props", pid + ".py")):
            text, note, tech, ref = CLAIMS[pid]
            checks.append(
                {
                    "property_id": pid,
                    "quick_cmd": "./check %s --tier quick" % pid,
                    "thorough_cmd": "./check %s --tier thorough" % pid,
                    "evidence_file": "/verif/evidence/%s.json" % pid,
                    "replay_cmd_template": "cat {path}",
                    "engine": "pcstatic",
                    "level_claimed": {"category": "other", "text": text, "design_ref": ref},
                    "level_note": note,
                    "technique": "static analysis: " + tech,
                }
            )
        else:
            na.append({"property_id": pid, "reason": NA.get(pid, NOT_BUILT_REASON)})
    m = {
        "version": 1,
        "setup_cmd": "/venv/bin/python -B -c \"import sys; sys.path.insert(0, '/verif'); import pcstatic.main, pcstatic.termflow, pcstatic.paths\"",
        "hooks": {
            "guard": "ROTH_LAB_PHYCLONE_VERIF",
            "enable": "no hooks: the checks are static analyses that read /repo's working tree; nothing is built or instrumented",
            "baseline_off_cmd": "cd /repo && /venv/bin/python -m pytest -ra -q -p no:cacheprovider --timeout=900 --continue-on-collection-errors",
            "source_commits": [],
            "add_only": True,
        },
        "engines": [
            {
                "name": "pcstatic",
                "path": "/verif/pcstatic",
                "serves_properties": [c["property_id"] for c in checks],
                "kind_free_text": "repo-specific static analysis over the stdlib ast: program model and call resolution, structured path walker, "
                "TermFlow (formula extraction by reaching definitions with inlining, compared by normal form and random interpretation), "
                "effect summaries, provenance/taint, table agreement; run with /venv/bin/python, nothing installed, no repository code executed",
            }
        ],
        "checks": checks,
        "not_applicable": na,
        "notes": "Exit 0 = all rule instances discharged (KNOWN-FINDING lines for listed findings); exit 1 + VIOLATION line = a rule instance "
        "fails; exit 2 + ANALYSIS-ERROR = the analysis itself cannot decide (anchor vanished, instance count below the confirmed minimum, "
        "unrecognised shape) - never a silent pass. Genuine defects repaired in /repo as 'fix:' commits are listed in known_findings.json.",
    }
    with open(os.path.join(VERIF, "MANIFEST.json"), "w") as fh:
        json.dump(m, fh, indent=1)
    print("MANIFEST.json: %d checks, %d not_applicable" % (len(checks), len(na)))


NA = {}

if __name__ == "__main__":
    main()
