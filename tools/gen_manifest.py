#!/venv/bin/python
"""Regenerate /verif/MANIFEST.json from the table below (keeps it valid while checks are added)."""
import json
import os
import sys

VERIF = os.path.dirname(os.path.dirname(os.path.abspath(__file__)))

# property -> (claimed text, note (what is NOT decided / trusted base), technique, design_ref)
CLAIMS = {
    "C01": (
        "Decides the structural premises of particle-Gibbs invariance on every path of the code: the run command and the library "
        "plumb the permutation density into the kernel, one target object per chain, the four-arm incremental weight and the last-step "
        "correction equal their specification (TermFlow: symbolic terms compared by normal form / random interpretation), every computed "
        "weight reaches add_particle, slot 0 holds the retained particle with agreeing [1:] slices, the retained path is weighted like a "
        "free particle, the order is drawn from the current tree, the final draw uses the normalised weights. Each is a necessary "
        "condition: breaking it changes the stationary law.",
        "Not decided: sufficiency (the PG theorem), numerical exactness, numpy's generator. Trusted: CPython ast, numpy/scipy semantics.",
        "formula extraction (reaching definitions + inlining) compared with a specification by random interpretation; wiring/def-use rules over the AST",
        "§4 C01",
    ),
    "C06": (
        "Decides mutate -> refresh pairing on every abstract path of every function that edits a tree (with the obligation of the private "
        "building helpers lifted to all their call sites), that each refresh starts low enough for what the payload method itself adjusts, that "
        "add/remove are inverse adjustments of log_p with the membership index, and that copies are deep (payload copied for every node; "
        "grafted subtree copied before composing).",
        "Not decided: numerical equality and rounding drift; rustworkx semantics (trusted).",
        "effect summaries closed over the call graph + must-follow over enumerated paths; aliasing rule; formula extraction",
        "§4 C06",
    ),
    "C07": (
        "Decides co-update of the four views of a tree (graph payload, name->index, index->name, per-clone data lists) on every path, total and "
        "consistent relabelling, fresh labels for clashing grafted nodes, linear use of data points in every sampler move (a point removed is "
        "added back exactly once; outliers carried across subtree extraction and re-attachment), and that samplers return trees over all points.",
        "Not decided: forest-ness as a graph-theoretic fact for arbitrary edit sequences (rustworkx compose/subgraph trusted).",
        "co-update / typestate rules over enumerated paths and TermFlow events; specification comparison",
        "§4 C07",
    ),
    "C08": (
        "Probability accounting between the two halves of each proposal: from sample() a table state x outcome -> probability is extracted "
        "(threshold chain on the uniform draw, uniform factors of the sub-draws) and compared cell by cell with what log_p() returns on the "
        "paths handling the same outcome (bootstrap, semi-adapted), so a consistent change of mixture weights is silent and a one-sided one is "
        "reported; the threshold chain partitions [0,1); the random arms range over all roots / all subset sizes without replacement; the "
        "adapted tables are normalised over exactly the enumerated support with one order for dict, vector and list (semi, fully adapted); "
        "candidates are built on copies on every path; weight formula and last-step correction as in C01.",
        "Not decided: numeric normalisation; the empirical law of numpy's generator (random, integers, choice, multinomial are trusted).",
        "path-wise formula extraction from sample() and log_p() and cell-by-cell comparison by random interpretation; reaching-definition (freshness) rule",
        "§4 C08",
    ),
    "C02": (
        "Decides the shape of the likelihood recursion (node combine, running log-sum, fold over every child once, agreement of the two "
        "convolution back ends clause by clause incl. floor-before-log and both maxima added back, bottom-up refresh order, uniform grid prior).",
        "Not decided: numerical equality with the brute-force sum, accuracy near the floors (runtime quantities). Trusted: numpy/scipy convolution semantics.",
        "formula extraction + sibling agreement of two implementations; AST ordering rules",
        "§4 C02",
    ),
    "C03": (
        "Decides every additive term of both joint log-densities and of the FS-CRP prior against a specification written from the statement "
        "(CRP, marginal and fixed-root topology terms, root-count penalty with c=log 1000, multiplicity over all graph nodes, outlier prior, "
        "data term, outlier marginals), fused = separate, __eq__/__hash__ built from the same (clades, outliers) key, the clade visitor, "
        "holder/particle identity, and purity (no writes / randomness) of the ten density functions and the tree queries they use.",
        "Not decided: that the specification is 'the' FS-CRP; floating-point equality; rustworkx DFS semantics (trusted).",
        "formula extraction compared with a specification by normal form / random interpretation; effect (purity) summaries",
        "§4 C03",
    ),
    "C04": (
        "Decides, for the data-point and prune-regraft Gibbs moves, that the selection weights are exactly log_p_one of each candidate "
        "(nothing added, same density object), that the candidate family is the specified closed family built on copies, that the "
        "'would empty a clone' guard protects clones only, that the returned tree is the candidate at the drawn index; for the subtree "
        "move the order of the weight correction around the tree replacement and the re-attachment under the recorded parent; and that a "
        "move which edits its argument has its result rebound in the run loop.",
        "Not decided: whether the subtree move needs a term for the random subtree choice (authors' TODO - not claimed); irreducibility; numerics.",
        "formula / effect extraction with object-update tracking compared with a specification; call-site rule over resolved samplers",
        "§4 C04",
    ),
    "C05": (
        "Decides the mixture formula of both emission densities (population weights, expected VAF, per-genotype pmf, log-sum), the pmf "
        "primitives and shared numeric helpers of utils/math.py against specifications over lgamma/log/exp, the genotype table, grid and "
        "cluster aggregation, outlier prior terms, and the column-to-field mapping of the loader.",
        "Not decided: that the pmf sums to one numerically; numba typing / fastmath; lgamma accuracy.",
        "formula extraction compared with a specification by random interpretation; sibling agreement; table agreement",
        "§4 C05",
    ),
    "C09": (
        "Decides that the order sampler's random primitives and the counting terms of log_count are those of the statement arm by arm "
        "(every shuffle has its factorial, every interleaving its multinomial/binomial, sizes from the same collections), descendants "
        "first, outliers interleaved once at top level, bridge shuffle pops from the front of the list its sentinel names, log_pdf = -log_count.",
        "Not decided: uniformity as a probabilistic fact (follows given a uniform Generator.shuffle, trusted).",
        "formula and call-sequence extraction compared with a specification",
        "§4 C09",
    ),
    "C10": (
        "Decides the structural premises of the max-product dynamic programme: index arithmetic of the max-convolution (i over the grid, j in 0..i, "
        "child[j] + prev[i-j]), value and back-pointer written under the same 'candidate beats current' guard from -inf, the running maximum with "
        "matching pointer arms, node combine, traceback agreeing with the forward pass (root index grid-1, reversed child order over the same "
        "successor list, child index read before the decrement), and the output formulas idx/(grid-1) and ccf - sum of children.",
        "Not decided: optimality itself and the 1e-12 bound (runtime quantities).",
        "formula / store-event extraction over loop nests with one generic element per loop; specification comparison",
        "§4 C10",
    ),
    "C11": (
        "Decides the arg-max scan over all chains and entries (no slice, no early exit, direction of the comparison, co-updated pointers, the "
        "restored tree is the pointed one), topology counting with co-updated maxima, ranking before ids are assigned, the archive filter and "
        "its sentinel, and that every trace / result key read by the summaries is written by the run.",
        "Not decided: pandas sort semantics; tie-breaking (both > and >= accepted).",
        "formula / event extraction compared with a specification; key-set agreement computed from writer and readers",
        "§4 C11",
    ),
    "C12": (
        "Decides that the graph conversion keeps every node, the labels table is total in both arms (labelled records then outlier fill-in of "
        "exactly the unseen ones), sample expansion, value fill from the CCF dictionaries (-1 otherwise), the Newick writer, and that table and "
        "Newick string describe the same tree object in all three commands and the archive.",
        "Not decided: pandas groupby/explode semantics; CCF range (C10).",
        "path rules (must-precede), formula / event extraction compared with a specification",
        "§4 C12",
    ),
    "C13": (
        "Decides the parameters handed to the Beta, Bernoulli and Gamma draws of the Escobar-West update (and their seeded generator), the "
        "extraction of K and n from the tree with outliers excluded, storage of the result into the chain's shared prior, and that alpha has "
        "a single writer which refreshes log(alpha).",
        "Not decided: scipy's samplers; the Escobar-West mathematics.",
        "extraction of call arguments (TermFlow) compared with a specification; single-writer rule over the whole program",
        "§4 C13",
    ),
    "C14": (
        "Decides that every memoised function is keyed on all of its parameters and reads no module-level mutable state, that the three proposal "
        "caches carry the concentration in their key at every call site (alpha argument or a tree_dist whose eq/hash compare alpha), that the "
        "content hashers digest every array with multiplicity and hand the hashed arrays to the body, that bodies under an order-insensitive key "
        "are symmetric (pairwise convolution under exchange, fold under every permutation of three children), that neither the bodies write "
        "into their inputs nor callers into cached results, and that the tree attached for a cached proposal body is the key particle's own.",
        "Not decided: 64-bit digest collisions (probabilistic); float non-associativity under child reordering. Assumes one grid shape per process.",
        "key-coverage and write-through (aliasing) rules over the AST; symmetry by formula extraction under argument permutation",
        "§4 C14",
    ),
    "C15": (
        "Decides to_dict/from_dict key agreement and slot-by-slot restoration, slot exhaustiveness of every constructor path of Tree, "
        "TreeNode, TreeHolder and Particle, the rebuild (payload per clone, holes removed, copies, final update()), self-consistency of a "
        "trace entry (alpha, log_p_one and tree from the same objects), and what the run loop records and when (thin guard, after all "
        "moves, relabelling and concentration update; one entry before the loop).",
        "Not decided: floating-point equality after restore; rustworkx index reuse.",
        "table agreement, path enumeration over constructors, ordering rules, formula extraction",
        "§4 C15",
    ),
    "C16": (
        "Thin, structural claim: support is a normalised share (count / number of trees; exp-normalised score-weighted share over distinct "
        "topologies), threshold direction and plumbing from the command line, nesting by smallest strict superset with the query discarded, "
        "own-mutation subtraction, uncovered data become outliers and parentless nodes hang off the virtual root, and injective node identity "
        "of the relabelled graph (fires on the pinned tree: recorded known finding F9).",
        "Not decided: that the retained clades are exactly the majority ones; that nesting never raises; validity of the resulting tree.",
        "formula / event extraction compared with a specification; injectivity rule on the node key",
        "§4 C16",
    ),
    "C17": (
        "Decides the two row filters and their order, a row-order taint analysis from the read frames to the five order-sensitive sinks "
        "(samples, mutation order, per-sample vector, cluster order), the defaults and their guards, that MajorCopyNumberError is raised "
        "under major < minor and swallowed nowhere up to the command, and the numbering of data points.",
        "Not decided: pandas semantics (idiom table is an assumption); the excluded degenerate mixes; the optional loss-probability assignment.",
        "def-use / taint analysis over pandas idioms with a frozen idiom table; exception-path rule over the call chain",
        "§4 C17",
    ),
    "C18": (
        "Decides that every random draw in product code descends, through an explicit interprocedural def-use walk, from the seeded "
        "generator or a spawned child; that no other entropy source exists (with an embedded positive fixture); chain isolation in run.run; "
        "that no hash-seed-ordered iteration over str/object sets reaches the sampler; that completion order and the clock reach only keyed "
        "storage, prints, the time field and the documented max_time break.",
        "Not decided: bitwise determinism of numpy/scipy/numba across machines. Element-kind role table (node ids are ints) is an assumption.",
        "provenance / taint analysis over the whole program (interprocedural def-use, set-type inference)",
        "§4 C18",
    ),
    "C19": (
        "Thin claim of four crash classes visible in the code: single-argument draws from populations a reachable tree makes empty are dominated "
        "by a non-emptiness test (or reached only under a checked caller guard), CLI ranges exclude the failure values of the partial operations "
        "that consume them and every option is a parameter of run.run, every call of the resampling step is guarded by 'a further data point "
        "exists' with bounded subscripts of the retained path, and every exit returns / writes the trace with worker exceptions re-raised.",
        "Not decided: absence of every other exception; finiteness of log_p_one (totality is not statically decidable).",
        "dominating-guard analysis over enumerated paths; table agreement between click declarations and consumers",
        "§4 C19",
    ),
    "C20": (
        "Decides that exactly one function writes the trace, as one pickle frame of the whole mapping inside one truncating gzip stream, "
        "after which nothing is added; that each reader performs exactly one pickle.load inside the gzip stream before any use and that no "
        "handler up to the CLI wrapper swallows a load failure; detectors are kept honest by embedded positive fixtures.",
        "Trusted: pickle.load raises on a truncated stream and gzip raises on a truncated member (library behaviour, not decided).",
        "who-may-call / single-writer and handler-path rules over the resolved program, with positive fixtures",
        "§4 C20",
    ),
}

NOT_BUILT_REASON = "check not built yet in this round (planned: see DESIGN.md §4)"

ALL = ["C%02d" % i for i in range(1, 21)]

# shared premises: rules of sibling properties that run inside this check (DESIGN §0.3) and rules added after the plan
EXTRA = {
    "C18": "Also: a generator that walks as_completed(...) relays the completion order to its consumers, which are judged like consumers of as_completed.",
    "C14": "Also: hand-rolled memo tables (K7), a newly memoised function with object arguments must key on what its body reads (K1(e)); the retained path's attached tree is decided on the calls the pass makes, however it is written.",
    "C01": "Shared premises run inside this check: proposal accounting (C08.B/S/F), cache keys and memoisation (C14.K1-K4), the specified density (C03.T1-T3), the permutation distribution (C09.P1-P4), reference semantics of the tree editor (TS), deep copies and refresh pairing (C06.M1/M2/M4).",
    "C02": "Also: reference semantics of Tree.update and the payload methods (TS); content-hash keys of the memoised recursion (C14.K2-K4); the floor covers non-positive entries and is tiny.",
    "C03": "Also: reference semantics of the tree queries the densities read (TS).",
    "C04": "Also: subtree move known finding F11 (P3). Shared premises: refresh pairing (C06.M1/M2), deep copies (C06.M4), the specified density (C03.T1-T3), reference semantics of the tree editor (TS), linear use of data points (C07.L1).",
    "C05": "Also: the per-genotype array has exactly one slot per genotype. Also: no hand-rolled memo table keyed on fewer inputs than the function has (C14.K7); the genotype tables are compared modulo raising paths.",
    "C06": "Also: reference semantics of every editor method (TS), relabelling keeps data with its node (C07.V2), memoisation premises (C14.K2-K4).",
    "C07": "Also: reference semantics of the editor (TS), whole-tree reset guarded by tree equality (R0), label discipline (N0); shared premises: deep copies (C06.M4), proposal arms extend a copy of the parent by exactly the new point (C08.A1/A2/X1).",
    "C08": "Also: the adapted outcome is accounted for both placements it covers (existing clone, outlier set); an arm starts from an empty tree only without a parent (A2); reference semantics of the tree editor (TS).",
    "C10": "Also: the traceback's early return is for childless nodes only; the per-sample budget decrement; shared premise: the networkx copy holds every node (C12.N1).",
    "C11": "Also: the report that is written is the ranked frame, the archive is cut from the same frame and dictionary (A6); shared premises: Tree.__eq__/__hash__ (C03.I1/I2) and the clade helpers (TS).",
    "C12": "Also: every (clone, sample) group is returned whether or not the clone has a CCF; shared premises: the MAP traceback and output formulas (C10.X1-X5).",
    "C13": "The returned value is compared modulo tiny positive floors (their presence is C19.T5's business). Also: the chain's shared objects are handed on by reference, never through a copying unpack (U4); the update call site is read with local aliases spelt out.",
    "C15": "Also: reserved entries of the dictionary form; shared premises: assigning alpha refreshes what is derived from it (C13.U3), log_p_one is the specified density (C03.T1-T3). Also: the pickling protocol (__reduce__ / __getstate__) carries every attribute __init__ sets (D4).",
    "C16": "Also: reference semantics of the clade helpers and the consensus helpers relabel / roots / clean_tree / from_dict_nx / get_tree_from_consensus_graph (TS). Known finding F9 (S6).",
    "C17": "Also: a documented filter or default that runs only under a size test (row / sample / mutation counts) is reported. Also: `if M.any(): df = df[~M]` is read as the unconditional filter and its predicate classified; hand-rolled memo tables in the load path (C14.K7).",
    "C19": "Also: the concentration is floored on every arm (T5; defect F12 repaired). Shared premises: linear use (C07.L1), floor before log (C02.N4), the specified density (C03.T1-T3), deep copies of recorded forms (C06.M4), reference semantics of the editor (TS), proposal threshold chains (C08.B/S/F).",
    "C20": "Also: a reader that takes end-of-stream as end-of-data is reported (P0). Also: repository decorators on the commands and the exit status of handlers (a handler that exits with status 0 swallows); a writer helper called once from create_main_run_output is followed.",
}


def main():
    checks = []
    na = []
    for pid in ALL:
        if pid in CLAIMS and os.path.exists(os.path.join(VERIF, "pcstatic", "props", pid + ".py")):
            text, note, tech, ref = CLAIMS[pid]
            if pid in EXTRA:
                text = text + " " + EXTRA[pid]
            checks.append(
                {
                    "property_id": pid,
                    "quick_cmd": "./check %s --tier quick" % pid,
                    "thorough_cmd": "./check %s --tier thorough" % pid,
                    "evidence_file": "/verif/evidence/%s.json" % pid,
                    "replay_cmd_template": "cat {path}",
                    "engine": "pcstatic",
                    "level_claimed": {"category": "other", "text": text, "design_ref": ref},
                    "level_note": note,
                    "technique": "static analysis: " + tech,
                }
            )
        else:
            na.append({"property_id": pid, "reason": NA.get(pid, NOT_BUILT_REASON)})
    m = {
        "version": 1,
        "setup_cmd": "/venv/bin/python -B -c \"import sys; sys.path.insert(0, '/verif'); import pcstatic.main, pcstatic.termflow, pcstatic.paths\"",
        "hooks": {
            "guard": "ROTH_LAB_PHYCLONE_VERIF",
            "enable": "no hooks: the checks are static analyses that read /repo's working tree; nothing is built or instrumented",
            "baseline_off_cmd": "cd /repo && /venv/bin/python -m pytest -ra -q -p no:cacheprovider --timeout=900 --continue-on-collection-errors",
            "source_commits": [],
            "add_only": True,
        },
        "engines": [
            {
                "name": "pcstatic",
                "path": "/verif/pcstatic",
                "serves_properties": [c["property_id"] for c in checks],
                "kind_free_text": "repo-specific static analysis over the stdlib ast: program model and call resolution, structured path walker, "
                "TermFlow (formula extraction by reaching definitions with inlining, compared by normal form and random interpretation), "
                "effect summaries, provenance/taint, table agreement; run with /venv/bin/python, nothing installed, no repository code executed",
            }
        ],
        "checks": checks,
        "not_applicable": na,
        "notes": "Exit 0 = all rule instances discharged (KNOWN-FINDING lines for listed findings); exit 1 + VIOLATION line = a rule instance "
        "fails; exit 2 + ANALYSIS-ERROR = the analysis itself cannot decide (anchor vanished, instance count below the confirmed minimum, "
        "unrecognised shape) - never a silent pass. Genuine defects repaired in /repo as 'fix:' commits are listed in known_findings.json.",
    }
    with open(os.path.join(VERIF, "MANIFEST.json"), "w") as fh:
        json.dump(m, fh, indent=1)
    print("MANIFEST.json: %d checks, %d not_applicable" % (len(checks), len(na)))


NA = {}

if __name__ == "__main__":
    main()
