#!/venv/bin/python
"""Write seeded/README.md: one row per seeded change — what it does, which rule(s) of which check report it,
and what happened the first time the check met it (taken from FIRST below, recorded by hand when the change
was imported).  Runs tools/run_seeded.py's machinery (scratch copies, parse only)."""
import json
import os
import subprocess
import sys

VERIF = os.path.dirname(os.path.dirname(os.path.abspath(__file__)))

WHAT = {
    "C01-1": "conditional.py `_init_swarm`: first-generation particles added with `particle.log_w` instead of `_get_log_w(particle)` (last-step target correction lost when there is one data point)",
    "C01-2": "bootstrap.py `log_p`: the `len(parent_tree.nodes) == 0` arm of the new-node branch removed (density of the only possible clone move halved)",
    "C01-3": "semi_adapted.py `get_cached_new_tree`: `tree_dist` dropped from the lru_cache key (stale holder densities after an alpha update)",
    "C02-1": "utils.py `NumpyArrayListHasher._create_hashable`: sorted digests -> `np.unique` (multiset of children becomes a set in the `compute_log_S` key)",
    "C02-2": "math.py `fft_convolve_two_children`: `np.max(child_1, axis=-1, keepdims=True)` lost `axis=-1` (rescaling by a global maximum underflows other samples)",
    "C02-3": "tree.py `Tree.update`: DFS post-order replaced by a loop over ascending graph indices (parents refreshed before children after a regraft)",
    "C03-1": "distributions.py `compute_both_log_p_and_log_p_one`: childless-root guard turned into an early return that also skips the outlier terms",
    "C03-2": "distributions.py `FSCRPDistribution`: `log_alpha` computed once in the constructor; the setter stores `_alpha` only",
    "C03-3": "data/base.py `DataPoint.__init__`: `log_sum_exp(..., axis=1)` lost its axis (outlier marginal over the whole array)",
    "C04-1": "tree.py `remove_data_point_from_node`: refresh starts at the node's parent (the node's own log_r left stale)",
    "C04-2": "gibbs_mh.py `_get_subtree_and_pruned_tree`: the only root clone is excluded from the prune candidates (forward move without a reverse)",
    "C04-3": "gibbs_mh.py `DataPointSampler._sample_tree`: outlier candidate only built when the point is not already an outlier (current value unreachable)",
    "C05-1": "pyclone.py `get_major_cn_prior`: the late-mutation genotype gets VAF x/total_cn instead of 1/total_cn",
    "C05-2": "pyclone.py `to_likelihood_grid`: memoised per-sample rows under a key that forgets tumour content and error rate",
    "C05-3": "pyclone.py `compute_outlier_prob`: `log1p(-p) * n` -> `log1p(-p * n)`",
    "C06-1": "tree.py `remove_data_point_from_node`: `_update_path_to_root(get_parent(node))` instead of `(node)`",
    "C06-2": "visitors.py `PreOrderNodeRelabeller.discover_vertex`: data list read under the new label after the id was overwritten",
    "C06-3": "tree.py `remove_subtree`: path refresh moved before `remove_nodes_from` (recomputed while the subtree is still attached)",
    "C07-1": "tree.py `remove_subtree`: whole-tree test `subtree == self` -> equal node counts (outliers of the host wiped by the reset)",
    "C07-2": "tree.py `from_dict`: `new._data.update(tree_dict['node_data'])` without copies (data lists shared with the stored dict)",
    "C07-3": "unconditional.py `sample_tree`: order from a plain shuffle of the clone data instead of `RootPermutationDistribution.sample` (outliers dropped)",
    "C08-1": "bootstrap.py `log_p`: `len(parent_tree.nodes) == 0` -> `len(parent_tree.data) == 0` (never true: new-clone density halved on an all-outlier parent)",
    "C08-2": "semi_adapted.py `get_cached_new_tree`: `tree_dist` dropped from the cache key",
    "C08-3": "conditional.py `_init_swarm`: `particle.log_w` instead of `_get_log_w(particle)`",
    "C09-1": "smc/utils.py `log_count` root: `num_data_points = sum(subtree_sizes)` (outliers not counted in the interleaving)",
    "C09-2": "smc/utils.py `log_count`: child block size `get_data_len(child)` instead of `get_subtree_data_len(child)`",
    "C09-3": "smc/utils.py `sample` root: outliers interleaved without being shuffled",
    "C10-1": "map.py `compute_max_likelihood`: `sorted(graph.successors(...))` (back-pointers indexed by a different sibling order than the traceback)",
    "C10-2": "map.py `_set_max_assignment`: `log_S_choice[d, idxs[0]]` instead of `idxs[d]`",
    "C10-3": "map.py `get_map_ccfs`: CCFs rounded to two decimals (no longer grid points; sum constraint broken)",
    "C11-1": "process_trace.py `write_map_results`: `enumerate(results.values())` — chain position used as chain key",
    "C11-2": "process_trace.py `create_topology_dict_from_trace`: tree rebuild skipped when `log_p_one` equals the previous entry's",
    "C11-3": "process_trace.py `create_topologies_archive`: `continue` -> `break` in a loop that is not in rank order",
    "C12-1": "map.py `_set_max_assignment`: budget decrement de-indented out of the per-sample loop",
    "C12-2": "process_trace.py `create_topologies_archive`: `.nwk` written from the frame's column instead of `tree.to_newick_string()`",
    "C12-3": "process_trace.py `get_labels_table`: missing mutations filtered by cluster id instead of mutation id",
    "C13-1": "concentration.py `sample`: mixture weight `x / (1 + x)` -> `1 / (1 + x)`",
    "C13-2": "run.py `update_concentration_value`: `num_data_points = len(tree.data)` (outliers counted)",
    "C13-3": "distributions.py `FSCRPDistribution.alpha` setter no longer refreshes `log_alpha`",
    "C14-1": "utils.py `NumpyArrayListHasher._create_hashable`: sorted tuple -> frozenset of digests",
    "C14-2": "tree/utils.py `_sub_compute_S`: running log-sum-exp accumulated into the cached `log_D` in place for grids >= 1000",
    "C14-3": "distributions.py: `TreeJointDistribution.__eq__` / `__hash__` removed (cache keyed by identity; stale after alpha update / never shared)",
    "C15-1": "tree.py `to_dict`: `dict(self._data)` without list copies",
    "C15-2": "tree.py `from_dict`: data copy folded into the clone-payload loop (outlier list and empty nodes not restored)",
    "C15-3": "run.py `_run_main_sampler`: `(i + 1) % thin == 0`",
    "C16-1": "process_trace.py `write_consensus_results`: weighted mode drops `+ log(count)`",
    "C16-2": "consensus.py `consensus`: `else: result.add_node(clade)` removed (isolated retained clade lost)",
    "C16-3": "process_trace.py `write_consensus_results`: `trees.extend(...)` -> `trees = ...` inside the chain loop",
    "C17-1": "pyclone.py `_create_loaded_pyclone_data_dict`: per-sample lookups replaced by `itertuples()` in file order",
    "C17-2": "pyclone.py `_create_raw_data_df`: `df.drop_duplicates()` added (filters rows the documentation does not mention)",
    "C17-3": "pyclone.py `_create_clustered_data_arr`: `sorted(keys, key=str)`",
    "C18-1": "concentration.py `sample`: `random_state=self._rng` dropped from one `gamma.rvs`",
    "C18-2": "pyclone.py `_create_clustered_data_arr`: iteration over `set(clusters.values())`",
    "C18-3": "run.py `run`: results keyed by completion position (`enumerate(as_completed(...))`)",
    "C19-1": "particle_gibbs.py `_correct_weights`: outliers put back from the (empty) remainder tree",
    "C19-2": "gibbs_mh.py `PruneRegraphSampler.sample_tree`: guard `<= 1` -> `== 1` (all-outlier tree falls through)",
    "C19-3": "math.py `fft_convolve_two_children`: floor `result <= 0` -> `result == 0` (negative FFT round-off reaches log)",
    "C20-1": "process_trace.py: one pickle per chain in one stream; reader loops until EOFError (truncation = fewer chains, accepted)",
    "C20-2": "process_trace.py: one gzip member per chain, reader loops `while fh.peek(1)`",
    "C20-3": "process_trace.py: flushed per-chain records; reader inflates with `decompressobj` and ignores the missing trailer",
    # ---- second round (different functions, subtler mechanisms)
    "C01-4": "smc/utils.py `RootPermutationDistribution.sample`: `rng.shuffle(outliers)` removed before the outlier interleave",
    "C01-5": "tree.py `get_subtree_data_len`: loops over children instead of descendants (permutation density wrong for deep trees)",
    "C01-6": "run.py `setup_kernel`: kernel built with a fresh TreeJointDistribution instead of the chain's shared one (stale alpha after a concentration update)",
    "C03-4": "distributions.py `_compute_r_term`: sign of the root-count normaliser flipped in a tidy-up",
    "C03-5": "distributions.py `outlier_prior`: `outlier_prob != 0` guard hoisted from the data point to the node's first point (order-dependent value)",
    "C03-6": "tree.py `Tree.__eq__`: cheap rejection on the number of outliers, then clades only (`==` and `hash` disagree)",
    "C04-4": "gibbs_mh.py `DataPointSampler.sample_tree`: skip guard lost `old_node == outlier or` (a lone outlier is never reassigned)",
    "C04-5": "distributions.py `log_p_one`: outlier terms grouped under `if len(tree.outliers) > 0` (outlier prior of the clone points skipped; fused form unchanged)",
    "C04-6": "tree.py `add_subtree`: `if parent is None` -> `if not parent` (clone 0 is falsy: regraft below clone 0 goes to the root)",
    "C06-4": "tree.py `get_subtree`: per-node `TreeNode.copy()` dropped (extracted tree shares payloads with its source)",
    "C06-5": "tree.py `_internal_add_data_point_to_node`: refresh wrapped in `if parent:` (skipped when the parent is clone 0)",
    "C06-6": "tree.py `_update_path_to_root`: `all_simple_paths` replaced by `ancestors` refreshed in ascending index order",
    "C07-4": "gibbs_mh.py `_get_subtree_and_pruned_tree`: `pruned_tree = tree` (input pruned in place; early return hands back a tree without clones)",
    "C07-5": "visitors.py `PreOrderNodeRelabeller.discover_vertex`: `node_indices_rev[v] = old_node_id`",
    "C07-6": "bootstrap.py `sample`: `parent_particle is None` -> `self._empty_tree()` (outliers-only parent treated as no parent)",
    "C08-4": "fully_adapted.py `_init_dist`: `log_q` computed before the outlier tree is appended (zip drops the outlier placement)",
    "C08-5": "semi_adapted.py `log_p`: guard re-ordered to `node not in parent.tree_nodes` (outlier placement scored as a new clone)",
    "C08-6": "bootstrap.py `sample`: first-particle and outliers-only branches merged under `_empty_tree()` (fresh tree drops the parent's outliers)",
    "C12-4": "process_trace/utils.py `convert_rustworkx_to_networkx`: `add_nodes_from` removed (all-outlier tree has no 'root')",
    "C12-5": "map.py `compute_max_likelihood`: `sorted(graph.successors(...))`",
    "C12-6": "process_trace.py `get_clone_table`: `df_list.append(group)` moved under `if clone_id in ccfs` (outlier rows dropped)",
    "C15-4": "distributions.py `FSCRPDistribution`: `log_alpha` computed in `__init__` only (entry records new alpha next to log_p_one under the old one)",
    "C15-5": "run.py `run_phyclone_chain`: result of `_run_burnin` discarded (first entry is the start tree)",
    "C15-6": "run.py `run`: `pool.submit(...)` passes `print_freq` in the `thin` position",
    "C17-4": "pyclone.py `load_pyclone_data`: samples taken in order of first appearance after sorting by (mutation, sample)",
    "C17-5": "pyclone.py `_remove_duplicated_and_partially_absent_mutations`: early return when `len(df) == n_samples * n_mutations`",
    "C17-6": "pyclone.py `_process_required_cols_on_df`: default blocks indented under the `else` of the `len(samples) > 10` print branch",
    "C19-4": "tree.py `to_dict`: `.copy()` dropped on the two index maps (recorded entries share the live tree's maps)",
    "C19-5": "smc/samplers/base.py `sample`: first-resample guard `<` -> `<=`",
    "C19-6": "distributions.py `outlier_prior`: guard tests `outlier_prob_not != 0` (log(0) at --outlier-prob 1.0)",
    "C02-4": "tree.py `get_subtree`: per-node payload copy dropped (extracted tree shares log_p / log_r with its source)",
    "C02-5": "tree/utils.py `_np_conv_dims`: normalisation by the global maximum instead of the per-sample maximum",
    "C02-6": "tree/utils.py `_convolve_two_children`: direct/FFT dispatch threshold lowered from 1000 to 200",
    "C05-4": "pyclone.py `_setup_cluster_df`: `drop_duplicates()` before the projection onto per-mutation columns (cluster sizes multiplied by the number of samples)",
    "C05-5": "pyclone.py `log_pyclone_binomial_pdf`: `norm_const` hoisted out of the genotype loop",
    "C05-6": "pyclone.py `_create_loaded_pyclone_data_dict`: per-sample lookups replaced by `itertuples(index=False)` in file order",
    "C09-4": "smc/utils.py `interleave_lists`: two-list fast path with independently drawn slots (valid but non-uniform orders)",
    "C09-5": "tree.py `get_descendants`: `source or ROOT` (clone 0 is falsy)",
    "C09-6": "smc/utils.py `log_pdf`: early `return 0.0` for a tree without clones",
    "C10-4": "map.py `get_map_clonal_prev`: `.copy()` dropped (the parent's CCF entry is decremented in place)",
    "C10-5": "map.py `compute_log_D`: memoised with the order-insensitive `list_of_np_cache` (back-pointers of another child order served)",
    "C10-6": "map.py `compute_log_S`: `np.maximum.accumulate(log_D)` without `axis=1`",
    "C11-4": "process_trace.py `count_topology`: `chain_num` not updated when a better score is seen",
    "C11-5": "process_trace.py `create_topology_dataframe`: `ignore_index=True` dropped from `sort_values` (ids are first-appearance indices)",
    "C11-6": "tree.py `Tree.__hash__`: hashes the outlier *list* (equal trees hash differently)",
    "C13-4": "concentration.py `__init__`: `self.b = a`",
    "C13-5": "distributions.py `TreeJointDistribution.__eq__/__hash__`: identity-based (caches no longer keyed on alpha)",
    "C13-6": "concentration.py `sample`: prior-draw guard `num_clusters == 0` -> `<= 1`",
    "C14-4": "tree/utils.py `compute_log_S`: running log-sum accumulated into the cached `log_D` for > 2 children",
    "C14-5": "utils.py `NumpyTwoArraysHasher.__init__`: key = (shape, digest_a XOR digest_b)",
    "C14-6": "distributions.py `FSCRPDistribution.__hash__`: hashes `_c_const` instead of alpha",
    "C16-4": "consensus.py `clade_probabilities`: `get_clades` memoised per Newick string (forgets mutation placement)",
    "C16-5": "process_trace.py `count_topology`: `count += 1` only when the score does not improve",
    "C16-6": "consensus.py `clean_tree`: nodes with an empty own-mutation set spliced out",
    "C18-4": "run.py `instantiate_and_seed_RNG`: `if seed:` (seed 0 taken as unseeded)",
    "C18-5": "fully_adapted.py `_init_dist`: `trees = list(set(trees))` (hash-seed-dependent order)",
    "C18-6": "run.py `run`: pool size `min(num_chains, usable CPUs)` (chains share a worker and its caches)",
    "C20-4": "run.py `run`: trace rewritten after every finished chain",
    "C20-5": "process_trace.py: cluster table moved out of the pickle into `<out>.clusters.tsv`, attached on read if present",
    "C20-6": "run.py `run`: chains collected so far are written before a worker's exception is re-raised",
}

# what the check did the first time it met the change (before any strengthening), recorded at import
FIRST = {
    "C01-2": "missed (C08.B1 existed, C01 did not import it) -> C01 now imports C08's accounting rules",
    "C01-3": "missed -> C01 imports C14.K1 (cache key covers what the body reads)",
    "C02-1": "missed -> C02 imports C14.K2 (multiset key)",
    "C02-3": "analysis-error (N5 did not recognise the loop) -> a non-DFS refresh order is now a violation; TS compares update() with the reference",
    "C03-2": "missed -> T1 follows the alpha setter (log_alpha refreshed with alpha)",
    "C04-1": "missed -> C04 imports C06.M1/M2 (refresh start node)",
    "C06-2": "missed -> C06 imports C07.V2 (relabeller reads data under the old name)",
    "C07-1": "missed -> new rule R0 (whole-tree reset guarded by tree equality) and TS",
    "C07-2": "missed -> C07 imports C06.M4 (copies are deep)",
    "C08-1": "analysis-error (unknown guard) -> unknown guards are unconstrained scenarios; B1 reports the normalisation defect",
    "C08-3": "missed -> C08 imports C01.K3 (first-step weights through _get_log_w)",
    "C12-1": "missed -> C10.X4 per-sample decrement check, imported by C12",
    "C12-2": "analysis-error -> N6 reports non-Newick text written to .nwk",
    "C14-3": "checker crash (KeyError) -> missing __eq__/__hash__ on a key component is a K1 violation",
    "C17-1": "analysis-error (itertuples idiom) -> idiom decided: file order reaches the sample axis",
    "C17-3": "analysis-error (sorted(key=)) -> idiom decided: key=str is not the documented order",
    "C19-1": "missed -> C19 imports C07.L1 (outliers restored from the tree that holds them)",
    "C19-3": "missed -> C19 imports C02.N4 (floor covers negatives)",
    "C20-1": "analysis-error (reader shape) -> P0 pre-pass: a reader that treats EOF as end of data is a violation",
    "C20-2": "analysis-error -> P0",
    "C20-3": "analysis-error -> P0",
    "C04-5": "missed (C03.T2 fired) -> C04 imports the density rules C03.T1-T3",
    "C04-6": "missed (TS fired in C02/C03/C06/C07) -> C04 imports TS for the tree editor",
    "C08-5": "missed -> the adapted outcome is accounted as two cells (existing clone / outlier set)",
    "C08-6": "analysis-error (disjunctive state guard) -> disjunctions are expanded into states; new rule A2 (empty tree only without a parent)",
    "C12-6": "missed -> N3 compares the returned table with the specification's (every group returned)",
    "C15-4": "missed (C03.T1 / C13.U3 fired) -> C15 imports C13.U3 and the density rules",
    "C17-5": "analysis-error (conditional filter) -> a documented filter guarded by a size test is an L1 violation",
    "C17-6": "analysis-error -> documented defaults guarded by a size test are an L3 violation",
    "C19-4": "missed (C06.M4 / C15.D3 fired) -> C19 imports C06.M4 (recorded form shares nothing with the live tree)",
    "C19-6": "missed (C03.T2 fired) -> C19 imports the density rules",
    "C01-4": "caught (through C09.P1/P2, imported into C01 on premise-graph grounds shortly before this change was met)",
    "C01-5": "caught (through C09.P4 / TS, imported as above)",
    "C07-6": "missed (C08.A2 fired) -> C07 imports the proposal-arm rules C08.A1/A2/X1",
    "C05-4": "missed -> new rule E6 (cluster table de-duplicated on per-mutation columns)",
    "C10-5": "missed -> new rule C14.K6 (order-insensitive key needs an order-insensitive value, for every decorated function), imported by C10",
    "C10-6": "analysis-error -> X2 reports a running maximum accumulated along the sample axis",
    "C11-6": "caught (through C03.I1, imported into C11 on premise-graph grounds shortly before)",
    "C13-5": "missed (C14.K1 fired) -> C13 imports C14.K1",
    "C16-5": "missed (C11.A2 fired) -> C16 imports C11.A2 and C03.I1/I2",
    "C20-5": "missed -> new rule F3 (one artefact: the writer writes / the readers read the trace path only)",
}


def main():
    out = subprocess.run([sys.executable, os.path.join(VERIF, "tools", "run_seeded.py")], capture_output=True, text=True).stdout
    caught = {}
    for line in out.splitlines():
        parts = line.split()
        if len(parts) >= 5 and parts[1] == "breaks":
            caught[parts[0]] = line.split("->", 1)[1].strip()
    rows = ["| change | what it does | reported by (today) | first meeting |", "|---|---|---|---|"]
    names = sorted(d for d in os.listdir(os.path.join(VERIF, "seeded")) if os.path.isdir(os.path.join(VERIF, "seeded", d)))
    for n in names:
        rows.append("| %s | %s | %s | %s |" % (n, WHAT.get(n, "(see notes.md)"), caught.get(n, "?").replace("CAUGHT ", "").replace("'", ""), FIRST.get(n, "caught")))
    head = ("# Seeded changes\n\nEach directory holds `patch.diff` (applies to /repo HEAD), `demo.py` (exit 0 on the clean tree, non-zero with the\n"
            "patch: the concrete violation), `notes.md` (the author's explanation) and `meta.json` (what was re-confirmed at import:\n"
            "demo on a clean archive, demo with the patch, byte-compilation, pinned test command = baseline).  All were written by\n"
            "independent sub-agents that saw only the property text and a scratch worktree.  `tools/run_seeded.py` applies each to a\n"
            "scratch copy (parsed only) and runs the check of the property it breaks.\n\n")
    open(os.path.join(VERIF, "seeded", "README.md"), "w").write(head + "\n".join(rows) + "\n")
    print("\n".join(rows))
    missed = [n for n in names if "CAUGHT" not in caught.get(n, "")]
    if missed:
        print("NOT CAUGHT:", missed)
        return 1
    return 0


if __name__ == "__main__":
    sys.exit(main())
