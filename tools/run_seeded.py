#!/venv/bin/python
"""Run the checks against seeded changes.

    tools/run_seeded.py [--all-checks] [seeded/<id> ...]

For each seeded change the patch is applied to a scratch copy of /repo/phyclone (under $(mktemp -d),
removed afterwards) and the quick check of the property it breaks (or of every property with
--all-checks) is run with --repo <copy>.  Prints one line per (change, check): exit code and rules
fired.  Exit status 0 iff every seeded change is caught by the check of the property it breaks.
"""
import json
import os
import shutil
import subprocess
import sys
import tempfile
from concurrent.futures import ThreadPoolExecutor

VERIF = os.path.dirname(os.path.dirname(os.path.abspath(__file__)))
ALL = ["C%02d" % i for i in range(1, 21)]
try:
    LISTED = set(json.load(open(os.path.join(VERIF, "seeded", "ANALYSIS_ERRORS.json"))))
except (OSError, ValueError):
    LISTED = set()


def run_one(d, all_checks):
    meta = json.load(open(os.path.join(d, "meta.json")))
    pid = meta["property"]
    tmp = tempfile.mkdtemp(prefix="seeded_")
    try:
        shutil.copytree("/repo/phyclone", os.path.join(tmp, "phyclone"), ignore=shutil.ignore_patterns("__pycache__"))
        p = subprocess.run(["patch", "-p1", "-s", "-i", os.path.join(d, "patch.diff")], cwd=tmp, capture_output=True, text=True)
        if p.returncode != 0:
            return d, pid, [("apply", 99, [p.stdout + p.stderr])]
        res = []
        for c in (ALL if all_checks else [pid]):
            env = dict(os.environ, PCSTATIC_EVIDENCE_DIR=os.path.join(tmp, "ev"))
            r = subprocess.run([sys.executable, "-B", "-m", "pcstatic.main", c, "--repo", tmp, "--quiet"], cwd=VERIF, env=env, capture_output=True, text=True)
            out = r.stdout + r.stderr
            rules = sorted({l.split("rule=")[1].split()[0] for l in out.splitlines() if "  rule=" in l})
            if r.returncode == 2:
                rules = [l for l in out.splitlines() if "ANALYSIS-ERROR" in l][:1]
            res.append((c, r.returncode, rules))
        return d, pid, res
    finally:
        shutil.rmtree(tmp, ignore_errors=True)


def main(argv):
    all_checks = "--all-checks" in argv
    dirs = [os.path.abspath(a) for a in argv if not a.startswith("--")]
    if not dirs:
        root = os.path.join(VERIF, "seeded")
        dirs = sorted(os.path.join(root, x) for x in os.listdir(root) if os.path.exists(os.path.join(root, x, "meta.json")))
    rc = 0
    with ThreadPoolExecutor(max_workers=8) as ex:
        for d, pid, res in ex.map(lambda d: run_one(d, all_checks), dirs):
            own = [r for r in res if r[0] == pid]
            caught = bool(own) and own[0][1] == 1
            if not caught and own and own[0][1] == 2 and os.path.basename(d) in LISTED:
                print("%-34s breaks %s  ->  ANALYSIS-ERROR (listed in seeded/ANALYSIS_ERRORS.json) %s" % (os.path.basename(d), pid, own[0][2]))
                continue
            others = [r[0] for r in res if r[0] != pid and r[1] == 1]
            print("%-34s breaks %s  ->  %s %s%s" % (os.path.basename(d), pid, "CAUGHT" if caught else "MISSED(exit %s)" % (own[0][1] if own else "?"), own[0][2] if own else res, ("  also fired: %s" % others) if others else ""))
            if not caught:
                rc = 1
    return rc


if __name__ == "__main__":
    sys.exit(main(sys.argv[1:]))
