#!/venv/bin/python
"""Confirm and import seeded changes produced by independent sub-agents.

    tools/import_seeded.py /tmp/seed_out/C10 [...]   # each holds 1/,2/,3/ with patch.diff, demo.py, notes.md

For every change: export /repo HEAD into a scratch directory (git archive), check that the demo passes
on the clean copy, apply the patch, check that the package still byte-compiles, that the demo now fails,
and that the pinned test command still gives the baseline (85 passed, the same 2 failures, 1 collection
error).  Only confirmed changes are copied to /verif/seeded/<Cxx>-<k>/ with a meta.json recording what
was run.  Scratch directories are removed.
"""
import json
import os
import re
import shutil
import subprocess
import sys
import tempfile
from concurrent.futures import ThreadPoolExecutor

VERIF = os.path.dirname(os.path.dirname(os.path.abspath(__file__)))
PY = "/venv/bin/python"
SUITE = [PY, "-m", "pytest", "-ra", "-q", "-p", "no:cacheprovider", "--timeout=900", "--continue-on-collection-errors"]


def sh(cmd, cwd, env=None, timeout=1800):
    e = dict(os.environ)
    e.update(env or {})
    p = subprocess.run(cmd, cwd=cwd, env=e, capture_output=True, text=True, timeout=timeout)
    return p.returncode, p.stdout + p.stderr


def confirm(src):
    pid = os.path.basename(os.path.dirname(src))
    k = str(int(os.path.basename(src)) + OFFSET)
    name = "%s-%s" % (pid, k)
    res = {"name": name, "property": pid}
    for f in ("patch.diff", "demo.py"):
        if not os.path.exists(os.path.join(src, f)):
            res["status"] = "incomplete (%s missing)" % f
            return res
    tmp = tempfile.mkdtemp(prefix="seedchk_")
    try:
        head = subprocess.check_output(["git", "-C", "/repo", "rev-parse", "--short", "HEAD"], text=True).strip()
        subprocess.check_call("git -C /repo archive HEAD | tar -x -C %s" % tmp, shell=True)
        env = {"PYTHONPATH": tmp}
        rc0, out0 = sh([PY, os.path.join(src, "demo.py")], tmp, env, timeout=600)
        res["demo_clean_exit"] = rc0
        rca, outa = sh(["git", "apply", "--unsafe-paths", "--directory=" + tmp, os.path.join(src, "patch.diff")], "/", None)
        if rca != 0:
            rca, outa = sh(["patch", "-p1", "-s", "-i", os.path.join(src, "patch.diff")], tmp)
        if rca != 0:
            res["status"] = "patch does not apply: " + outa[-300:]
            return res
        rcc, outc = sh([PY, "-m", "compileall", "-q", "phyclone"], tmp)
        res["compiles"] = rcc == 0
        rc1, out1 = sh([PY, os.path.join(src, "demo.py")], tmp, env, timeout=600)
        res["demo_patched_exit"] = rc1
        res["demo_patched_tail"] = out1.strip().splitlines()[-1][:300] if out1.strip() else ""
        rcs, outs = sh(SUITE, tmp, env, timeout=3000)
        m = re.search(r"(\d+) failed, (\d+) passed(?:, \d+ \w+)*, (\d+) error", outs)
        res["suite_summary"] = outs.strip().splitlines()[-1][:200] if outs.strip() else ""
        failed = sorted(set(re.findall(r"^FAILED (\S+)", outs, re.M)))
        res["suite_failed"] = failed
        base_failed = ["phyclone/tests/test_proposal_caching.py::FullyAdaptedTest::test_no_parent_tree_or_particle", "phyclone/tests/test_proposal_caching.py::SemiAdaptedTest::test_no_parent_tree_or_particle"]
        suite_ok = bool(m) and m.group(2) == "85" and failed == base_failed
        res["suite_ok"] = suite_ok
        ok = rc0 == 0 and rcc == 0 and rc1 != 0 and suite_ok
        res["status"] = "confirmed" if ok else "rejected"
        res["repo_head"] = head
        if ok:
            dst = os.path.join(VERIF, "seeded", name)
            os.makedirs(dst, exist_ok=True)
            for f in ("patch.diff", "demo.py", "notes.md"):
                if os.path.exists(os.path.join(src, f)):
                    shutil.copy(os.path.join(src, f), os.path.join(dst, f))
            notes = open(os.path.join(src, "notes.md")).read() if os.path.exists(os.path.join(src, "notes.md")) else ""
            meta = {
                "property": pid,
                "origin": "independent sub-agent given only the property text and a scratch worktree",
                "needs_to_manifest": _needs(notes),
                "confirmed": {
                    "repo_head": head,
                    "demo_on_clean_copy": "exit 0",
                    "demo_with_patch": "exit %d: %s" % (rc1, res["demo_patched_tail"]),
                    "package_compiles": True,
                    "test_suite_with_patch": res["suite_summary"],
                    "commands": ["git -C /repo archive HEAD | tar -x -C <scratch>", "PYTHONPATH=<scratch> /venv/bin/python demo.py", "git apply patch.diff", "PYTHONPATH=<scratch> " + " ".join(SUITE)],
                },
            }
            json.dump(meta, open(os.path.join(dst, "meta.json"), "w"), indent=1)
        return res
    finally:
        shutil.rmtree(tmp, ignore_errors=True)


def _needs(notes):
    for line in notes.splitlines():
        if re.search(r"manifest|needs|need", line, re.I):
            return line.strip(" -*#")[:400]
    return notes.strip().splitlines()[0][:300] if notes.strip() else ""


OFFSET = 0


def main(argv):
    global OFFSET
    if argv and argv[0] == "--offset":
        OFFSET = int(argv[1])
        argv = argv[2:]
    srcs = []
    for d in argv:
        for k in sorted(os.listdir(d)):
            if os.path.isdir(os.path.join(d, k)) and k.isdigit():
                srcs.append(os.path.join(d, k))
    with ThreadPoolExecutor(max_workers=6) as ex:
        for r in ex.map(confirm, srcs):
            print(json.dumps(r))


if __name__ == "__main__":
    main(sys.argv[1:])
